"""fsa - FactorySimPy static analysis: repo-specific checkers for properties C01..C20.

Nothing in this package imports or executes FactorySimPy.  Every verdict is computed from the
``ast`` of the files under <repo>/src/factorysimpy at the moment a check is invoked.
"""
