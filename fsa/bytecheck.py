"""Thorough-tier cross-check: the attribute / call names the AST walkers see in each function equal the names
the compiled code object (never executed) refers to, so the analysis provably covers what the interpreter would run."""
from __future__ import annotations

import ast
import dis
import types

from .model import AnalysisError, Project, walk_no_nested


def _code_objects(code):
    yield code
    for c in code.co_consts:
        if isinstance(c, types.CodeType):
            yield from _code_objects(c)


def _attr_names_bytecode(code):
    out = set()
    for co in _code_objects(code):
        for ins in dis.get_instructions(co):
            if ins.opname in ('LOAD_ATTR', 'STORE_ATTR', 'DELETE_ATTR', 'LOAD_METHOD'):
                out.add(ins.argval)
    return out


def _attr_names_ast(fn):
    out = set()
    for n in ast.walk(fn):
        if isinstance(n, ast.Attribute):
            out.add(n.attr)
    return out


def crosscheck(p: Project):
    """-> stats dict; raises AnalysisError on a mismatch."""
    n_funcs = 0
    mism = []
    for rel, m in sorted(p.modules.items()):
        try:
            code = compile(m.src, rel, 'exec')
        except SyntaxError as e:
            raise AnalysisError(f'{rel} does not compile: {e}')
        by_line = {}
        for co in _code_objects(code):
            by_line.setdefault((co.co_name, co.co_firstlineno), co)
        for fi in [f for f in p.all_functions() if f.module == rel]:
            first = fi.node.lineno if not fi.node.decorator_list else fi.node.decorator_list[0].lineno
            co = by_line.get((fi.name, first)) or by_line.get((fi.name, fi.node.lineno))
            if co is None:
                mism.append(f'{fi.key}: no code object')
                continue
            n_funcs += 1
            b = _attr_names_bytecode(co)
            a = _attr_names_ast(fi.node)
            # walk_no_nested + nested scopes must cover the same attributes as ast.walk
            w = set()
            for n in walk_no_nested(fi.node):
                if isinstance(n, ast.Attribute):
                    w.add(n.attr)
                if isinstance(n, (ast.Lambda, ast.FunctionDef)):
                    for x in ast.walk(n):
                        if isinstance(x, ast.Attribute):
                            w.add(x.attr)
            if b != a or w != a:
                mism.append(f'{fi.key}: bytecode-only {sorted(b - a)[:5]} ast-only {sorted(a - b)[:5]} walker-missed {sorted(a - w)[:5]}')
    if mism:
        raise AnalysisError('bytecode cross-check failed: ' + '; '.join(mism[:5]))
    return {'functions_cross_checked': n_funcs, 'mismatches': 0}
