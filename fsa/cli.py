"""Command line: ./check <Cnn> [--tier quick|thorough] [--repo DIR] [--replay FILE]

Exit status: 0 every obligation discharged (or only known findings matched); 1 at least one
`VIOLATION property=<id> replay=<path>`; 2 `ANALYSIS-ERROR ...` (analysis could not be carried out).
"""
from __future__ import annotations

import argparse
import importlib
import json
import os
import sys
import time
import traceback

from .model import AnalysisError, Project
from . import report

PROPS = ['C01', 'C02', 'C03', 'C04', 'C05', 'C06', 'C07', 'C08', 'C09', 'C10', 'C11', 'C12', 'C13', 'C14', 'C15', 'C16',
         'C17', 'C18', 'C19', 'C20']


def load_rule(prop):
    return importlib.import_module(f'fsa.rules.{prop.lower()}')


def run_check(prop: str, tier: str, repo: str, seed: int, overlay=None, quiet=False, write=True):
    """Run one property's rules, then the supporting clauses it borrows from other properties (fsa/support.py). Returns (Result, module)."""
    from . import support
    mod = load_rule(prop)
    project = Project(repo, overlay)
    own_error = None
    try:
        res = mod.run(project, tier)
    except AnalysisError as e:
        # the property's own rules could not be evaluated (fail closed: exit 2) -- unless a supporting clause names the violation that broke the tree
        own_error = e
        res = report.Result(prop)
    support.run(prop, project, tier, res, load_rule)
    if own_error is not None:
        if report.has_new_findings(res):
            print(f'ANALYSIS-NOTE property={prop} own rules not evaluated: {own_error}')
            res.floors = {k: v for k, v in res.floors.items() if k.startswith(prop + '/')}
        else:
            raise own_error
    res.stats['normalisation'] = project.normalisation.get('applied', {})
    res.stats['source_digest'] = project.digest()
    return res, mod


def main(argv=None):
    ap = argparse.ArgumentParser(prog='check')
    ap.add_argument('prop')
    ap.add_argument('--tier', default=os.environ.get('VERIF_TIER', 'quick'), choices=['quick', 'thorough'])
    ap.add_argument('--repo', default=os.environ.get('FSA_REPO', '/repo'))
    ap.add_argument('--replay', default=None)
    args = ap.parse_args(argv)
    seed = int(os.environ.get('VERIF_SEED', '0') or 0)
    t0 = time.time()
    prop = args.prop.upper()
    if prop == 'SELFCHECK':
        return selfcheck(args.repo)
    if prop not in PROPS:
        print(f'ANALYSIS-ERROR unknown property {prop}')
        return 2
    try:
        if args.tier == 'thorough':
            from . import paths as _paths
            _paths.DEFAULT_UNROLL = 3
        res, mod = run_check(prop, args.tier, args.repo, seed)
        if args.tier == 'thorough':
            from . import bytecheck, selftest, paths as _paths
            res.stats['unroll'] = _paths.DEFAULT_UNROLL
            res.stats['bytecode_crosscheck'] = bytecheck.crosscheck(Project(args.repo, normalise=False))
            _paths.DEFAULT_UNROLL = 2          # the variant matrix runs at the quick-tier bound
            try:
                selftest.run(prop, args.repo, seed, res)
            except AnalysisError as e:
                # a violation found on the tree itself is reported as such (exit 1) even when the self-test of the checker also complains
                if report.has_new_findings(res):
                    print(f'ANALYSIS-NOTE property={prop} {e}')
                else:
                    raise
        if args.replay:
            return replay(res, args.replay)
        level = getattr(mod, 'LEVEL', 'other')
        return report.finish(res, args.tier, seed, t0, level, f'./check {prop} --tier {args.tier}')
    except AnalysisError as e:
        print(f'ANALYSIS-ERROR property={prop} {e}')
        return 2
    except Exception:
        traceback.print_exc()
        print(f'ANALYSIS-ERROR property={prop} internal error (traceback above)')
        return 2


def replay(res, path):
    """Re-evaluate the rule instance recorded in a finding file on the current tree."""
    try:
        rec = json.loads(open(path).read())
    except Exception as e:
        print(f'ANALYSIS-ERROR cannot read replay file {path}: {e}')
        return 2
    hits = [f for f in res.findings if f.rule == rec.get('rule') and f.construct == rec.get('construct')]
    if hits:
        f = hits[0]
        print(f'{f.file}:{f.line}: {f.rule} {f.construct}: {f.message}')
        if f.path:
            print('  path: ' + ' → '.join(f.path))
        print(f'VIOLATION property={res.prop} replay={path}')
        return 1
    print(f'{res.prop}: {rec.get("rule")} {rec.get("construct")} no longer reported on the current tree')
    return 0


def selfcheck(repo):
    """setup_cmd: imports, parses the repository, validates the slot tables."""
    try:
        from . import tables
        p = Project(repo)
        stores = tables.discover_stores(p)
        edges = tables.edge_classes(p)
        nodes = tables.node_classes(p)
        for prop in PROPS:
            load_rule(prop)
        print(f'selfcheck ok: {len(p.modules)} modules, {len(p.classes)} classes, {len(stores)} stores, '
              f'{len(edges)} edges, {len(nodes)} nodes, {len(PROPS)} rule modules, digest {p.digest()}')
        return 0
    except AnalysisError as e:
        print(f'ANALYSIS-ERROR selfcheck {e}')
        return 2
    except Exception:
        traceback.print_exc()
        print('ANALYSIS-ERROR selfcheck internal error')
        return 2


if __name__ == '__main__':
    sys.exit(main())
