"""Desugaring of Python 3.8+/3.10+ constructs into the statement kinds the explorer and the rules know (first step of the normalisation).

  D1  `match S: case P [if G]: B ...`  ->  if / elif chain.  Supported patterns: literal values and dotted names (`==`), None/True/False (`is`), wildcard,
      capture of the whole subject, `int()` / `str()` / `Cls()` class patterns without sub-patterns (isinstance), or-patterns of those, `P as name`,
      fixed-length sequence patterns when the subject is a tuple display of the same length (matched element by element).
      A capture `case x if G(x): B` binds `x = S` before the chain - allowed only when `x` is not read outside that case.
  D2  walrus in the test of an `if`: `if (x := E) is None:` -> `x = E` ; `if x is None:` when the assignment expression is evaluated unconditionally
      (not in a later operand of and/or, not in a conditional expression, comprehension or lambda); in a later operand of `A and B(x := E)` of an `if`
      without else -> `if A: x = E; if B(x): ...`.
  D3  walrus in the test of a `while` whose value is an attribute chain of `self` (an alias: `while idx < len(q := self.queue)`): `q = self.queue` before
      the loop and at the end of its body (no `continue` in the body).
A construct outside these forms is left alone; the explorer then stops with an analysis error for that function (fail closed), never with a guess.
"""
from __future__ import annotations

import ast
import copy
from typing import Dict, List, Optional, Tuple


class _Unsupported(Exception):
    pass


def _pure_subject(e) -> bool:
    if isinstance(e, (ast.Name, ast.Constant)):
        return True
    if isinstance(e, ast.Attribute):
        return _pure_subject(e.value)
    if isinstance(e, ast.Subscript):
        return _pure_subject(e.value) and _pure_subject(e.slice)
    return False


def _pattern(p, S, binds: List[Tuple[str, ast.expr]]) -> Optional[ast.expr]:
    """test expression for pattern p against subject expression S (None = always true); captures appended to binds"""
    if isinstance(p, ast.MatchValue):
        return ast.Compare(left=copy.deepcopy(S), ops=[ast.Eq()], comparators=[p.value])
    if isinstance(p, ast.MatchSingleton):
        return ast.Compare(left=copy.deepcopy(S), ops=[ast.Is()], comparators=[ast.Constant(value=p.value)])
    if isinstance(p, ast.MatchAs):
        t = _pattern(p.pattern, S, binds) if p.pattern is not None else None
        if p.name is not None:
            binds.append((p.name, copy.deepcopy(S)))
        return t
    if isinstance(p, ast.MatchClass):
        if p.patterns or p.kwd_patterns:
            raise _Unsupported('class pattern with sub-patterns')
        return ast.Call(func=ast.Name(id='isinstance', ctx=ast.Load()), args=[copy.deepcopy(S), p.cls], keywords=[])
    if isinstance(p, ast.MatchOr):
        if all(isinstance(x, ast.MatchValue) for x in p.patterns):
            return ast.Compare(left=copy.deepcopy(S), ops=[ast.In()], comparators=[ast.Tuple(elts=[x.value for x in p.patterns], ctx=ast.Load())])
        tests = []
        for x in p.patterns:
            b2: List = []
            t = _pattern(x, S, b2)
            if b2:
                raise _Unsupported('captures inside an or-pattern')
            if t is None:
                return None
            tests.append(t)
        return ast.BoolOp(op=ast.Or(), values=tests)
    if isinstance(p, ast.MatchSequence):
        if any(isinstance(x, ast.MatchStar) for x in p.patterns):
            raise _Unsupported('star pattern')
        if not (isinstance(S, ast.Tuple) and len(S.elts) == len(p.patterns)):
            raise _Unsupported('sequence pattern on a subject that is not a tuple display of the same length')
        tests = [t for t in (_pattern(x, e, binds) for x, e in zip(p.patterns, S.elts)) if t is not None]
        if not tests:
            return None
        return tests[0] if len(tests) == 1 else ast.BoolOp(op=ast.And(), values=tests)
    raise _Unsupported(type(p).__name__)


def _names_read(nodes, name) -> int:
    return sum(1 for n in nodes for x in ast.walk(n) if isinstance(x, ast.Name) and x.id == name and isinstance(x.ctx, ast.Load))


def _desugar_match(fn, body: List[ast.stmt], i: int, counter: List[int]) -> bool:
    m = body[i]
    S = m.subject
    pre: List[ast.stmt] = []
    if isinstance(S, ast.Tuple):
        if not all(_pure_subject(e) for e in S.elts):
            return False
    elif not _pure_subject(S):
        counter[0] += 1
        tmp = f'_match_subject_{counter[0]}'
        pre.append(ast.copy_location(ast.Assign(targets=[ast.Name(id=tmp, ctx=ast.Store())], value=S), m))
        S = ast.Name(id=tmp, ctx=ast.Load())
    chain: List[Tuple[Optional[ast.expr], List[ast.stmt]]] = []
    hoisted: List[ast.stmt] = []
    try:
        for c in m.cases:
            binds: List = []
            t = _pattern(c.pattern, S, binds)
            for name, expr in binds:
                # the capture is bound before the chain: only sound when nothing outside this case reads the name
                # (another case that captures the whole subject under the same name binds the very same value: one binding serves both)
                def whole(k):
                    pp = k.pattern
                    return isinstance(pp, ast.MatchAs) and pp.name == name and isinstance(S, (ast.Name, ast.Attribute, ast.Subscript, ast.Constant))
                others = [x for k in m.cases if k is not c and not (whole(k) and whole(c)) for x in ([k.guard] if k.guard is not None else []) + k.body]
                if any(isinstance(h.targets[0], ast.Name) and h.targets[0].id == name for h in hoisted):
                    continue
                def safe_case(k):
                    """the other case never observes the early binding: it captures the name itself, or assigns it before any read, or never reads it and ends"""
                    if name in {x.name for x in ast.walk(k.pattern) if isinstance(x, ast.MatchAs) and x.name}:
                        return True
                    if k.guard is not None and _names_read([k.guard], name):
                        return False
                    for st_ in k.body:
                        if isinstance(st_, ast.Assign) and any(isinstance(t_, ast.Name) and t_.id == name for t_ in st_.targets) and not _names_read([st_.value], name):
                            return True
                        if _names_read([st_], name):
                            return False
                        if isinstance(st_, (ast.Raise, ast.Return)):
                            return True
                    # falls through without binding the name: a read after the match would see the early binding instead of failing / the old value
                    return name in getattr(fn, '_capture_ok', set())
                if not all(safe_case(k) for k in m.cases if k is not c):
                    raise _Unsupported(f'capture `{name}` could be observed by another case')
                hoisted.append(ast.copy_location(ast.Assign(targets=[ast.Name(id=name, ctx=ast.Store())], value=expr), c.pattern))
            if c.guard is not None:
                t = c.guard if t is None else ast.BoolOp(op=ast.And(), values=[t, c.guard])
            chain.append((t, c.body))
    except _Unsupported:
        return False
    # build if / elif / else
    node: Optional[ast.If] = None
    tail: List[ast.stmt] = []
    for t, b in reversed(chain):
        if t is None:
            tail = b                        # irrefutable case: everything after it is unreachable
            node = None
            continue
        new = ast.If(test=t, body=b, orelse=tail if node is None else [node])
        ast.copy_location(new, m)
        node = new
        tail = []
    out = pre + hoisted + ([node] if node is not None else tail)
    for s_ in out:
        ast.fix_missing_locations(s_)
    body[i:i + 1] = out
    return True


# ------------------------------------------------------------------------------------------------ walrus
class _Replace(ast.NodeTransformer):
    def __init__(self, targets):
        self.targets = targets          # id(NamedExpr) -> True

    def visit_NamedExpr(self, node):
        self.generic_visit(node)
        if id(node) in self.targets:
            return ast.copy_location(ast.Name(id=node.target.id, ctx=ast.Load()), node)
        return node

    def visit_Lambda(self, node):
        return node

    def visit_ListComp(self, node):
        return node
    visit_SetComp = visit_DictComp = visit_GeneratorExp = visit_ListComp


def _unconditional_walrus(e) -> List[ast.NamedExpr]:
    """assignment expressions of `e` that are evaluated whenever `e` is, in evaluation order"""
    out: List[ast.NamedExpr] = []

    def rec(n):
        if isinstance(n, (ast.Lambda, ast.ListComp, ast.SetComp, ast.DictComp, ast.GeneratorExp)):
            return
        if isinstance(n, ast.BoolOp):
            rec(n.values[0])
            return
        if isinstance(n, ast.IfExp):
            rec(n.test)
            return
        if isinstance(n, ast.NamedExpr):
            rec(n.value)
            out.append(n)
            return
        for c in ast.iter_child_nodes(n):
            rec(c)
    rec(e)
    return out


def _all_walrus(e) -> List[ast.NamedExpr]:
    return [x for x in ast.walk(e) if isinstance(x, ast.NamedExpr)]


def _desugar_if_walrus(body: List[ast.stmt], i: int) -> bool:
    st = body[i]
    ws = _all_walrus(st.test)
    if not ws:
        return False
    unc = _unconditional_walrus(st.test)
    if len(unc) == len(ws):
        pre = [ast.copy_location(ast.Assign(targets=[ast.Name(id=w.target.id, ctx=ast.Store())], value=w.value), st) for w in unc]
        # nested walrus values: replace inner ones inside the hoisted values too
        ids = {id(w) for w in unc}
        for k, a in enumerate(pre):
            a.value = _Replace(ids - {id(unc[k])}).visit(a.value)
        st.test = _Replace(ids).visit(st.test)
        for a in pre:
            ast.fix_missing_locations(a)
        body[i:i] = pre
        return True
    # `if A and B(x := E): BODY` without else  ->  `if A: x = E ; if B(x): BODY`
    t = st.test
    if isinstance(t, ast.BoolOp) and isinstance(t.op, ast.And) and not st.orelse and len(t.values) == 2 and not _all_walrus(t.values[0]):
        inner_ws = _all_walrus(t.values[1])
        if len(_unconditional_walrus(t.values[1])) == len(inner_ws):
            inner = ast.copy_location(ast.If(test=t.values[1], body=st.body, orelse=[]), st)
            st.test = t.values[0]
            st.body = [inner]
            _desugar_if_walrus(st.body, 0)
            ast.fix_missing_locations(st)
            return True
    return False


def _has_continue(stmts) -> bool:
    def rec(n):
        for c in ast.iter_child_nodes(n):
            if isinstance(c, (ast.For, ast.While, ast.FunctionDef, ast.Lambda)):
                continue
            if isinstance(c, ast.Continue) or rec(c):
                return True
        return False
    return any(isinstance(s_, ast.Continue) or rec(s_) for s_ in stmts)


def _chain_attrs(e) -> List[str]:
    out = []
    while isinstance(e, ast.Attribute):
        out.append(e.attr)
        e = e.value
    return out


def _self_chain(e) -> bool:
    while isinstance(e, ast.Attribute):
        e = e.value
    return isinstance(e, ast.Name) and e.id == 'self'


REBOUND_ATTRS: set = set()      # attributes assigned somewhere outside a constructor (filled by desugar())


def _desugar_while_walrus(body: List[ast.stmt], i: int) -> bool:
    st = body[i]
    ws = _all_walrus(st.test)
    if not ws:
        return False
    if not all(_self_chain(w.value) and isinstance(w.value, ast.Attribute) for w in ws) or st.orelse:
        return False
    # an alias of an attribute that is only ever bound in a constructor denotes the same object on every evaluation of the test: bound once, before the loop
    stable = '*' not in REBOUND_ATTRS and all(all(a not in REBOUND_ATTRS for a in _chain_attrs(w.value)) for w in ws)
    if not stable and _has_continue(st.body):
        return False
    ids = {id(w) for w in ws}
    assigns = [ast.copy_location(ast.Assign(targets=[ast.Name(id=w.target.id, ctx=ast.Store())], value=copy.deepcopy(w.value)), st) for w in ws]
    st.test = _Replace(ids).visit(st.test)
    if not stable:
        st.body.extend(copy.deepcopy(assigns))
    for a in assigns:
        ast.fix_missing_locations(a)
    ast.fix_missing_locations(st)
    body[i:i] = assigns
    return True


def desugar(trees: Dict[str, ast.Module], log: Optional[List[str]] = None) -> Dict[str, int]:
    stats = {'match': 0, 'match_left': 0, 'walrus': 0, 'walrus_left': 0}
    counter = [0]
    REBOUND_ATTRS.clear()
    for tree in trees.values():
        for fn in [n for n in ast.walk(tree) if isinstance(n, (ast.FunctionDef, ast.AsyncFunctionDef))]:
            if fn.name == '__init__':
                continue
            for n in ast.walk(fn):
                tg = n.targets if isinstance(n, (ast.Assign, ast.Delete)) else [n.target] if isinstance(n, (ast.AugAssign, ast.AnnAssign, ast.For)) else []
                for t in tg:
                    for x in (t.elts if isinstance(t, (ast.Tuple, ast.List)) else [t]):
                        if isinstance(x, ast.Attribute):
                            REBOUND_ATTRS.add(x.attr)
                if isinstance(n, ast.Call) and isinstance(n.func, ast.Name) and n.func.id in ('setattr', 'delattr'):
                    REBOUND_ATTRS.add('*')

    def block(fn, body):
        i = 0
        while i < len(body):
            st = body[i]
            if isinstance(st, ast.Match):
                if _desugar_match(fn, body, i, counter):
                    stats['match'] += 1
                    continue
                stats['match_left'] += 1
            elif isinstance(st, ast.If) and _all_walrus(st.test):
                if _desugar_if_walrus(body, i):
                    stats['walrus'] += 1
                    continue
                stats['walrus_left'] += 1
            elif isinstance(st, ast.While) and _all_walrus(st.test):
                if _desugar_while_walrus(body, i):
                    stats['walrus'] += 1
                    continue
                stats['walrus_left'] += 1
            for f in ('body', 'orelse', 'finalbody'):
                b = getattr(st, f, None)
                if isinstance(b, list) and b and isinstance(b[0], ast.stmt) and not isinstance(st, (ast.FunctionDef, ast.AsyncFunctionDef, ast.ClassDef)):
                    block(fn, b)
            for h in getattr(st, 'handlers', []) or []:
                block(fn, h.body)
            if isinstance(st, ast.Match):
                for c in st.cases:
                    block(fn, c.body)
            i += 1
    for rel, tree in trees.items():
        for fn in [n for n in ast.walk(tree) if isinstance(n, (ast.FunctionDef, ast.AsyncFunctionDef))]:
            # capture names all of whose reads sit in a case that captures them itself (computed before anything is rewritten)
            caps_all = {x.name for mm in ast.walk(fn) if isinstance(mm, ast.Match) for k in mm.cases for x in ast.walk(k.pattern) if isinstance(x, ast.MatchAs) and x.name}
            ok = set()
            for name in caps_all:
                covered = 0
                for mm in [x for x in ast.walk(fn) if isinstance(x, ast.Match)]:
                    for k in mm.cases:
                        if name in {x.name for x in ast.walk(k.pattern) if isinstance(x, ast.MatchAs) and x.name}:
                            covered += _names_read(([k.guard] if k.guard is not None else []) + k.body, name)
                if _names_read([fn], name) == covered:
                    ok.add(name)
            fn._capture_ok = ok
            block(fn, fn.body)
        ast.fix_missing_locations(tree)
    if log is not None and any(stats.values()):
        log.append(f'D: {stats}')
    return stats
