"""N0 - flattening of helper base classes (template-method bases, mixins) into the classes that use them.

The library's own hierarchy is shallow and known (Node -> 5 nodes, Edge -> 4 edges, BaseFlowItem -> Item/Pallet, the slotted belt store and
its conveyor-side subclass).  A refactoring that extracts a common base class for the stores, a `WorkerNode` between `Node` and the three
processing nodes, or a priority mixin, moves the mechanisms the rules speak about into a class that is never instantiated and whose hooks
(`_current_level`, `_next_unreserved_item`, ...) mean something different in every concrete subclass.  Judging that base class on its own is
meaningless; judging it "once" loses the per-class obligations.

This step rewrites the parsed package into the equivalent one without those helper classes:

  * a class of the package is a *helper base* when it has subclasses in the package and its name is not one of the library's own class names;
  * for every concrete class C the methods and class attributes it inherits from helper bases are copied into C, in C3 linearisation order
    (first definition wins - exactly what attribute lookup on an instance of C does);
  * a version of a method that is only reachable through `super().m(...)` is copied under a private, unique name and the `super()` call is
    rewritten into a plain call of it (`super()` calls whose target lies outside the flattened classes are left alone: after the rewrite C's
    remaining bases are exactly those classes, so zero-argument super() still finds them);
  * private hooks that are defined by several classes are renamed apart per class when every use is `self.<hook>` inside a class whose
    hierarchy defines it exactly once after flattening (static dispatch), so that the helper-inlining steps N4/N8/N13/N18 can resolve them;
  * helper bases that are no longer referenced are removed.

Copied code keeps the line numbers of the helper class it came from; `origin_rel` on the copied FunctionDef names that file.
Side conditions are checked per class; a helper base that is referenced in any other way (isinstance, instantiated, used as a value) is
left in place and its subclasses are not flattened.
"""
from __future__ import annotations

import ast
import copy
from typing import Dict, List, Optional, Set, Tuple

LIBRARY_CLASSES = frozenset({
    'BaseFlowItem', 'BeltStore', 'Buffer', 'BufferStore', 'Combiner', 'ConveyorBelt', 'Edge', 'Fleet', 'FleetStore', 'Item', 'Machine', 'Node',
    'Pallet', 'PriorityGet', 'PriorityPut', 'PriorityReqStore', 'ReservablePriorityReqFilterStore', 'ReservablePriorityReqStore',
    'ReservableReqStore', 'Sink', 'SortedQueue', 'Source', 'Splitter'})

# private method names of the library as published: a private method with any *other* name that several classes define (a helper introduced by a
# refactoring, one copy per class) is renamed apart per class so that the helper-inlining steps can resolve it
LIBRARY_PRIVATE_METHODS = frozenset({
    '_add_trigger_event', '_analyze_pattern_for_interruption', '_buffer_stats_collector', '_calculate_gap_based_interruptions', '_conveyor_stats_collector', '_count_worker_state',
    '_dbg', '_delayed_interrupt', '_do_get', '_do_get1', '_do_put', '_do_reserve_get',
    '_do_reserve_put', '_execute_interruption_plan', '_fleet_stats_collector', '_get_belt_pattern', '_get_in_edge_index', '_get_out_edge_index',
    '_has_consecutive_items', '_interrupt_specific_item', '_pull_item', '_push_item', '_stats_collector1', '_trigger_get',
    '_trigger_put', '_trigger_reserve_get', '_trigger_reserve_put', '_update_avg_time_spent_in_blocked', '_update_avg_time_spent_in_processing', '_update_time_averaged_level',
    '_update_worker_occupancy'})


def _is_private(name: str) -> bool:
    return name.startswith('_') and not (name.startswith('__') and name.endswith('__'))


class _Cls:
    def __init__(self, rel, node):
        self.rel, self.node, self.name = rel, node, node.name
        self.bases: List[Optional['_Cls']] = []      # resolved internal bases (None for external ones), in order
        self.subs: List['_Cls'] = []

    def methods(self) -> Dict[str, ast.FunctionDef]:
        return {f.name: f for f in self.node.body if isinstance(f, ast.FunctionDef)}

    def attrs(self) -> Dict[str, ast.stmt]:
        out = {}
        for s in self.node.body:
            if isinstance(s, ast.Assign):
                for t in s.targets:
                    if isinstance(t, ast.Name):
                        out[t.id] = s
            elif isinstance(s, ast.AnnAssign) and isinstance(s.target, ast.Name):
                out[s.target.id] = s
        return out


def _resolve(trees) -> Tuple[Dict[Tuple[str, str], _Cls], Dict[str, Dict[str, _Cls]]]:
    classes: Dict[Tuple[str, str], _Cls] = {}
    by_mod: Dict[str, Dict[str, _Cls]] = {}
    for rel, tree in trees.items():
        for n in tree.body:
            if isinstance(n, ast.ClassDef):
                c = _Cls(rel, n)
                classes[(rel, n.name)] = c
                by_mod.setdefault(rel, {})[n.name] = c           # last definition wins, as at import time
    # names visible in each module: own classes + `from factorysimpy.x.y import Name [as Alias]`
    visible: Dict[str, Dict[str, _Cls]] = {}
    for rel, tree in trees.items():
        vis = dict(by_mod.get(rel, {}))
        for n in tree.body:
            if isinstance(n, ast.ImportFrom) and n.module:
                mod = n.module
                if n.level:
                    base = rel.rsplit('/', n.level)[0] if '/' in rel else ''
                    target = (base + '/' if base else '') + mod.replace('.', '/') + '.py'
                elif mod.startswith('factorysimpy.'):
                    target = mod[len('factorysimpy.'):].replace('.', '/') + '.py'
                else:
                    continue
                for a in n.names:
                    c = by_mod.get(target, {}).get(a.name)
                    if c is not None:
                        vis[a.asname or a.name] = c
        visible[rel] = vis
    for c in classes.values():
        for b in c.node.bases:
            t = visible[c.rel].get(b.id) if isinstance(b, ast.Name) else None
            if t is None and isinstance(b, ast.Attribute):
                t = None
            c.bases.append(t)
            if t is not None:
                t.subs.append(c)
    return classes, visible


def _c3(c: _Cls) -> Optional[List[_Cls]]:
    """C3 linearisation restricted to the package's classes (external bases are leaves that come last anyway)"""
    def merge(seqs):
        res = []
        seqs = [list(s) for s in seqs if s]
        while seqs:
            for s in seqs:
                h = s[0]
                if not any(h in t[1:] for t in seqs):
                    break
            else:
                return None
            res.append(h)
            seqs = [[x for x in s if x is not h] for s in seqs]
            seqs = [s for s in seqs if s]
        return res
    ints = [b for b in c.bases if b is not None]
    parts = []
    for b in ints:
        l = _c3(b)
        if l is None:
            return None
        parts.append(l)
    m = merge(parts + [ints])
    return None if m is None else [c] + m


class _Rewrite(ast.NodeTransformer):
    """inside one copied / own method of class C: `super().m(...)` -> `self.<alias>(...)` where an alias exists; `<HelperBase>.x` -> `self.x`"""

    def __init__(self, super_alias: Dict[str, str], helper_names: Set[str], renames: Dict[str, str], has_self: bool):
        self.super_alias, self.helper_names, self.renames, self.has_self = super_alias, helper_names, renames, has_self

    def visit_FunctionDef(self, node):          # nested functions: same `self` (closures), keep rewriting
        self.generic_visit(node)
        return node

    def visit_Attribute(self, node):
        self.generic_visit(node)
        v = node.value
        if isinstance(v, ast.Call) and isinstance(v.func, ast.Name) and v.func.id == 'super' and not v.args and node.attr in self.super_alias and self.has_self:
            return ast.copy_location(ast.Attribute(value=ast.copy_location(ast.Name(id='self', ctx=ast.Load()), node), attr=self.super_alias[node.attr], ctx=node.ctx), node)
        if isinstance(v, ast.Name) and v.id in self.helper_names and self.has_self:
            return ast.copy_location(ast.Attribute(value=ast.copy_location(ast.Name(id='self', ctx=ast.Load()), node), attr=self.renames.get(node.attr, node.attr), ctx=node.ctx), node)
        if isinstance(v, ast.Name) and v.id == 'self' and node.attr in self.renames:
            node.attr = self.renames[node.attr]
        return node


def _calls_super(fn: ast.FunctionDef) -> Set[str]:
    out = set()
    for n in ast.walk(fn):
        if isinstance(n, ast.Attribute) and isinstance(n.value, ast.Call) and isinstance(n.value.func, ast.Name) and n.value.func.id == 'super' and not n.value.args:
            out.add(n.attr)
    return out


def flatten(trees: Dict[str, ast.Module], vocab=frozenset(), log: Optional[List[str]] = None) -> Dict[str, int]:
    stats = {'classes_flattened': 0, 'methods_copied': 0, 'helper_bases_removed': 0, 'hooks_renamed': 0}
    log = log if log is not None else []
    classes, visible = _resolve(trees)
    helpers = [c for c in classes.values() if c.subs and c.name not in LIBRARY_CLASSES and c.name not in vocab]
    if not helpers:
        new_dups = {m for c in classes.values() for m in c.methods() if _is_private(m) and m not in LIBRARY_PRIVATE_METHODS}
        stats['hooks_renamed'] = _rename_hooks_apart(trees, vocab, log, new_dups)
        return stats
    # side condition: a helper base is used only as a base class (and in imports)
    hnames = {h.name for h in helpers}
    used_otherwise: Set[str] = set()
    for rel, tree in trees.items():
        base_nodes = {id(b) for n in ast.walk(tree) if isinstance(n, ast.ClassDef) for b in n.bases}
        for n in ast.walk(tree):
            if isinstance(n, ast.Name) and n.id in hnames and id(n) not in base_nodes:
                # `Helper.x(...)` inside the hierarchy is rewritten to self.x; anything else (isinstance, instantiation, value) blocks the step
                used_otherwise.add(n.id) if not _is_class_attr_use(tree, n) else None
    helpers = [h for h in helpers if h.name not in used_otherwise]
    hset = set(id(h) for h in helpers)
    if not helpers:
        return stats

    def is_helper(c):
        return c is not None and id(c) in hset

    def reach(c, acc):
        """helper bases reachable from c through helper classes only (a library class in between absorbs them itself)"""
        for b in c.bases:
            if is_helper(b) and b not in acc:
                acc.append(b)
                reach(b, acc)
        return acc

    targets = [c for c in classes.values() if not is_helper(c) and reach(c, [])]
    done_ok = True
    for c in sorted(targets, key=lambda c: (c.rel, c.name)):
        lin = _c3(c)
        if lin is None:
            done_ok = False
            continue
        # every internal class between c and the last helper is merged; library classes behind them stay as bases
        mine = reach(c, [])
        chain = [x for x in lin[1:] if is_helper(x) and x in mine]
        own = c.methods()
        # definers per method name, in lookup order
        definers: Dict[str, List[Tuple[_Cls, ast.FunctionDef]]] = {}
        for x in [c] + chain:
            for name, fn in x.methods().items():
                definers.setdefault(name, []).append((x, fn))
        new_members: List[ast.stmt] = []
        # class attributes
        have_attrs = set(c.attrs())
        for x in chain:
            for an, st in x.attrs().items():
                if an not in have_attrs and an not in own:
                    have_attrs.add(an)
                    new_members.append(copy.deepcopy(st))
        helper_names = {x.name for x in chain}
        rewritten: List[Tuple[ast.FunctionDef, Dict[str, str]]] = []
        for name, defs in definers.items():
            # which versions are reachable: the first one, and each next one while the previous calls super().<name>
            versions = [defs[0]]
            k = 0
            while k + 1 < len(defs) and name in _calls_super(versions[-1][1]):
                versions.append(defs[k + 1])
                k += 1
            aliases = {}
            for i, (x, fn) in enumerate(versions):
                nm = name if i == 0 else f'_{name.strip("_")}__{x.name}__{c.name}'
                aliases[i] = nm
            for i, (x, fn) in enumerate(versions):
                if x is c and i == 0:
                    tgt = fn                      # C's own method, rewritten in place
                else:
                    tgt = copy.deepcopy(fn)
                    tgt.name = aliases[i]
                    tgt.origin_rel = x.rel
                    tgt.origin_cls = x.name
                    if i > 0:
                        tgt.decorator_list = [d for d in tgt.decorator_list]
                    new_members.append(tgt)
                    stats['methods_copied'] += 1
                sup = {}
                if i + 1 < len(versions):
                    sup[name] = aliases[i + 1]
                rewritten.append((tgt, sup))
        # super() calls to *other* method names: resolve to the version that lookup after the defining class would find
        for tgt, sup in rewritten:
            origin = getattr(tgt, 'origin_cls', c.name)
            order = [x.name for x in [c] + chain]
            pos = order.index(origin) if origin in order else 0
            for other in _calls_super(tgt) - set(sup):
                after = [(x, fn) for (x, fn) in definers.get(other, []) if order.index(x.name) > pos]
                if after:
                    x, fn = after[0]
                    alias = f'_{other.strip("_")}__{x.name}__{c.name}'
                    if not any(isinstance(m, ast.FunctionDef) and m.name == alias for m in new_members):
                        cp = copy.deepcopy(fn)
                        cp.name = alias
                        cp.origin_rel, cp.origin_cls = x.rel, x.name
                        new_members.append(cp)
                        rewritten.append((cp, {}))
                        stats['methods_copied'] += 1
                    sup[other] = alias
        for tgt, sup in rewritten:
            has_self = bool(tgt.args.args) and tgt.args.args[0].arg == 'self'
            _Rewrite(sup, helper_names, {}, has_self).visit(tgt)
        c.node.body.extend(new_members)
        _merge_constructors(c.node, log)
        # bases: helper bases are replaced by their own (non-helper) bases, in order, without duplicates
        new_bases: List[ast.expr] = []
        seen_txt = set()

        def add_bases(cls: _Cls):
            for bnode, b in zip(cls.node.bases, cls.bases):
                if is_helper(b):
                    add_bases(b)
                else:
                    t = ast.unparse(bnode)
                    if t not in seen_txt:
                        seen_txt.add(t)
                        nb = copy.deepcopy(bnode)
                        new_bases.append(nb)
                        # make the name visible in c's module if it came from the helper's module
                        if cls is not c and isinstance(bnode, ast.Name) and bnode.id not in _module_names(trees[c.rel]):
                            imp = _find_import(trees[cls.rel], bnode.id)
                            if imp is not None:
                                body = trees[c.rel].body
                                at = 0
                                while at < len(body) and ((isinstance(body[at], ast.Expr) and isinstance(body[at].value, ast.Constant)) or
                                                          (isinstance(body[at], ast.ImportFrom) and body[at].module == '__future__')):
                                    at += 1
                                body.insert(at, copy.deepcopy(imp))
        add_bases(c)
        c.node.bases = new_bases
        stats['classes_flattened'] += 1
        log.append(f'N0: {c.rel}::{c.name} <- {", ".join(x.name for x in chain)}')
    if not done_ok:
        return stats
    # remove the helper bases (and their names from import statements)
    for h in helpers:
        mod = trees[h.rel]
        if h.node in mod.body:
            mod.body.remove(h.node)
            stats['helper_bases_removed'] += 1
    gone = {h.name for h in helpers}
    for rel, tree in trees.items():
        for n in list(tree.body):
            if isinstance(n, ast.ImportFrom):
                n.names = [a for a in n.names if a.name not in gone]
                if not n.names:
                    tree.body.remove(n)
    hook_names = {m for h in helpers for m in h.methods()} | {m for c in classes.values() for m in c.methods() if _is_private(m) and m not in LIBRARY_PRIVATE_METHODS}
    stats['hooks_renamed'] = _rename_hooks_apart(trees, vocab, log, hook_names)
    return stats


def _merge_constructors(cls: ast.ClassDef, log):
    """`__init__` of C calling the copied constructor of a flattened base (`self._init__B__C(args)`, the former `super().__init__(args)`) as a plain
    statement: the base constructor's body replaces the call (parameters bound by name; skipped when a binding would capture a local of C.__init__).
    The attribute tables of every rule look for initial values in `__init__`."""
    for _ in range(4):
        meths = {f.name: f for f in cls.body if isinstance(f, ast.FunctionDef)}
        init = meths.get('__init__')
        if init is None:
            return
        done = False
        for k, st in enumerate(init.body):
            if not (isinstance(st, ast.Expr) and isinstance(st.value, ast.Call)):
                continue
            call = st.value
            f = call.func
            if not (isinstance(f, ast.Attribute) and isinstance(f.value, ast.Name) and f.value.id == 'self' and f.attr.startswith('_init__') and f.attr in meths):
                continue
            base = meths[f.attr]
            if any(isinstance(n, (ast.Return, ast.Yield, ast.YieldFrom)) for n in ast.walk(base)):
                continue
            if base.args.vararg or base.args.kwarg or base.args.kwonlyargs or any(isinstance(a, ast.Starred) for a in call.args) or any(kw.arg is None for kw in call.keywords):
                continue
            params = [a.arg for a in base.args.args][1:]
            defaults = dict(zip(params[len(params) - len(base.args.defaults):], base.args.defaults)) if base.args.defaults else {}
            bound = {}
            for pn, a in zip(params, call.args):
                bound[pn] = a
            for kw in call.keywords:
                bound[kw.arg] = kw.value
            for pn in params:
                if pn not in bound and pn in defaults:
                    bound[pn] = defaults[pn]
            if set(bound) != set(params) or len(call.args) > len(params):
                continue
            own_names = {n.id for n in ast.walk(init) if isinstance(n, ast.Name)} | {a.arg for a in init.args.args}
            pre = []
            ok = True
            for pn in params:
                e = bound[pn]
                if isinstance(e, ast.Name) and e.id == pn:
                    continue
                if pn in own_names:
                    ok = False
                    break
                pre.append(ast.copy_location(ast.Assign(targets=[ast.Name(id=pn, ctx=ast.Store())], value=copy.deepcopy(e), lineno=st.lineno), st))
            # locals of the base constructor must not collide with names C.__init__ uses after the call
            base_locals = {n.id for n in ast.walk(base) if isinstance(n, ast.Name) and isinstance(n.ctx, ast.Store)} - set(params)
            later = {n.id for s2 in init.body[k + 1:] for n in ast.walk(s2) if isinstance(n, ast.Name)}
            if not ok or (base_locals & later & own_names):
                continue
            body = [b for b in copy.deepcopy(base.body) if not (isinstance(b, ast.Expr) and isinstance(b.value, ast.Constant))]
            init.body[k:k + 1] = pre + (body or [ast.copy_location(ast.Pass(), st)])
            # drop the copy when nothing else refers to it
            if not any(isinstance(n, ast.Attribute) and n.attr == base.name for n in ast.walk(cls) if n is not base):
                cls.body.remove(base)
            log.append(f'N0: constructor of {base.name} merged into {cls.name}.__init__')
            done = True
            break
        if not done:
            return


def _is_class_attr_use(tree, name_node) -> bool:
    """`Helper.attr` (attribute access through the class name) - rewritten to self.attr when the method is copied"""
    for n in ast.walk(tree):
        if isinstance(n, ast.Attribute) and n.value is name_node:
            return True
    return False


def _module_names(tree) -> Set[str]:
    out = set()
    for n in tree.body:
        if isinstance(n, (ast.Import, ast.ImportFrom)):
            for a in n.names:
                out.add((a.asname or a.name).split('.')[0])
        elif isinstance(n, (ast.ClassDef, ast.FunctionDef)):
            out.add(n.name)
        elif isinstance(n, ast.Assign):
            for t in n.targets:
                if isinstance(t, ast.Name):
                    out.add(t.id)
    return out


def _find_import(tree, name) -> Optional[ast.stmt]:
    for n in tree.body:
        if isinstance(n, ast.ImportFrom):
            for a in n.names:
                if (a.asname or a.name) == name:
                    return ast.ImportFrom(module=n.module, names=[ast.alias(name=a.name, asname=a.asname)], level=n.level)
        elif isinstance(n, ast.Import):
            for a in n.names:
                if (a.asname or a.name).split('.')[0] == name:
                    return ast.Import(names=[ast.alias(name=a.name, asname=a.asname)])
    return None


def _rename_hooks_apart(trees, vocab, log, hook_names) -> int:
    """private, non-anchor method names defined by several classes: rename per class where dispatch is static"""
    classes, _ = _resolve(trees)
    defs: Dict[str, List[_Cls]] = {}
    for c in classes.values():
        for name in c.methods():
            defs.setdefault(name, []).append(c)
    n_ren = 0
    for name, cs in sorted(defs.items()):
        if len(cs) < 2 or not _is_private(name) or name in vocab or name not in hook_names:
            continue
        # every use in the package is `self.<name>` inside a class, never through another receiver, getattr or a string
        ok = True
        for rel, tree in trees.items():
            for n in ast.walk(tree):
                if isinstance(n, ast.Attribute) and n.attr == name and not (isinstance(n.value, ast.Name) and n.value.id == 'self'):
                    ok = False
                elif isinstance(n, ast.Constant) and n.value == name:
                    ok = False
        if not ok:
            continue
        for c in cs:
            # static dispatch: no other class of c's package-internal hierarchy (ancestors or descendants) defines the name
            lin = _c3(c) or [c]

            def descendants(x, acc):
                for s in x.subs:
                    if s not in acc:
                        acc.append(s)
                        descendants(s, acc)
                return acc
            family = [x for x in lin[1:] if x is not None] + descendants(c, [])
            if any(name in x.methods() for x in family):
                continue
            # descendants that *use* the name would need the renamed one: only rename when no descendant refers to it
            if any(isinstance(n, ast.Attribute) and n.attr == name for d in descendants(c, []) for n in ast.walk(d.node)):
                continue
            new = f'{name}__{c.name}' if sum(1 for x in cs if x.name == c.name) == 1 else f'{name}__{c.name}_' + c.rel.replace('/', '_').replace('.py', '')
            if any(new in x.methods() for x in classes.values()):
                continue
            for n in ast.walk(c.node):
                if isinstance(n, ast.Attribute) and n.attr == name and isinstance(n.value, ast.Name) and n.value.id == 'self':
                    n.attr = new
            c.methods()[name].name = new
            n_ren += 1
            log.append(f'N0: hook {c.name}.{name} -> {new}')
    return n_ren


# ------------------------------------------------------------------------------------------------ record types (NamedTuple)
def records_to_tuples(trees: Dict[str, ast.Module], log: Optional[List[str]] = None) -> int:
    """A `typing.NamedTuple` class of the package that merely names the fields of a tuple the library used to build by hand (`_Entry(item, delay)` for
    `(item, delay)`): constructor calls become tuple displays, `x.field` becomes `x[i]` (receiver other than `self`: `self.delay` is the edge's own
    attribute), a classmethod that only coerces (`return pair` / `return cls(*pair)`) becomes its argument.  A NamedTuple *is* a tuple - indexing,
    unpacking, equality and hashing are unchanged - so the rewritten program is the one the rules know."""
    log = log if log is not None else []
    recs: Dict[str, List[str]] = {}
    coerce: Dict[Tuple[str, str], bool] = {}
    for rel, tree in trees.items():
        for n in tree.body:
            if isinstance(n, ast.ClassDef) and any((isinstance(b, ast.Name) and b.id == 'NamedTuple') or (isinstance(b, ast.Attribute) and b.attr == 'NamedTuple') for b in n.bases):
                fields = [st.target.id for st in n.body if isinstance(st, ast.AnnAssign) and isinstance(st.target, ast.Name)]
                if not fields:
                    continue
                recs[n.name] = fields
                for f in n.body:
                    if isinstance(f, ast.FunctionDef) and any(isinstance(d, ast.Name) and d.id == 'classmethod' for d in f.decorator_list) and len(f.args.args) == 2:
                        par = f.args.args[1].arg
                        rets = [x for x in ast.walk(f) if isinstance(x, ast.Return)]
                        ok = bool(rets)
                        for r_ in rets:
                            v = r_.value
                            same = isinstance(v, ast.Name) and v.id == par
                            built = isinstance(v, ast.Call) and isinstance(v.func, ast.Name) and v.func.id == 'cls' and (
                                (len(v.args) == 1 and isinstance(v.args[0], ast.Starred) and isinstance(v.args[0].value, ast.Name) and v.args[0].value.id == par) or
                                (len(v.args) == len(fields) and all(isinstance(a, ast.Subscript) and isinstance(a.value, ast.Name) and a.value.id == par for a in v.args)))
                            ok = ok and (same or built)
                        coerce[(n.name, f.name)] = ok
    if not recs:
        return 0
    field_index: Dict[str, int] = {}
    ambiguous = set()
    for cname, fields in recs.items():
        for i, f in enumerate(fields):
            if f in field_index and field_index[f] != i:
                ambiguous.add(f)
            field_index[f] = i
    count = [0]

    class T(ast.NodeTransformer):
        def visit_Call(self, node):
            self.generic_visit(node)
            f = node.func
            if isinstance(f, ast.Name) and f.id in recs and not any(isinstance(a, ast.Starred) for a in node.args) and all(k.arg for k in node.keywords):
                fields = recs[f.id]
                vals = list(node.args) + [None] * (len(fields) - len(node.args))
                for k in node.keywords:
                    if k.arg in fields:
                        vals[fields.index(k.arg)] = k.value
                if len(vals) == len(fields) and all(v is not None for v in vals):
                    count[0] += 1
                    return ast.copy_location(ast.Tuple(elts=vals, ctx=ast.Load()), node)
            if isinstance(f, ast.Attribute) and isinstance(f.value, ast.Name) and coerce.get((f.value.id, f.attr)) and len(node.args) == 1 and not node.keywords:
                count[0] += 1
                return node.args[0]
            return node

        def visit_Attribute(self, node):
            self.generic_visit(node)
            if isinstance(node.ctx, ast.Load) and node.attr in field_index and node.attr not in ambiguous \
                    and not (isinstance(node.value, ast.Name) and node.value.id in ('self', 'cls')):
                count[0] += 1
                return ast.copy_location(ast.Subscript(value=node.value, slice=ast.Constant(value=field_index[node.attr]), ctx=ast.Load()), node)
            return node
    for rel, tree in trees.items():
        new_body = []
        for n in tree.body:
            if isinstance(n, ast.ClassDef) and n.name in recs:
                new_body.append(n)          # the record class itself stays (nothing refers to it any more)
                continue
            new_body.append(T().visit(n))
        tree.body = new_body
    if count[0]:
        log.append(f'N0r: {count[0]} uses of record types {sorted(recs)} rewritten to plain tuples')
    return count[0]
