"""Linear length arithmetic: normal forms of `Σ a_i·len(self.L_i) + b·cap + c`, comparison atoms,
and implication between conjunctions of atoms by Fourier–Motzkin elimination (integers, tightened).

Variables are strings: 'items', 'ready_items', ... for len(self.<list>), 'cap' for self.capacity.
No solver is involved; the only arithmetic is on small integer coefficient vectors.
"""
from __future__ import annotations

import ast
from fractions import Fraction
from typing import Dict, Iterable, List, Optional, Tuple

from .model import self_attr

Lin = Dict[str, int]          # var -> coeff ; '1' -> constant


class NonLinear(Exception):
    pass


def ladd(a: Lin, b: Lin, k: int = 1) -> Lin:
    out = dict(a)
    for v, c in b.items():
        out[v] = out.get(v, 0) + k * c
    return {v: c for v, c in out.items() if c != 0}


def lconst(c) -> Lin:
    return {'1': c} if c else {}


def lvar(v) -> Lin:
    return {v: 1}


def lneg(a: Lin) -> Lin:
    return {v: -c for v, c in a.items()}


def norm(a: Lin) -> Tuple:
    return tuple(sorted((v, c) for v, c in a.items() if c))


def show(a: Lin) -> str:
    if not a:
        return '0'
    parts = []
    for v, c in sorted(a.items(), key=lambda x: (x[0] == '1', x[0])):
        name = '' if v == '1' else ('cap' if v == 'cap' else f'|{v}|')
        if v == '1':
            parts.append(f'{c:+d}')
        elif c == 1:
            parts.append(f'+{name}')
        elif c == -1:
            parts.append(f'-{name}')
        else:
            parts.append(f'{c:+d}·{name}')
    s = ' '.join(parts)
    return s[1:] if s.startswith('+') else s


def linexpr(node: ast.AST, env: Optional[Dict[str, Lin]] = None, recv: str = 'self',
            delta: Optional[Dict[str, int]] = None, cap_names=('capacity',), lenvar=None) -> Lin:
    """Linear form of an expression over len(<recv>.L) and <recv>.capacity.
    `recv` may be a dotted receiver such as 'self.inbuiltstore'.  `env` maps local names to Lin.
    `delta` (optional) is added per list so the result is expressed in entry lengths.
    `lenvar(attr)` (optional) overrides how len(<recv>.attr) is expressed (generations + deltas)."""
    env = env or {}
    if isinstance(node, ast.Constant) and isinstance(node.value, (int,)) and not isinstance(node.value, bool):
        return lconst(node.value)
    if isinstance(node, ast.Name):
        if node.id in env:
            return dict(env[node.id])
        raise NonLinear(node.id)
    if isinstance(node, ast.Attribute):
        txt = ast.unparse(node)
        for cn in cap_names:
            if txt == f'{recv}.{cn}' or txt == f'self.{cn}':
                return lvar('cap')
        raise NonLinear(txt)
    if isinstance(node, ast.Call) and isinstance(node.func, ast.Name) and node.func.id == 'len' and len(node.args) == 1:
        a = node.args[0]
        if isinstance(a, ast.Attribute) and ast.unparse(a.value) == recv:
            if lenvar is not None:
                got = lenvar(a.attr)
                if got is None:
                    raise NonLinear(ast.unparse(node))
                return dict(got)
            out = lvar(a.attr)
            if delta and delta.get(a.attr):
                out = ladd(out, lconst(delta[a.attr]))
            return out
        if isinstance(a, ast.Name) and ('len:' + a.id) in env:
            return dict(env['len:' + a.id])
        raise NonLinear(ast.unparse(node))
    if isinstance(node, ast.BinOp) and isinstance(node.op, (ast.Add, ast.Sub)):
        l = linexpr(node.left, env, recv, delta, cap_names, lenvar)
        r = linexpr(node.right, env, recv, delta, cap_names, lenvar)
        return ladd(l, r, 1 if isinstance(node.op, ast.Add) else -1)
    if isinstance(node, ast.BinOp) and isinstance(node.op, ast.Mult):
        for a, b in ((node.left, node.right), (node.right, node.left)):
            if isinstance(a, ast.Constant) and isinstance(a.value, int):
                inner = linexpr(b, env, recv, delta, cap_names, lenvar)
                return {v: c * a.value for v, c in inner.items() if c * a.value}
        raise NonLinear(ast.unparse(node))
    if isinstance(node, ast.UnaryOp) and isinstance(node.op, ast.USub):
        return lneg(linexpr(node.operand, env, recv, delta, cap_names, lenvar))
    raise NonLinear(ast.unparse(node))


ALL = '*all-variables-nonnegative*'
Atom = Tuple[str, Tuple]   # (op, norm(lin))  meaning lin op 0, op in '<', '<=', '==', '!='


def atom_from_compare(test: ast.AST, polarity: bool = True, env=None, recv='self', delta=None, lenvar=None) -> List[Atom]:
    """Normalise `a OP b` (single comparison), or a truthiness test of a tracked list, to atoms `e OP' 0`.
    Returns a list (conjunction).  Raises NonLinear when the test is not a linear comparison."""
    if isinstance(test, ast.UnaryOp) and isinstance(test.op, ast.Not):
        return atom_from_compare(test.operand, not polarity, env, recv, delta, lenvar)
    if isinstance(test, ast.Attribute) and ast.unparse(test.value) == recv:
        # truthiness of a list: non-empty
        if lenvar is not None:
            e = lenvar(test.attr)
            if e is None:
                raise NonLinear(ast.unparse(test))
            e = dict(e)
        else:
            e = lvar(test.attr)
            if delta and delta.get(test.attr):
                e = ladd(e, lconst(delta[test.attr]))
        return [('<', norm(lneg(e)))] if polarity else [('==', norm(e))]
    if not (isinstance(test, ast.Compare) and len(test.ops) == 1):
        raise NonLinear(ast.unparse(test))
    a = linexpr(test.left, env, recv, delta, lenvar=lenvar)
    b = linexpr(test.comparators[0], env, recv, delta, lenvar=lenvar)
    d = ladd(a, b, -1)      # a - b  OP 0
    op = type(test.ops[0]).__name__
    table = {'Lt': '<', 'LtE': '<=', 'Gt': '>', 'GtE': '>=', 'Eq': '==', 'NotEq': '!='}
    if op not in table:
        raise NonLinear(op)
    o = table[op]
    if not polarity:
        o = {'<': '>=', '<=': '>', '>': '<=', '>=': '<', '==': '!=', '!=': '=='}[o]
    if o in ('>', '>='):
        d = lneg(d)
        o = {'>': '<', '>=': '<='}[o]
    return [(o, norm(d))]


def atom_show(at: Atom) -> str:
    return f'{show(dict(at[1]))} {at[0]} 0'


# ------------------------------------------------------------------ Fourier–Motzkin (≤ form over integers)
def _to_le(atoms: Iterable[Atom]) -> Optional[List[Lin]]:
    """atoms -> list of `e <= 0` (integer tightening for '<'); '!=' premises are dropped (weaker)."""
    out = []
    for op, n in atoms:
        e = dict(n)
        if op == '<':
            out.append(ladd(e, lconst(1)))
        elif op == '<=':
            out.append(e)
        elif op == '==':
            out.append(e)
            out.append(lneg(e))
        elif op == '!=':
            continue
    return out


def _unsat(cons: List[Lin], nonneg: Iterable[str]) -> bool:
    """Is the system {e <= 0} ∪ {v >= 0} infeasible over the rationals? (sound for integers)."""
    cons = [dict(c) for c in cons]
    vars_ = set()
    for c in cons:
        vars_ |= {v for v in c if v != '1'}
    for v in (vars_ if nonneg is ALL else nonneg):
        if v in vars_:
            cons.append({v: -1})
    cons = [{k: Fraction(x) for k, x in c.items()} for c in cons]
    for v in sorted(vars_):
        pos = [c for c in cons if c.get(v, 0) > 0]
        neg = [c for c in cons if c.get(v, 0) < 0]
        rest = [c for c in cons if c.get(v, 0) == 0]
        for a in pos:
            for b in neg:
                ka, kb = a[v], -b[v]
                new = {}
                for k in set(a) | set(b):
                    if k == v:
                        continue
                    val = a.get(k, 0) * kb + b.get(k, 0) * ka
                    if val != 0:
                        new[k] = val
                rest.append(new)
        cons = rest
        if len(cons) > 4000:
            return False
    for c in cons:
        if all(k == '1' for k in c) and c.get('1', 0) > 0:
            return True
    return False


def implies(premises: Iterable[Atom], concl: Atom, nonneg=ALL) -> bool:
    """premises (conjunction) ∧ v>=0  ⇒  concl, over the integers (sound, may be incomplete)."""
    premises = list(premises)
    nn = ALL if nonneg is ALL else set(nonneg)
    op, n = concl
    e = dict(n)
    base = _to_le(premises)

    def refutes(negated: Lin) -> bool:
        return _unsat(base + [negated], nn)
    if op == '<':      # ¬(e<0) = -e <= 0
        return refutes(lneg(e))
    if op == '<=':     # ¬(e<=0) = e>0 = -e+1<=0
        return refutes(ladd(lneg(e), lconst(1)))
    if op == '==':
        return refutes(ladd(lneg(e), lconst(1))) and refutes(ladd(e, lconst(1)))
    if op == '!=':     # e!=0: need e<0 or e>0; provable only if one side is
        return refutes(lneg(e)) or refutes(e)
    raise ValueError(op)


def implies_all(premises, concls, nonneg=ALL) -> bool:
    return all(implies(premises, c, nonneg) for c in concls)


def equivalent(a: Iterable[Atom], b: Iterable[Atom], nonneg=ALL, inv: Iterable[Atom] = ()) -> bool:
    a, b, inv = list(a), list(b), list(inv)
    return implies_all(a + inv, b, nonneg) and implies_all(b + inv, a, nonneg)


def unsat(atoms: Iterable[Atom], nonneg=ALL) -> bool:
    """The conjunction of atoms has no integer solution with the given variables non-negative (sound)."""
    atoms = list(atoms)
    nn = ALL if nonneg is ALL else set(nonneg)
    if _unsat(_to_le(atoms), nn):
        return True
    # a disequality e != 0 contradicts the rest when the rest forces e == 0
    for i, (op, n) in enumerate(atoms):
        if op == '!=':
            rest = atoms[:i] + atoms[i + 1:]
            if implies([a for a in rest if a[0] != '!='], ('==', n), nn):
                return True
    return False
