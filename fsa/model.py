"""Project model: modules, classes, methods, MRO, attribute tables, receiver typing, call graph.

The repository is ~26 classes, several of which share a name (three ``BeltStore``, two
``ConveyorBelt``), so everything is keyed by ``(module-relative-path, class-name)``.
"""
from __future__ import annotations

import ast
import os
import pathlib
from dataclasses import dataclass, field
from typing import Dict, List, Optional, Tuple

PKG = 'src/factorysimpy'


class AnalysisError(Exception):
    """The analysis cannot be carried out (exit status 2). Never a silent pass."""


ClassKey = Tuple[str, str]


@dataclass
class FuncInfo:
    module: str
    cls: Optional[str]
    name: str
    node: ast.FunctionDef

    @property
    def key(self) -> str:
        return f'{self.module}::{self.cls + "." if self.cls else ""}{self.name}'

    @property
    def qual(self) -> str:
        return f'{self.cls + "." if self.cls else ""}{self.name}'

    @property
    def is_generator(self) -> bool:
        for n in walk_no_nested(self.node):
            if isinstance(n, (ast.Yield, ast.YieldFrom)):
                return True
        return False


@dataclass
class ClassInfo:
    module: str
    name: str
    node: ast.ClassDef
    bases: list  # ClassKey | ('ext', dotted)
    methods: Dict[str, FuncInfo] = field(default_factory=dict)
    class_attrs: Dict[str, ast.AST] = field(default_factory=dict)

    @property
    def key(self) -> ClassKey:
        return (self.module, self.name)

    @property
    def label(self) -> str:
        return f'{self.module}::{self.name}'


@dataclass
class ModuleInfo:
    rel: str
    src: str
    tree: ast.Module
    imports: Dict[str, Tuple[str, str]] = field(default_factory=dict)   # local name -> (dotted module, name|'')
    functions: Dict[str, FuncInfo] = field(default_factory=dict)


def walk_no_nested(fn):
    """ast.walk over a function body without descending into nested defs / lambdas / classes."""
    stack = list(ast.iter_child_nodes(fn))
    while stack:
        n = stack.pop()
        yield n
        if isinstance(n, (ast.FunctionDef, ast.AsyncFunctionDef, ast.Lambda, ast.ClassDef)):
            continue
        stack.extend(ast.iter_child_nodes(n))


# Summary of the members the repository relies on from its external bases (simpy 4.1).
EXTERNAL_MEMBERS = {
    'simpy.resources.store.Store': {'items', 'capacity', '_env', 'put', 'get', 'put_queue', 'get_queue',
                                    '_do_put', '_do_get', '_trigger_put', '_trigger_get', 'PutQueue', 'GetQueue'},
    'simpy.resources.store.FilterStore': {'items', 'capacity', '_env', 'put', 'get', 'put_queue', 'get_queue',
                                          '_do_put', '_do_get', '_trigger_put', '_trigger_get', 'PutQueue', 'GetQueue'},
    'simpy.resources.base.Get': {'resource', 'proc', 'callbacks', 'succeed', 'triggered', 'cancel'},
    'simpy.resources.base.Put': {'resource', 'proc', 'callbacks', 'succeed', 'triggered', 'cancel'},
    'list': {'append', 'sort', 'pop', 'remove', 'insert', 'index'},
}


class Project:
    def __init__(self, repo: str = '/repo', overlay: Optional[Dict[str, str]] = None, normalise: bool = True):
        self.repo = pathlib.Path(repo)
        self.root = self.repo / PKG
        self.overlay = dict(overlay or {})
        self.modules: Dict[str, ModuleInfo] = {}
        self.classes: Dict[ClassKey, ClassInfo] = {}
        if not self.root.is_dir():
            raise AnalysisError(f'package directory {self.root} not found')
        rels = set()
        for p in sorted(self.root.rglob('*.py')):
            rels.add(str(p.relative_to(self.root)))
        rels |= set(self.overlay)
        for rel in sorted(rels):
            if rel in self.overlay:
                src = self.overlay[rel]
            else:
                src = (self.root / rel).read_text(encoding='utf-8')
            try:
                tree = ast.parse(src, filename=rel)
            except SyntaxError as e:
                raise AnalysisError(f'syntax error in {rel}: {e}')
            self.modules[rel] = ModuleInfo(rel, src, tree)
        self.normalisation = {}
        if normalise and not os.environ.get('FSA_NO_NORMALISE'):
            from .normalise import normalise as _norm
            nz = _norm({rel: m.tree for rel, m in self.modules.items()})
            self.normalisation = {'applied': dict(nz.stats), 'log': nz.log[:60]}
        for m in self.modules.values():
            self._index_module(m)
        self._mro_cache: Dict[ClassKey, List[ClassInfo]] = {}
        self._attr_cache = {}

    def raw(self) -> 'Project':
        """the same tree as written (no normalisation) - for rules about aliasing that constant propagation would hide"""
        if not self.normalisation:
            return self
        if getattr(self, '_raw', None) is None:
            self._raw = Project(str(self.repo), self.overlay, normalise=False)
        return self._raw

    # ------------------------------------------------------------------ indexing
    def _index_module(self, m: ModuleInfo):
        defined_so_far: Dict[str, ClassKey] = {}
        for n in m.tree.body:
            if isinstance(n, ast.Import):
                for a in n.names:
                    m.imports[a.asname or a.name.split('.')[0]] = (a.name, '')
            elif isinstance(n, ast.ImportFrom):
                for a in n.names:
                    m.imports[a.asname or a.name] = (n.module or '', a.name)
            elif isinstance(n, ast.FunctionDef):
                m.functions[n.name] = FuncInfo(m.rel, None, n.name, n)
            elif isinstance(n, ast.ClassDef):
                bases = []
                for b in n.bases:
                    bases.append(self._resolve_base(m, b, defined_so_far))
                ci = ClassInfo(m.rel, n.name, n, bases)
                for f in n.body:
                    if isinstance(f, ast.FunctionDef):
                        ci.methods[f.name] = FuncInfo(m.rel, n.name, f.name, f)   # last definition wins
                    elif isinstance(f, ast.Assign):
                        for t in f.targets:
                            if isinstance(t, ast.Name):
                                ci.class_attrs[t.id] = f.value
                self.classes[ci.key] = ci
                defined_so_far[n.name] = ci.key

    def _dotted_to_rel(self, dotted: str) -> Optional[str]:
        if dotted.startswith('factorysimpy.'):
            rel = dotted[len('factorysimpy.'):].replace('.', '/') + '.py'
            return rel
        return None

    def _resolve_base(self, m: ModuleInfo, b: ast.AST, defined_so_far):
        txt = ast.unparse(b)
        if isinstance(b, ast.Name):
            if b.id in defined_so_far:
                return defined_so_far[b.id]
            if b.id in m.imports:
                mod, name = m.imports[b.id]
                rel = self._dotted_to_rel(mod)
                if rel is not None:
                    return (rel, name)
                return ('ext', f'{mod}.{name}' if name else mod)
            return ('ext', b.id)
        if isinstance(b, ast.Attribute):
            root = b
            parts = []
            while isinstance(root, ast.Attribute):
                parts.append(root.attr)
                root = root.value
            if isinstance(root, ast.Name) and root.id in m.imports:
                mod, name = m.imports[root.id]
                return ('ext', '.'.join([mod] + ([name] if name else []) + list(reversed(parts))))
        return ('ext', txt)

    # ------------------------------------------------------------------ queries
    def cls(self, module: str, name: str) -> ClassInfo:
        try:
            return self.classes[(module, name)]
        except KeyError:
            raise AnalysisError(f'anchor vanished: class {module}::{name}')

    def mro(self, key: ClassKey) -> List[ClassInfo]:
        if key in self._mro_cache:
            return self._mro_cache[key]
        out = []
        seen = set()
        cur = [key]
        while cur:
            k = cur.pop(0)
            if k in seen or k not in self.classes:
                continue
            seen.add(k)
            ci = self.classes[k]
            out.append(ci)
            for b in ci.bases:
                if b and b[0] != 'ext':
                    cur.append(b)
        self._mro_cache[key] = out
        return out

    def external_bases(self, key: ClassKey) -> List[str]:
        out = []
        for ci in self.mro(key):
            for b in ci.bases:
                if b and b[0] == 'ext':
                    out.append(b[1])
        return out

    def methods(self, key: ClassKey) -> Dict[str, FuncInfo]:
        out: Dict[str, FuncInfo] = {}
        for ci in reversed(self.mro(key)):
            out.update(ci.methods)
        return out

    def method(self, key: ClassKey, name: str) -> Optional[FuncInfo]:
        for ci in self.mro(key):
            if name in ci.methods:
                return ci.methods[name]
        return None

    def super_method(self, owner: ClassKey, name: str) -> Optional[FuncInfo]:
        """Method `name` as seen by super() inside class `owner`."""
        mro = self.mro(owner)
        for ci in mro[1:]:
            if name in ci.methods:
                return ci.methods[name]
        return None

    def subclasses(self, key: ClassKey) -> List[ClassInfo]:
        return [ci for ci in self.classes.values() if ci.key != key and key in [c.key for c in self.mro(ci.key)]]

    def resolve_class_name(self, module: str, name: str, before_line: Optional[int] = None) -> Optional[ClassKey]:
        """Resolve a bare class name used inside `module` (constructor call) to a class key."""
        m = self.modules[module]
        cands = [ci for ci in self.classes.values() if ci.module == module and ci.name == name]
        if cands:
            return cands[-1].key
        if name in m.imports:
            mod, nm = m.imports[name]
            rel = self._dotted_to_rel(mod)
            if rel and (rel, nm) in self.classes:
                return (rel, nm)
        return None

    # attribute table ------------------------------------------------------------
    def self_attr_sites(self, key: ClassKey):
        """attr -> list of (FuncInfo, ast value expr or None, lineno) for every `self.X = ...`
        (also AugAssign / AnnAssign / tuple targets) in the class hierarchy."""
        if key in self._attr_cache:
            return self._attr_cache[key]
        table: Dict[str, list] = {}
        for ci in self.mro(key):
            for fi in ci.methods.values():
                for n in walk_no_nested(fi.node):
                    targets = []
                    val = None
                    if isinstance(n, ast.Assign):
                        targets = n.targets
                        val = n.value
                    elif isinstance(n, (ast.AugAssign, ast.AnnAssign)):
                        targets = [n.target]
                        val = n.value
                    for t in targets:
                        for tt in (t.elts if isinstance(t, (ast.Tuple, ast.List)) else [t]):
                            if isinstance(tt, ast.Attribute) and isinstance(tt.value, ast.Name) and tt.value.id == 'self':
                                table.setdefault(tt.attr, []).append((fi, val, n.lineno))
        self._attr_cache[key] = table
        return table

    def attr_class(self, key: ClassKey, attr: str) -> List[ClassKey]:
        """Classes constructed into self.<attr> anywhere in the hierarchy of `key`."""
        out = []
        for fi, val, _ in self.self_attr_sites(key).get(attr, []):
            if isinstance(val, ast.Call) and isinstance(val.func, ast.Name):
                k = self.resolve_class_name(fi.module, val.func.id)
                if k and k not in out:
                    out.append(k)
        return out

    def has_member(self, key: ClassKey, attr: str) -> bool:
        """attr is assigned on self somewhere in the hierarchy, is a method / class attribute, or a
        summarised member of an external base."""
        if attr in self.self_attr_sites(key):
            return True
        for ci in self.mro(key):
            if attr in ci.methods or attr in ci.class_attrs:
                return True
        for ext in self.external_bases(key):
            if attr in EXTERNAL_MEMBERS.get(ext, ()):  # summarised external
                return True
        return False

    def all_functions(self) -> List[FuncInfo]:
        out = []
        for m in self.modules.values():
            out.extend(m.functions.values())
        for ci in self.classes.values():
            out.extend(ci.methods.values())
        return out

    def digest(self) -> str:
        import hashlib
        h = hashlib.sha256()
        for rel in sorted(self.modules):
            h.update(rel.encode())
            h.update(self.modules[rel].src.encode())
        return h.hexdigest()[:16]


def self_attr(node) -> Optional[str]:
    """'X' if node is `self.X`."""
    if isinstance(node, ast.Attribute) and isinstance(node.value, ast.Name) and node.value.id == 'self':
        return node.attr
    return None


def dotted(node) -> Optional[str]:
    parts = []
    while isinstance(node, ast.Attribute):
        parts.append(node.attr)
        node = node.value
    if isinstance(node, ast.Name):
        parts.append(node.id)
        return '.'.join(reversed(parts))
    return None


# ------------------------------------------------------------------------------------------ reachability
API_ROOT_NAMES = {
    '__init__', 'connect', 'add_in_edges', 'add_out_edges', 'update_final_state_time', 'reserve_put', 'reserve_get', 'put', 'get',
    'reserve_put_cancel', 'reserve_get_cancel', 'can_put', 'can_get', 'occupancy', 'items', 'ready_items', 'get_occupancy', 'get_items',
    'get_ready_items', 'append', 'add_item', 'remove_item', 'set_creation', 'set_destruction', 'update_node_event', '__repr__',
}


def reachable(p: Project):
    """Keys of the functions reachable from the public API (flow-insensitive, conservative).

    Roots: constructors and the public protocol / reporting methods (names above, plus update_final_*).  Edges of the
    call graph: `self.m` (call, spawn or method value) resolves in the class hierarchy; `super().m`; `x.m(...)` on any
    other receiver resolves by name to every class that defines `m`; bare names resolve to module-level functions and
    class constructors."""
    cache = p.__dict__.setdefault('_reach_cache', None)
    if cache is not None:
        return cache
    by_name: Dict[str, List[FuncInfo]] = {}
    for ci in p.classes.values():
        for fi in ci.methods.values():
            by_name.setdefault(fi.name, []).append(fi)
    modfuncs: Dict[str, List[FuncInfo]] = {}
    for m in p.modules.values():
        for fi in m.functions.values():
            modfuncs.setdefault(fi.name, []).append(fi)
    work: List[FuncInfo] = []
    for ci in p.classes.values():
        for name, fi in ci.methods.items():
            if name in API_ROOT_NAMES or (name.startswith('update_final_')):
                work.append(fi)
    for m in p.modules.values():
        for fi in m.functions.values():
            if not fi.name.startswith('_'):
                work.append(fi)          # public module-level helpers (constructs, utils) are API
    seen = set()
    while work:
        fi = work.pop()
        if fi.key in seen:
            continue
        seen.add(fi.key)
        for n in walk_no_nested(fi.node):
            if isinstance(n, ast.Attribute) and not isinstance(n.ctx, ast.Store):
                v = n.value
                if isinstance(v, ast.Name) and v.id == 'self' and fi.cls:
                    t = p.method((fi.module, fi.cls), n.attr)
                    if t is not None:
                        work.append(t)
                    # a subclass may override the method reached through self
                    for sub in p.subclasses((fi.module, fi.cls)):
                        if n.attr in sub.methods:
                            work.append(sub.methods[n.attr])
                elif isinstance(v, ast.Call) and isinstance(v.func, ast.Name) and v.func.id == 'super' and fi.cls:
                    t = p.super_method((fi.module, fi.cls), n.attr)
                    if t is not None:
                        work.append(t)
                elif n.attr in by_name and not n.attr.startswith('__'):
                    work.extend(by_name[n.attr])
            elif isinstance(n, ast.Name) and isinstance(n.ctx, ast.Load):
                if n.id in modfuncs:
                    work.extend(modfuncs[n.id])
                k = p.resolve_class_name(fi.module, n.id)
                if k is not None:
                    init = p.method(k, '__init__')
                    if init is not None:
                        work.append(init)
        # nested lambdas / defs: their bodies may reference methods too
        for n in ast.walk(fi.node):
            if isinstance(n, ast.Lambda):
                for x in ast.walk(n):
                    if isinstance(x, ast.Attribute) and isinstance(x.value, ast.Name) and x.value.id == 'self' and fi.cls:
                        t = p.method((fi.module, fi.cls), x.attr)
                        if t is not None:
                            work.append(t)
    p.__dict__['_reach_cache'] = seen
    return seen
