"""Shared walk over the node classes: path summaries of every process root (behaviour, worker,
_push_item, ...) with the protocol vocabulary recorded as events and cancel loops summarised."""
from __future__ import annotations

import ast
from typing import Dict, List, Optional, Set

from . import paths, tables
from .model import AnalysisError, ClassInfo, FuncInfo, Project, self_attr, walk_no_nested

PROTO = {'reserve_put', 'reserve_get', 'put', 'get', 'reserve_put_cancel', 'reserve_get_cancel', 'can_put', 'can_get',
         'add_item', 'request', 'release', 'update_node_event', 'set_creation', 'remove_item'}
CANCELS = ('reserve_put_cancel', 'reserve_get_cancel')
ROOT_NAMES = ('behaviour', 'worker', '_push_item', '_pull_item')


def _cancel_loop_hook(ex: paths.Explorer, n, st):
    """Summarise `for t in L: [if t is not c:] <recv>.reserve_X_cancel(t)` as one event (no unrolling)."""
    if not (isinstance(n, ast.For) and isinstance(n.target, ast.Name)):
        return None
    var = n.target.id
    calls = []
    for c in ast.walk(n):
        if isinstance(c, ast.Call) and isinstance(c.func, ast.Attribute) and c.func.attr in CANCELS \
                and c.args and isinstance(c.args[0], ast.Name) and c.args[0].id == var:
            calls.append(c)
    if len(calls) != 1:
        return None
    guard_continues = {id(s_.body[0]) for s_ in n.body if isinstance(s_, ast.If) and len(s_.body) == 1 and isinstance(s_.body[0], ast.Continue)}
    for x in ast.walk(n):
        if isinstance(x, (ast.Yield, ast.YieldFrom, ast.Break, ast.Return)):
            return None
        if isinstance(x, ast.Continue) and id(x) not in guard_continues:
            return None
        if isinstance(x, ast.Call) and x is not calls[0] and isinstance(x.func, ast.Attribute) and x.func.attr in PROTO:
            return None
    call = calls[0]
    # guards: tests of the If statements (inside the loop body) that enclose the cancel call
    guards = []

    def find(stmts, acc):
        for s_ in stmts:
            if any(x is call for x in ast.walk(s_)):
                if isinstance(s_, ast.If):
                    if any(x is call for x in ast.walk(s_.test)):
                        # `if not <cancel>(t): raise ...`: the call runs whenever the test is reached;
                        # `if <guard> and not <cancel>(t): raise`: it runs only when the operands before it are true
                        t_ = s_.test
                        if isinstance(t_, ast.BoolOp) and isinstance(t_.op, ast.And):
                            pre = []
                            for v in t_.values:
                                if any(x is call for x in ast.walk(v)):
                                    break
                                pre.append((v, True))
                            return acc + pre
                        return acc
                    if any(x is call for b in s_.body for x in ast.walk(b)):
                        return find(s_.body, acc + [(s_.test, True)])
                    return find(s_.orelse, acc + [(s_.test, False)])
                if isinstance(s_, (ast.Expr, ast.Assign, ast.AugAssign, ast.AnnAssign)):
                    return acc
                return None
            if isinstance(s_, ast.If) and not s_.orelse and len(s_.body) == 1 and isinstance(s_.body[0], ast.Continue):
                acc = acc + [(s_.test, False)]      # `if <test>: continue` guards everything after it
        return None
    guards = find(n.body, [])
    kind = 'other'
    exc_val = None
    if guards is not None:
        if not guards:
            kind = 'all'
        elif len(guards) == 1:
            t, pol = guards[0]
            if isinstance(t, ast.Compare) and len(t.ops) == 1 and isinstance(t.left, ast.Name) and t.left.id == var:
                op = t.ops[0]
                neq = (isinstance(op, (ast.IsNot, ast.NotEq)) and pol) or (isinstance(op, (ast.Is, ast.Eq)) and not pol)
                if neq:
                    other = t.comparators[0]
                    exc_val = ex.pure_value(other, st)
                    kind = 'except'
    # a snapshot of the list (`list(L)`, `tuple(L)`, `L[:]`, `L.copy()`) walks the same tokens
    it_node = n.iter
    if isinstance(it_node, ast.Call) and isinstance(it_node.func, ast.Name) and it_node.func.id in ('list', 'tuple') and len(it_node.args) == 1 and not it_node.keywords:
        it_node = it_node.args[0]
    elif isinstance(it_node, ast.Call) and isinstance(it_node.func, ast.Attribute) and it_node.func.attr == 'copy' and not it_node.args:
        it_node = it_node.func.value
    elif isinstance(it_node, ast.Subscript) and isinstance(it_node.slice, ast.Slice) and it_node.slice.lower is None and it_node.slice.upper is None \
            and it_node.slice.step is None:
        it_node = it_node.value
    itv = ex.pure_value(it_node, st)
    # does the loop raise when the cancellation *succeeded*?  (`ok = cancel(t)` / `if not ok: raise` is the idiom; the negation is a crash on success)
    raises_on = None
    res_names = set()
    for x in ast.walk(n):
        if isinstance(x, ast.Assign) and x.value is call and len(x.targets) == 1 and isinstance(x.targets[0], ast.Name):
            res_names.add(x.targets[0].id)
    for x in ast.walk(n):
        if isinstance(x, ast.If) and x.body and any(isinstance(y, ast.Raise) for y in x.body):
            t = x.test
            neg = isinstance(t, ast.UnaryOp) and isinstance(t.op, ast.Not)
            core = t.operand if neg else t
            if isinstance(core, ast.BoolOp) and isinstance(core.op, ast.And):
                core = core.values[-1]
                neg2 = isinstance(core, ast.UnaryOp) and isinstance(core.op, ast.Not)
                core, neg = (core.operand, neg2) if neg2 else (core, False)
            if core is call or (isinstance(core, ast.Name) and core.id in res_names):
                raises_on = 'failure' if neg else 'success'
    # does the body change the very list the loop walks?  (removing the current element makes the iterator skip the next one)
    it_txt = ast.unparse(n.iter)
    mutates_iter = None
    for x in ast.walk(n):
        if isinstance(x, ast.Call) and isinstance(x.func, ast.Attribute) and ast.unparse(x.func.value) == it_txt \
                and x.func.attr in ('remove', 'pop', 'append', 'insert', 'clear', 'extend', 'sort', 'reverse'):
            mutates_iter = x.func.attr
        elif isinstance(x, ast.Delete) and any(isinstance(t, ast.Subscript) and ast.unparse(t.value) == it_txt for t in x.targets):
            mutates_iter = 'del'
    ex.emit(st, 'cancel_loop', n, iter=ast.unparse(it_node), iter_val=itv, method=call.func.attr, guard=kind,
            except_val=exc_val, recv=ast.unparse(call.func.value), var=var, node=n, raises_on=raises_on, mutates_iter=mutates_iter)
    for x in ast.walk(n):
        if isinstance(x, ast.Name) and isinstance(x.ctx, ast.Store):
            st.env[x.id] = paths.fresh('loopvar-' + x.id)
    return [(st, 'normal')]


def _first_available_hook(ex: paths.Explorer, n, st):
    """`for e in EDGES: if e.can_put(): X = e; break`  ->  one event with two outcomes (found / none)."""
    if not (isinstance(n, ast.For) and isinstance(n.target, ast.Name) and len(n.body) == 1 and not n.orelse):
        return None
    b = n.body[0]
    if not (isinstance(b, ast.If) and not b.orelse and isinstance(b.test, ast.Call) and isinstance(b.test.func, ast.Attribute)
            and b.test.func.attr in ('can_put', 'can_get') and isinstance(b.test.func.value, ast.Name)
            and b.test.func.value.id == n.target.id and not b.test.args):
        return None
    if not (len(b.body) == 2 and isinstance(b.body[0], ast.Assign) and isinstance(b.body[1], ast.Break)
            and len(b.body[0].targets) == 1 and isinstance(b.body[0].targets[0], ast.Name)
            and isinstance(b.body[0].value, ast.Name) and b.body[0].value.id == n.target.id):
        return None
    x = b.body[0].targets[0].id
    itertxt = ast.unparse(n.iter)
    found = st
    none = st.clone()
    val = ('first-avail', itertxt, b.test.func.attr, next(paths._uid))
    prior = st.env.get(x)
    ex.emit(found, 'first_available', n, iter=itertxt, probe=b.test.func.attr, outcome='found', var=x, value=val, node=n, prior=prior)
    found.env[x] = val
    found.env[n.target.id] = val
    found.notnone.add(x)
    ex.emit(none, 'first_available', n, iter=itertxt, probe=b.test.func.attr, outcome='none', var=x, value=None, node=n, prior=prior)
    none.env[n.target.id] = paths.fresh('last-edge')
    return [(found, 'normal'), (none, 'normal')]


def _first_available_else_hook(ex: paths.Explorer, n, st):
    """`for e in EDGES: if e.can_put(): break` [else: <nobody has room>]  ->  the same event; on 'found' the loop variable is the edge,
    on 'none' the else-block runs"""
    if not (isinstance(n, ast.For) and isinstance(n.target, ast.Name) and len(n.body) == 1):
        return None
    b = n.body[0]
    if not (isinstance(b, ast.If) and not b.orelse and isinstance(b.test, ast.Call) and isinstance(b.test.func, ast.Attribute)
            and b.test.func.attr in ('can_put', 'can_get') and isinstance(b.test.func.value, ast.Name)
            and b.test.func.value.id == n.target.id and not b.test.args and b.body and isinstance(b.body[-1], (ast.Break, ast.Return))
            and not any(isinstance(x_, (ast.Yield, ast.YieldFrom, ast.For, ast.While)) for s_ in b.body for x_ in ast.walk(s_))):
        return None
    x = n.target.id
    itertxt = ast.unparse(n.iter)
    found = st
    none = st.clone()
    val = ('first-avail', itertxt, b.test.func.attr, next(paths._uid))
    prior = st.env.get(x)
    # the decision is carried by the loop variable itself and the "nobody has room" case leaves through the else-branch, or the found case
    # leaves through a return: no variable can survive from an earlier scan
    loopvar_else = (bool(n.orelse) and isinstance(n.orelse[-1], (ast.Return, ast.Raise, ast.Continue))) or isinstance(b.body[-1], ast.Return)
    ex.emit(found, 'first_available', n, iter=itertxt, probe=b.test.func.attr, outcome='found', var=x, value=val, node=n, prior=prior, loopvar_else=loopvar_else)
    found.env[x] = val
    found.notnone.add(x)
    ex.emit(none, 'first_available', n, iter=itertxt, probe=b.test.func.attr, outcome='none', var=x, value=None, node=n, prior=prior, loopvar_else=loopvar_else)
    none.env[x] = paths.fresh('last-edge')
    out = []
    for s2, status in ex.block(b.body, found):          # what happens with the edge found: `break`, or e.g. `return edge`
        out.append((s2, 'normal' if status == 'break' else status))
    out += ex.block(n.orelse, none) if n.orelse else [(none, 'normal')]
    return out


def _first_triggered_index_hook(ex: paths.Explorer, n, st):
    """`for i, t in enumerate(L): if t.triggered: X = i; break`  ->  the look-up `next((t for t in L if t.triggered), None)` with X bound to
    the index of the token found (so that L[X] is that token and EDGES[X] the edge it belongs to)"""
    if not (isinstance(n, ast.For) and isinstance(n.target, ast.Tuple) and len(n.target.elts) == 2 and all(isinstance(e, ast.Name) for e in n.target.elts)
            and isinstance(n.iter, ast.Call) and isinstance(n.iter.func, ast.Name) and n.iter.func.id == 'enumerate' and len(n.iter.args) == 1
            and len(n.body) == 1 and not n.orelse):
        return None
    iv, tv = n.target.elts[0].id, n.target.elts[1].id
    b = n.body[0]
    if not (isinstance(b, ast.If) and not b.orelse and isinstance(b.test, ast.Attribute) and isinstance(b.test.value, ast.Name) and b.test.value.id == tv
            and len(b.body) == 2 and isinstance(b.body[1], ast.Break) and isinstance(b.body[0], ast.Assign) and len(b.body[0].targets) == 1
            and isinstance(b.body[0].targets[0], ast.Name) and isinstance(b.body[0].value, ast.Name) and b.body[0].value.id == iv):
        return None
    src_node = n.iter.args[0]
    src = ast.unparse(src_node)
    x = b.body[0].targets[0].id
    pred = f'{tv}.{b.test.attr}'
    src_val = ex.pure_value(src_node, st)
    found_v = ('found', src, next(paths._uid), None)
    a = st
    c = st.clone()
    ex.emit(a, 'lookup', n, src=src, srclist=None, pred=pred, outcome='found', value=found_v, eq=[], pred_nodes=[b.test], var=tv, src_val=src_val, node=n)
    a.env[x] = ('lindex', src, found_v)
    a.env[tv] = found_v
    a.env[iv] = ('lindex', src, found_v)
    a.notnone.add(x)
    ex.emit(c, 'lookup', n, src=src, srclist=None, pred=pred, outcome='none', value=paths.NONE, eq=[], pred_nodes=[b.test], var=tv, src_val=src_val, node=n)
    return [(a, 'normal'), (c, 'normal')]


def _hooks(ex, n, st):
    for h in (_cancel_loop_hook, _first_available_hook, _first_available_else_hook, _first_triggered_index_hook):
        r = h(ex, n, st)
        if r is not None:
            return r
    return None


def _relevant(n) -> bool:
    for x in ast.walk(n):
        if isinstance(x, (ast.Yield, ast.YieldFrom, ast.Return, ast.Break)):
            return True
        if isinstance(x, ast.Call) and isinstance(x.func, ast.Attribute) and (x.func.attr in PROTO or x.func.attr in
                                                                             ('process', 'append', 'pop', 'remove', 'timeout', 'succeed')):
            return True
        if isinstance(x, ast.AugAssign):
            return True
    return False


class NodeWalk:
    def __init__(self, p: Project, ci: ClassInfo, unroll: int = 2, budget: int = 50000):
        self.p = p
        self.ci = ci
        self.methods = p.methods(ci.key)
        # the helpers the rules know by name are recorded as `call` events; private helpers that no rule refers to are part of
        # their caller (inlined, sub-generators through `yield from`), so that an extract-method refactoring changes nothing
        from .normalise import anchor_vocabulary, is_private
        vocab = anchor_vocabulary()
        atomic = {m for m in self.methods if not (is_private(m) and m not in vocab)}
        self.ex = paths.Explorer(p, ci.key, tracked=set(), atomic=atomic, proto=PROTO, unroll=unroll, budget=budget,
                                 track_attrs=True, stmt_hook=_hooks, relevant=_relevant, interrupt_edges=False)
        self.roots: Dict[str, List[paths.Path]] = {}
        self.root_funcs: Dict[str, FuncInfo] = {}
        spawned = {fi.name for fi in tables.process_roots(p, ci)}
        for name in sorted(spawned | {'behaviour'}):
            fi = self.methods.get(name)
            if fi is None or not fi.is_generator:
                continue
            self.root_funcs[name] = fi
            self.roots[name] = self.ex.paths(fi)
        self.npaths = sum(len(v) for v in self.roots.values())


_CACHE: Dict[tuple, List[NodeWalk]] = {}


def walks(p: Project, unroll: int = None) -> List[NodeWalk]:
    unroll = unroll if unroll is not None else paths.DEFAULT_UNROLL
    cache = p.__dict__.setdefault('_nodewalk_cache', {})
    key = unroll
    if key not in cache:
        cache[key] = [NodeWalk(p, ci, unroll) for ci in tables.node_classes(p)]
    return cache[key]
