"""Semantics-preserving normalisation of the parsed package, applied before any rule looks at it.

The rules are written against the *mechanisms* of the library (which list is popped, which guard dominates which
grant), not against a particular factoring of the source.  Ordinary refactorings - extract helper, pass the queue and
the grant function as arguments, loop over the two holder lists, local alias for the store, module constant for a
literal, explicit search loop instead of next(...) - would otherwise hide the mechanism behind a parameter or a name.
Every transformation below rewrites the syntax tree into an equivalent one in which the mechanism is visible again;
each one states its side conditions and is skipped when they cannot be established from the source.

  N1  module constant propagation        NAME = <literal>  (bound once at module level, never rebound)
  N2  stable alias elimination           x = self.a.b      (x bound once; a, b only ever bound in __init__)
  N3  search loop -> next(...)           for v in L: if P: return v / return None
  N4  expression-helper inlining         private, not overridden, body == `return <expr>`
  N5  helper specialisation              private helper called with self.<list> / self.<method> arguments
  N6  literal-iterable loop unrolling    for h in (self.A, self.B): ...   /   for _ in range(2): ...
  N7  pure-function local propagation    x = <expr> in a function without effects (can_put-like predicates)
  N8  procedure-helper inlining          private, not overridden, no return value, called as a statement

Names that the rules themselves use as anchors (every identifier occurring in a string constant of the rule modules)
are never inlined, specialised or removed.
Line numbers of rewritten nodes are those of the construct they came from, so reports still point at real source.
"""
from __future__ import annotations

import ast
import copy
import functools
import pathlib
import re
from typing import Dict, List, Optional, Set

MAX_UNROLL = 4
PURE_BUILTINS = {'len', 'min', 'max', 'abs', 'isinstance', 'str', 'int', 'float', 'bool', 'print', 'round', 'repr', 'callable', 'hasattr', 'getattr', 'type'}


@functools.lru_cache(maxsize=1)
def anchor_vocabulary() -> frozenset:
    """identifiers the rule modules refer to by name (string constants): never touched by the normaliser"""
    root = pathlib.Path(__file__).resolve().parent
    words: Set[str] = set()
    files = list(root.glob('*.py')) + list((root / 'rules').glob('*.py'))
    for f in files:
        if f.name == 'normalise.py':
            continue
        try:
            tree = ast.parse(f.read_text())
        except SyntaxError:
            continue
        for n in ast.walk(tree):
            if isinstance(n, ast.Constant) and isinstance(n.value, str) and len(n.value) < 400:
                words.update(re.findall(r'[A-Za-z_][A-Za-z0-9_]*', n.value))
    return frozenset(words)


def is_private(name: str) -> bool:
    return name.startswith('_') and not (name.startswith('__') and name.endswith('__'))


# ------------------------------------------------------------------------------------------------ helpers
def fn_nodes(tree):
    for n in ast.walk(tree):
        if isinstance(n, (ast.FunctionDef, ast.AsyncFunctionDef)):
            yield n


def stored_names(fn) -> Dict[str, int]:
    """name -> number of binding occurrences inside fn (parameters count as one, nested scopes included: conservative)"""
    out: Dict[str, int] = {}
    for n in ast.walk(fn):
        if n is fn:
            continue
        if isinstance(n, ast.Name) and isinstance(n.ctx, (ast.Store, ast.Del)):
            out[n.id] = out.get(n.id, 0) + 1
        elif isinstance(n, (ast.FunctionDef, ast.AsyncFunctionDef, ast.ClassDef)):
            out[n.name] = out.get(n.name, 0) + 1
        elif isinstance(n, ast.ExceptHandler) and n.name:
            out[n.name] = out.get(n.name, 0) + 1
        elif isinstance(n, (ast.Global, ast.Nonlocal)):
            for nm in n.names:
                out[nm] = out.get(nm, 0) + 2
        elif isinstance(n, (ast.Import, ast.ImportFrom)):
            for al in n.names:
                nm = (al.asname or al.name).split('.')[0]
                out[nm] = out.get(nm, 0) + 1
        elif isinstance(n, ast.arg):
            out[n.arg] = out.get(n.arg, 0) + 1
    return out


def body_without_doc(fn) -> list:
    b = list(fn.body)
    if b and isinstance(b[0], ast.Expr) and isinstance(b[0].value, ast.Constant) and isinstance(b[0].value.value, str):
        b = b[1:]
    return b


def chain_attrs(node) -> Optional[List[str]]:
    """['a','b'] for self.a.b ; None if the expression is not an attribute chain rooted at `self`"""
    parts = []
    while isinstance(node, ast.Attribute):
        parts.append(node.attr)
        node = node.value
    if isinstance(node, ast.Name) and node.id == 'self' and parts:
        return list(reversed(parts))
    return None


class Subst(ast.NodeTransformer):
    """replace loads of the given names by (copies of) expressions; the copy takes the position of the use"""

    def __init__(self, mapping: Dict[str, ast.AST]):
        self.mapping = mapping
        self.count = 0

    def visit_Name(self, node):
        if isinstance(node.ctx, ast.Load) and node.id in self.mapping:
            new = copy.deepcopy(self.mapping[node.id])
            for x in ast.walk(new):
                if hasattr(x, 'lineno') or isinstance(x, (ast.expr, ast.stmt)):
                    x.lineno, x.col_offset = node.lineno, node.col_offset
                    x.end_lineno, x.end_col_offset = getattr(node, 'end_lineno', node.lineno), getattr(node, 'end_col_offset', node.col_offset)
            self.count += 1
            return new
        return node


def substitute(nodes, mapping):
    s = Subst(mapping)
    out = [s.visit(n) for n in nodes]
    return out, s.count


def is_simple_expr(n) -> bool:
    """cheap, effect-free, duplicable expression"""
    if isinstance(n, (ast.Constant, ast.Name)):
        return True
    if isinstance(n, ast.Attribute):
        return is_simple_expr(n.value)
    if isinstance(n, ast.Call) and isinstance(n.func, ast.Name) and n.func.id == 'len' and len(n.args) == 1 and not n.keywords:
        return is_simple_expr(n.args[0])
    if isinstance(n, ast.Tuple):
        return all(is_simple_expr(e) for e in n.elts)
    if isinstance(n, ast.UnaryOp) and isinstance(n.op, ast.USub):
        return is_simple_expr(n.operand)
    return False


def bind_args(fn, call: ast.Call, has_self: bool) -> Optional[Dict[str, ast.AST]]:
    """param name -> argument expression for a call of fn (None when the call shape is not plain)"""
    a = fn.args
    if a.vararg or a.kwarg or a.posonlyargs or a.kwonlyargs:
        return None
    params = [p.arg for p in a.args]
    if has_self:
        params = params[1:]
    if any(isinstance(x, ast.Starred) for x in call.args) or any(k.arg is None for k in call.keywords):
        return None
    if len(call.args) > len(params):
        return None
    out: Dict[str, ast.AST] = {}
    for p, x in zip(params, call.args):
        out[p] = x
    for k in call.keywords:
        if k.arg not in params or k.arg in out:
            return None
        out[k.arg] = k.value
    nd = len(a.defaults)
    for i, p in enumerate(params):
        if p not in out:
            di = i - (len(params) - nd)
            if 0 <= di < nd:
                out[p] = a.defaults[di]
            else:
                return None
    return out


def has_decorator(fn, name) -> bool:
    return any((isinstance(d, ast.Name) and d.id == name) or (isinstance(d, ast.Attribute) and d.attr == name) for d in fn.decorator_list)


# ------------------------------------------------------------------------------------------------ the normaliser
class Normaliser:
    def __init__(self, trees: Dict[str, ast.Module]):
        self.trees = trees
        self.stats: Dict[str, int] = {}
        self.log: List[str] = []
        self.vocab = anchor_vocabulary()
        self._scan_attrs()
        self._scan_classes()

    def note(self, key, msg):
        self.stats[key] = self.stats.get(key, 0) + 1
        if len(self.log) < 200:
            self.log.append(f'{key}: {msg}')

    # ---- project facts
    def _scan_attrs(self):
        self.init_attrs: Set[str] = set()
        self.mutable_attrs: Set[str] = set()        # bound somewhere outside __init__
        for tree in self.trees.values():
            for fn in fn_nodes(tree):
                for n in ast.walk(fn):
                    tg = []
                    if isinstance(n, ast.Assign):
                        tg = n.targets
                    elif isinstance(n, (ast.AugAssign, ast.AnnAssign)):
                        tg = [n.target]
                    elif isinstance(n, ast.Delete):
                        tg = n.targets
                    elif isinstance(n, (ast.For, ast.AsyncFor)):
                        tg = [n.target]
                    elif isinstance(n, (ast.With, ast.AsyncWith)):
                        tg = [i.optional_vars for i in n.items if i.optional_vars is not None]
                    elif isinstance(n, ast.Call) and isinstance(n.func, ast.Name) and n.func.id in ('setattr', 'delattr') and len(n.args) >= 2:
                        for nm in self._attr_names(fn, n.args[1]):
                            self.mutable_attrs.add(nm)
                    flat = []
                    for t in tg:
                        flat.extend(t.elts if isinstance(t, (ast.Tuple, ast.List)) else [t])
                    for t in flat:
                        if isinstance(t, ast.Starred):
                            t = t.value
                        if isinstance(t, ast.Attribute):
                            if fn.name == '__init__' and isinstance(t.value, ast.Name) and t.value.id == 'self':
                                self.init_attrs.add(t.attr)
                            else:
                                self.mutable_attrs.add(t.attr)

    def _attr_names(self, fn, node):
        """possible values of the attribute-name argument of a setattr: a literal, or a parameter of `fn` that every call
        site in the package binds to a literal; '*' when unknown"""
        if isinstance(node, ast.Constant) and isinstance(node.value, str):
            return [node.value]
        params = [a.arg for a in fn.args.args]
        if isinstance(node, ast.Name) and node.id in params:
            pos = params.index(node.id) - (1 if params and params[0] == 'self' else 0)
            vals = []
            ncalls = 0
            for tree in self.trees.values():
                for c in ast.walk(tree):
                    if isinstance(c, ast.Call) and ((isinstance(c.func, ast.Attribute) and c.func.attr == fn.name) or (isinstance(c.func, ast.Name) and c.func.id == fn.name)):
                        ncalls += 1
                        a = None
                        if 0 <= pos < len(c.args):
                            a = c.args[pos]
                        for k in c.keywords:
                            if k.arg == node.id:
                                a = k.value
                        if isinstance(a, ast.Constant) and isinstance(a.value, str):
                            vals.append(a.value)
                        else:
                            return ['*']
            if ncalls:
                return vals
        return ['*']

    def stable_chain(self, node) -> bool:
        parts = chain_attrs(node)
        if parts is None or '*' in self.mutable_attrs:
            return False
        return all(a in self.init_attrs and a not in self.mutable_attrs for a in parts)

    def _scan_classes(self):
        """class name -> list of ClassDef ; method name -> list of (ClassDef, FunctionDef)"""
        self.classes: List[ast.ClassDef] = []
        self.defs: Dict[str, list] = {}
        for rel, tree in self.trees.items():
            for n in tree.body:
                if isinstance(n, ast.ClassDef):
                    self.classes.append(n)
                    for f in n.body:
                        if isinstance(f, ast.FunctionDef):
                            self.defs.setdefault(f.name, []).append((n, f))

    def unique_def(self, name):
        """(ClassDef, FunctionDef) when exactly one class of the package defines `name` (no overriding possible
        inside the package); None otherwise"""
        d = self.defs.get(name, [])
        return d[0] if len(d) == 1 else None

    def refs(self, name) -> int:
        """number of attribute loads `.name` in the package (call or method value)"""
        c = 0
        for tree in self.trees.values():
            for n in ast.walk(tree):
                if isinstance(n, ast.Attribute) and n.attr == name and isinstance(n.ctx, ast.Load):
                    c += 1
                elif isinstance(n, ast.Constant) and n.value == name:
                    c += 1          # getattr(self, 'name') style
        return c

    def eligible_helper(self, name) -> Optional[tuple]:
        if not is_private(name) or name in self.vocab:
            return None
        d = self.unique_def(name)
        if d is None:
            return None
        cls, fn = d
        if fn.decorator_list and not (len(fn.decorator_list) == 1 and has_decorator(fn, 'staticmethod')):
            return None
        return cls, fn

    # ---- driver
    def run(self):
        self.n35_dead_code()
        self.n36_local_list_remove()
        self.n1_module_constants()
        self.n1b_class_constants()
        self.n32_kwargs_helpers()
        self.n29_loop_spellings()
        self.n25_flag_comparisons()
        self.n26_canonical_spellings()
        self.n22_function_values()
        self.n9_literal_reflection()
        self.n11_split_tuple_assign()
        self.n2_stable_aliases()
        for _ in range(3):
            before = dict(self.stats)
            self.n7_pure_locals()
            self.n5_specialise()
            self.n9_literal_reflection()
            self.n10_tail_duplication()
            self.n6_unroll()
            self.n3_search_loops()
            self.n4_inline_expression_helpers()
            self.n8_inline_procedures()
            self.n13_inline_tail_calls()
            self.n18_inline_structured_returns()
            self.n11_split_tuple_assign()
            self.n19_small()
            self.n9_literal_reflection()
            self.n2_stable_aliases()
            if self.stats == before:
                break
        self.n16_scan_lookup_to_loop()
        self.n14_copy_propagation()
        self.n17_strip_bool()
        self.n7_pure_locals()
        self.n15_elsify()
        for rel, tree in self.trees.items():
            ast.fix_missing_locations(tree)
            try:
                compile(tree, rel, 'exec', dont_inherit=True)       # the normalised module is still a well-formed program (never executed)
            except (SyntaxError, ValueError, TypeError) as e:
                from .model import AnalysisError
                raise AnalysisError(f'normalisation produced an ill-formed module {rel}: {e}')
        return self

    # ---- N36
    def n36_local_list_remove(self):
        """`L.remove(x)` as a statement, L a local name that is only ever bound to lists (display, comprehension, list(...), `[]`) in its function,
        x free of effects  ->  `L.pop(L.index(x))` (the same element leaves, ValueError when absent in both spellings).  Rules about token lists
        count `pop`s; the two spellings of "take this token out of the list" must not differ."""
        for rel, tree in self.trees.items():
            for fn in fn_nodes(tree):
                binds: Dict[str, list] = {}
                for n in ast.walk(fn):
                    if isinstance(n, ast.Assign):
                        for t in n.targets:
                            if isinstance(t, ast.Name):
                                binds.setdefault(t.id, []).append(n.value)
                    elif isinstance(n, (ast.AugAssign, ast.AnnAssign)) and isinstance(n.target, ast.Name):
                        binds.setdefault(n.target.id, []).append(None)
                    elif isinstance(n, (ast.For, ast.comprehension)):
                        for x in ast.walk(n.target):
                            if isinstance(x, ast.Name):
                                binds.setdefault(x.id, []).append(None)
                params = {a.arg for a in fn.args.args + fn.args.kwonlyargs}

                def is_list(v):
                    return isinstance(v, (ast.List, ast.ListComp)) or (isinstance(v, ast.Call) and isinstance(v.func, ast.Name) and v.func.id == 'list')
                for n in ast.walk(fn):
                    if isinstance(n, ast.Expr) and isinstance(n.value, ast.Call) and isinstance(n.value.func, ast.Attribute) and n.value.func.attr == 'remove' \
                            and isinstance(n.value.func.value, ast.Name) and len(n.value.args) == 1 and not n.value.keywords:
                        name = n.value.func.value.id
                        if name in params or not binds.get(name) or not all(v is not None and is_list(v) for v in binds[name]):
                            continue
                        if not self._effect_free(n.value.args[0]):
                            continue
                        idx = ast.Call(func=ast.Attribute(value=ast.Name(id=name, ctx=ast.Load()), attr='index', ctx=ast.Load()), args=[n.value.args[0]], keywords=[])
                        n.value = ast.copy_location(ast.Call(func=ast.Attribute(value=ast.Name(id=name, ctx=ast.Load()), attr='pop', ctx=ast.Load()),
                                                             args=[idx], keywords=[]), n.value)
                        ast.fix_missing_locations(n)
                        self.note('N36_remove_to_pop_index', f'{rel}:{fn.name} {name}')

    # ---- N35
    _PURE_BUILTINS = {'len', 'list', 'tuple', 'reversed', 'sorted', 'enumerate', 'range', 'zip', 'str', 'int', 'float', 'bool', 'abs', 'min', 'max',
                      'isinstance', 'getattr', 'hasattr', 'id', 'repr', 'type', 'set', 'dict', 'sum', 'any', 'all'}

    def _effect_free(self, e) -> bool:
        for x in ast.walk(e):
            if isinstance(x, (ast.Yield, ast.YieldFrom, ast.Await, ast.NamedExpr, ast.Lambda)):
                return False
            if isinstance(x, ast.Call) and not (isinstance(x.func, ast.Name) and x.func.id in self._PURE_BUILTINS):
                return False
        return True

    def n35_dead_code(self):
        """Code that was ADDED without effect on anything the package reads:
        (a) a `for` loop that only looks - its body assigns plain local names (call-free values), prints or passes, its iterable is built from
            attribute reads and pure builtins, and none of the names it binds is read anywhere outside the loop - is removed;
        (b) an attribute `self._x` that is written in methods and read NOWHERE in the package except inside the right-hand sides of its own
            assignments (a call counter, a debug stamp) - its assignments are removed when their right-hand side is effect-free.
        Both are dead stores in the strict sense; removing them keeps unrolling bounds and "no effect before validation" rules from reacting to
        bookkeeping that no behaviour depends on."""
        def inert(stmts, stored):
            for st in stmts:
                if isinstance(st, (ast.Pass, ast.Continue, ast.Break)):
                    continue
                if isinstance(st, ast.Expr) and (isinstance(st.value, ast.Constant) or (isinstance(st.value, ast.Call) and isinstance(st.value.func, ast.Name)
                                                                                         and st.value.func.id == 'print')):
                    continue
                if isinstance(st, (ast.Assign, ast.AugAssign, ast.AnnAssign)):
                    tg = st.targets if isinstance(st, ast.Assign) else [st.target]
                    if all(isinstance(t, ast.Name) for t in tg) and st.value is not None and self._effect_free(st.value):
                        stored.update(t.id for t in tg)
                        continue
                    return False
                if isinstance(st, ast.If) and self._effect_free(st.test) and inert(st.body, stored) and inert(st.orelse, stored):
                    continue
                return False
            return True
        # (a)
        for rel, tree in self.trees.items():
            for fn in fn_nodes(tree):
                changed = True
                while changed:
                    changed = False
                    for n in ast.walk(fn):
                        for f in ('body', 'orelse', 'finalbody'):
                            b = getattr(n, f, None)
                            if not (isinstance(b, list) and b and isinstance(b[0], ast.stmt)):
                                continue
                            for i, st in enumerate(b):
                                if not (isinstance(st, ast.For) and not st.orelse and self._effect_free(st.iter)):
                                    continue
                                stored = {x.id for x in ast.walk(st.target) if isinstance(x, ast.Name)}
                                if not all(isinstance(x, (ast.Name, ast.Tuple, ast.List)) for x in ast.walk(st.target) if not isinstance(x, ast.expr_context)):
                                    continue
                                if not inert(st.body, stored):
                                    continue
                                inside = {id(x) for x in ast.walk(st)}
                                read_outside = any(isinstance(x, ast.Name) and x.id in stored and id(x) not in inside and isinstance(x.ctx, (ast.Load, ast.Del))
                                                   for x in ast.walk(fn))
                                # a name also bound outside the loop keeps its outside value only if the loop never runs: not dead
                                bound_outside = any(isinstance(x, ast.Name) and x.id in stored and id(x) not in inside and isinstance(x.ctx, ast.Store)
                                                    for x in ast.walk(fn)) or any(a.arg in stored for a in fn.args.args + fn.args.kwonlyargs)
                                if read_outside or bound_outside:
                                    continue
                                b[i] = ast.copy_location(ast.Pass(), st)
                                self.note('N35_dead_scan_loop', f'{rel}:{fn.name} line {st.lineno}')
                                changed = True
        # (b)
        loads: Dict[str, int] = {}
        writes: Dict[str, list] = {}
        for rel, tree in self.trees.items():
            own_rhs = set()
            for n in ast.walk(tree):
                if isinstance(n, (ast.Assign, ast.AugAssign)):
                    tg = n.targets if isinstance(n, ast.Assign) else [n.target]
                    if len(tg) == 1 and isinstance(tg[0], ast.Attribute) and isinstance(tg[0].value, ast.Name) and tg[0].value.id == 'self':
                        a = tg[0].attr
                        writes.setdefault(a, []).append((rel, n))
                        for x in ast.walk(n.value):
                            # reads of the attribute inside its own update (self._n or getattr(self, '_n', 0)) do not count
                            if isinstance(x, ast.Attribute) and x.attr == a:
                                own_rhs.add(id(x))
                            if isinstance(x, ast.Constant) and x.value == a:
                                own_rhs.add(id(x))
                        if isinstance(n, ast.AugAssign):
                            own_rhs.add(id(tg[0]))
            for n in ast.walk(tree):
                if isinstance(n, ast.Attribute) and isinstance(n.ctx, (ast.Load, ast.Del)) and id(n) not in own_rhs:
                    loads[n.attr] = loads.get(n.attr, 0) + 1
                elif isinstance(n, ast.Constant) and isinstance(n.value, str) and id(n) not in own_rhs:
                    loads[n.value] = loads.get(n.value, 0) + 1          # getattr(obj, 'name') / dict key / message: treated as a read
        for a, ws in writes.items():
            if loads.get(a) or not is_private(a) or a.startswith('__') or a in self.vocab:
                continue
            if not all(self._effect_free(n.value) for _, n in ws):
                continue
            dead = {id(n) for _, n in ws}
            for rel, tree in self.trees.items():
                for n in ast.walk(tree):
                    for f in ('body', 'orelse', 'finalbody'):
                        b = getattr(n, f, None)
                        if isinstance(b, list) and b and isinstance(b[0], ast.stmt):
                            for i, st in enumerate(b):
                                if id(st) in dead:
                                    b[i] = ast.copy_location(ast.Pass(), st)
                                    self.note('N35_dead_attribute', f'{rel}: self.{a} line {st.lineno}')

    # ---- N1
    @staticmethod
    def _rel_of_module(dotted: str, rel: str, level: int):
        if level:
            base = rel.rsplit('/', level)[0] if rel.count('/') >= level else ''
            return (base + '/' if base else '') + dotted.replace('.', '/') + '.py' if dotted else None
        if dotted.startswith('factorysimpy.'):
            return dotted[len('factorysimpy.'):].replace('.', '/') + '.py'
        return None

    def n1_module_constants(self):
        """module-level NAME = <literal> (bound once, never rebound): uses are replaced by the literal - also in the modules that import the name
        (`from factorysimpy.constants import IDLE_STATE`), also when the literal is built from other such constants (a tuple of state names)"""
        def binds_of(tree):
            binds: Dict[str, list] = {}
            for n in ast.walk(tree):
                if isinstance(n, ast.Name) and isinstance(n.ctx, (ast.Store, ast.Del)):
                    binds.setdefault(n.id, []).append(n)
                elif isinstance(n, (ast.Global, ast.Nonlocal)):
                    for nm in n.names:
                        binds.setdefault(nm, []).extend([n, n])
                elif isinstance(n, ast.arg):
                    binds.setdefault(n.arg, []).append(n)
                elif isinstance(n, (ast.Import, ast.ImportFrom)):
                    for al in n.names:
                        binds.setdefault((al.asname or al.name).split('.')[0], []).append(n)
            return binds

        def literal(v, known):
            """the expression as a literal built from constants / already known constant names, or None"""
            if isinstance(v, ast.Constant):
                return v
            if isinstance(v, ast.Name) and v.id in known:
                return known[v.id]
            if isinstance(v, (ast.Tuple, ast.List)):
                elts = [literal(e, known) for e in v.elts]
                if all(e is not None and isinstance(e, ast.Constant) for e in elts):
                    return ast.copy_location(ast.Tuple(elts=[copy.deepcopy(e) for e in elts], ctx=ast.Load()), v) if isinstance(v, ast.Tuple) \
                        else ast.copy_location(ast.List(elts=[copy.deepcopy(e) for e in elts], ctx=ast.Load()), v)
            if isinstance(v, ast.BinOp) and isinstance(v.op, ast.Add):
                l, r_ = literal(v.left, known), literal(v.right, known)
                if isinstance(l, ast.Tuple) and isinstance(r_, ast.Tuple):
                    return ast.copy_location(ast.Tuple(elts=[copy.deepcopy(e) for e in l.elts + r_.elts], ctx=ast.Load()), v)
            return None
        all_binds = {rel: binds_of(tree) for rel, tree in self.trees.items()}
        tables: Dict[str, Dict[str, ast.AST]] = {rel: {} for rel in self.trees}
        for _round in range(3):
            for rel, tree in self.trees.items():
                known = tables[rel]
                # imported constants
                for n in tree.body:
                    if isinstance(n, ast.ImportFrom):
                        src_rel = self._rel_of_module(n.module or '', rel, n.level)
                        if src_rel in tables:
                            for al in n.names:
                                nm = al.asname or al.name
                                if al.name in tables[src_rel] and len(all_binds[rel].get(nm, [])) == 1:
                                    known.setdefault(nm, tables[src_rel][al.name])
                for n in tree.body:
                    if isinstance(n, ast.Assign) and len(n.targets) == 1 and isinstance(n.targets[0], ast.Name):
                        nm = n.targets[0].id
                        if nm in known or len(all_binds[rel].get(nm, [])) != 1:
                            continue
                        lit = literal(n.value, known)
                        if lit is not None:
                            known[nm] = lit
        for rel, tree in self.trees.items():
            consts = tables[rel]
            if not consts:
                continue
            tops = [n for n in tree.body if isinstance(n, ast.FunctionDef)]
            for c in [n for n in tree.body if isinstance(n, ast.ClassDef)]:
                tops += [f for f in c.body if isinstance(f, ast.FunctionDef)]
            for fn in tops:
                _, c = substitute([fn], consts)
                if c:
                    self.note('N1', f'{rel}: {c} use(s) of module constants in {fn.name}')

    def n1b_class_constants(self):
        """class-level NAME = <literal> read as self.NAME / Cls.NAME: replaced by the literal when NAME is never bound through an instance"""
        consts = {}
        for cls in self.classes:
            for n in cls.body:
                if isinstance(n, ast.Assign) and len(n.targets) == 1 and isinstance(n.targets[0], ast.Name):
                    v = n.value
                    lit = isinstance(v, ast.Constant) or (isinstance(v, ast.Tuple) and all(isinstance(e, ast.Constant) for e in v.elts))
                    nm = n.targets[0].id
                    if lit and nm not in self.init_attrs and nm not in self.mutable_attrs and '*' not in self.mutable_attrs:
                        consts.setdefault(nm, []).append(v)
        consts = {k: v[0] for k, v in consts.items() if len(v) == 1 and k not in self.defs and k not in self.vocab}
        if not consts:
            return
        nz = self

        class T(ast.NodeTransformer):
            def visit_Attribute(self, node):
                self.generic_visit(node)
                if isinstance(node.ctx, ast.Load) and node.attr in consts and isinstance(node.value, ast.Name) \
                        and (node.value.id == 'self' or node.value.id in {c.name for c in nz.classes}):
                    new = copy.deepcopy(consts[node.attr])
                    for x in ast.walk(new):
                        ast.copy_location(x, node)
                    nz.note('N1', f'class constant {node.attr} propagated')
                    return new
                return node
        for tree in self.trees.values():
            T().visit(tree)

    # ---- N17
    def n17_strip_bool(self):
        """bool(e) in a test position (if / while / not / and / or / conditional expression) is e"""
        def strip(e):
            if isinstance(e, ast.Call) and isinstance(e.func, ast.Name) and e.func.id == 'bool' and len(e.args) == 1 and not e.keywords:
                self.note('N17', 'bool(e) in test position -> e')
                return strip(e.args[0])
            if isinstance(e, ast.BoolOp):
                e.values = [strip(v) for v in e.values]
            elif isinstance(e, ast.UnaryOp) and isinstance(e.op, ast.Not):
                e.operand = strip(e.operand)
            return e
        for tree in self.trees.values():
            for n in ast.walk(tree):
                if isinstance(n, (ast.If, ast.While, ast.IfExp, ast.Assert)):
                    n.test = strip(n.test)

    # ---- N32
    def n32_kwargs_helpers(self):
        """private helper `h(self, ..., **tags)` whose only use of `tags` is `for k, v in tags.items(): setattr(obj, k, v)`: specialised per set of keyword
        names used at the call sites (`h__kw_priority_to_put(self, ..., *, priority_to_put)` with `obj.priority_to_put = priority_to_put`), so that the
        attribute writes are visible again and the ordinary helper inlining applies"""
        changed = False
        for name, defs in list(self.defs.items()):
            if len(defs) != 1 or not is_private(name) or name in self.vocab:
                continue
            cls, fn = defs[0]
            if fn.args.kwarg is None or fn.decorator_list:
                continue
            kw = fn.args.kwarg.arg
            loops = [st for st in fn.body if isinstance(st, ast.For) and isinstance(st.iter, ast.Call) and isinstance(st.iter.func, ast.Attribute)
                     and st.iter.func.attr == 'items' and isinstance(st.iter.func.value, ast.Name) and st.iter.func.value.id == kw
                     and isinstance(st.target, ast.Tuple) and len(st.target.elts) == 2 and all(isinstance(e, ast.Name) for e in st.target.elts)
                     and len(st.body) == 1 and isinstance(st.body[0], ast.Expr) and isinstance(st.body[0].value, ast.Call)
                     and isinstance(st.body[0].value.func, ast.Name) and st.body[0].value.func.id == 'setattr' and len(st.body[0].value.args) == 3
                     and isinstance(st.body[0].value.args[0], ast.Name)
                     and [a.id if isinstance(a, ast.Name) else None for a in st.body[0].value.args[1:]] == [e.id for e in st.target.elts]]
            uses = [x for x in ast.walk(fn) if isinstance(x, ast.Name) and x.id == kw]
            if len(loops) != 1 or len(uses) != 1:
                continue
            loop = loops[0]
            obj = loop.body[0].value.args[0].id
            named = {a.arg for a in fn.args.args + fn.args.kwonlyargs}
            sites = []
            ok = True
            for tree in self.trees.values():
                for c in ast.walk(tree):
                    if isinstance(c, ast.Attribute) and c.attr == name and not (isinstance(c.value, ast.Name) and c.value.id == 'self'):
                        ok = False
                    if isinstance(c, ast.Call) and isinstance(c.func, ast.Attribute) and c.func.attr == name:
                        if any(k.arg is None for k in c.keywords) or any(isinstance(a, ast.Starred) for a in c.args):
                            ok = False
                        sites.append(c)
            if not ok or not sites:
                continue
            variants = {}
            for c in sites:
                extra = tuple(k.arg for k in c.keywords if k.arg not in named)
                vname = name + ('__kw_' + '_'.join(extra) if extra else '__kw')
                if vname not in variants:
                    clone = copy.deepcopy(fn)
                    clone.name = vname
                    clone.args.kwarg = None
                    for k in extra:
                        clone.args.args.append(ast.arg(arg=k))
                        if clone.args.defaults:
                            clone.args.defaults.append(ast.Constant(value=None))
                    i = [id(x) for x in fn.body].index(id(loop))
                    assigns = [ast.copy_location(ast.Assign(targets=[ast.Attribute(value=ast.Name(id=obj, ctx=ast.Load()), attr=k, ctx=ast.Store())],
                                                            value=ast.Name(id=k, ctx=ast.Load())), loop) for k in extra]
                    clone.body[i:i + 1] = assigns or [ast.copy_location(ast.Pass(), loop)]
                    ast.fix_missing_locations(clone)
                    variants[vname] = clone
                c.func.attr = vname
            cls.body.remove(fn)
            cls.body.extend(variants.values())
            self.note('N32', f'{cls.name}.{name}: **{kw} specialised into {sorted(variants)}')
            changed = True
        if changed:
            self._scan_classes()

    # ---- N25
    def n25_flag_comparisons(self):
        """`X == True`, `X is True`, `X != False` -> `X`;  `X == False`, `X is False`, `X != True` -> `not X`, for X = self.<flag> where <flag> is a boolean
        flag: every assignment to `.flag` in the package has a bool constant, a comparison / boolean expression, or a parameter whose default is a bool
        constant on its right-hand side.  (One spelling per test, so that the same decision made twice on a path is recognised as the same decision.)"""
        values: Dict[str, list] = {}
        for tree in self.trees.values():
            for fn in fn_nodes(tree):
                defaults = {}
                pos = fn.args.args
                for a, d in zip(pos[len(pos) - len(fn.args.defaults):], fn.args.defaults):
                    defaults[a.arg] = d
                for a, d in zip(fn.args.kwonlyargs, fn.args.kw_defaults):
                    if d is not None:
                        defaults[a.arg] = d
                for n in ast.walk(fn):
                    if isinstance(n, ast.Assign):
                        for t in n.targets:
                            if isinstance(t, ast.Attribute):
                                v = n.value
                                if isinstance(v, ast.Name) and v.id in defaults:
                                    v = defaults[v.id]
                                values.setdefault(t.attr, []).append(v)
                    elif isinstance(n, (ast.AugAssign, ast.AnnAssign)) and isinstance(n.target, ast.Attribute):
                        values.setdefault(n.target.attr, []).append(None)

        def boolish(v):
            return v is not None and ((isinstance(v, ast.Constant) and isinstance(v.value, bool)) or isinstance(v, (ast.Compare, ast.BoolOp))
                                      or (isinstance(v, ast.UnaryOp) and isinstance(v.op, ast.Not)))
        flags = {a for a, vs in values.items() if vs and all(boolish(v) for v in vs)} | {'triggered', 'processed', 'is_alive'}

        def is_flag(e):
            return isinstance(e, ast.Attribute) and e.attr in flags and (chain_attrs(e) is not None or isinstance(e.value, ast.Name))

        nz = self

        class T(ast.NodeTransformer):
            def visit_Compare(self, node):
                self.generic_visit(node)
                if len(node.ops) != 1:
                    return node
                op, l, r_ = node.ops[0], node.left, node.comparators[0]
                for x, c in ((l, r_), (r_, l)):
                    if is_flag(x) and isinstance(c, ast.Constant) and isinstance(c.value, bool) and isinstance(op, (ast.Eq, ast.NotEq, ast.Is, ast.IsNot)):
                        positive = c.value == isinstance(op, (ast.Eq, ast.Is))
                        nz.note('N25', f'flag comparison `{ast.unparse(node)}`')
                        return x if positive else ast.copy_location(ast.UnaryOp(op=ast.Not(), operand=x), node)
                return node
        for tree in self.trees.values():
            T().visit(tree)

    # ---- N26 / N27 / N28: one spelling per test / update
    def n26_canonical_spellings(self):
        """N26  in test position: `len(E) > 0`, `len(E) != 0`, `len(E) >= 1` -> `E`;  `len(E) == 0`, `len(E) < 1` -> `not E`   (E a self attribute chain)
           N27  ordering comparisons: a constant operand goes to the right (`0 < x` -> `x > 0`), a plain local name compared with a call / attribute goes to the left
                (`len(q) > idx` -> `idx < len(q)`); only when both operands are free of effects (names, attributes, constants, len(...))
           N28  `T = T + e` / `T = T - e` -> `T += e` / `T -= e` for a name / attribute / constant-key subscript target and a numeric right operand
                (never for list-valued targets: `L = L + [x]` re-binds, `L += [x]` mutates)"""
        nz = self
        ROLE_LISTS = {'items', 'ready_items', 'reservations_put', 'reservations_get', 'reserve_put_queue', 'reserve_get_queue', 'reserved_events', 'reserved_items'}

        def pure(e):
            for x in ast.walk(e):
                if isinstance(x, ast.Call) and not (isinstance(x.func, ast.Name) and x.func.id == 'len'):
                    return False
                if isinstance(x, (ast.Yield, ast.YieldFrom, ast.Await, ast.NamedExpr, ast.Lambda)):
                    return False
            return True

        def len_arg(e):
            if isinstance(e, ast.Call) and isinstance(e.func, ast.Name) and e.func.id == 'len' and len(e.args) == 1 and not e.keywords \
                    and isinstance(e.args[0], ast.Attribute) and chain_attrs(e.args[0]) is not None:
                return e.args[0]
            return None

        def canon_test(e):
            if isinstance(e, ast.BoolOp):
                e.values = [canon_test(v) for v in e.values]
                return e
            if isinstance(e, ast.UnaryOp) and isinstance(e.op, ast.Not):
                e.operand = canon_test(e.operand)
                return e
            if isinstance(e, ast.Compare) and len(e.ops) == 1:
                op, l, r_ = e.ops[0], e.left, e.comparators[0]
                la, ra = len_arg(l), len_arg(r_)
                k = r_.value if isinstance(r_, ast.Constant) and isinstance(r_.value, int) and not isinstance(r_.value, bool) else None
                if la is not None and k is not None:
                    truthy = (isinstance(op, (ast.Gt, ast.NotEq)) and k == 0) or (isinstance(op, ast.GtE) and k == 1)
                    falsy = (isinstance(op, ast.Eq) and k == 0) or (isinstance(op, ast.Lt) and k == 1) or (isinstance(op, ast.LtE) and k == 0)
                    if truthy:
                        nz.note('N26', f'`{ast.unparse(e)}` -> truth of the list')
                        return la
                    if falsy:
                        nz.note('N26', f'`{ast.unparse(e)}` -> not <list>')
                        return ast.copy_location(ast.UnaryOp(op=ast.Not(), operand=la), e)
            return e

        FLIP = {ast.Lt: ast.Gt, ast.Gt: ast.Lt, ast.LtE: ast.GtE, ast.GtE: ast.LtE}

        class Cmp(ast.NodeTransformer):
            def visit_Compare(self, node):
                self.generic_visit(node)
                if len(node.ops) != 1 or type(node.ops[0]) not in FLIP:
                    return node
                l, r_ = node.left, node.comparators[0]
                if not (pure(l) and pure(r_)):
                    return node
                flip = False
                if isinstance(l, ast.Constant) and not isinstance(r_, ast.Constant):
                    flip = True
                elif isinstance(r_, ast.Name) and isinstance(l, (ast.Call, ast.Attribute)) and not isinstance(l, ast.Constant):
                    flip = True
                if flip:
                    nz.note('N27', f'`{ast.unparse(node)}` operands ordered')
                    return ast.copy_location(ast.Compare(left=r_, ops=[FLIP[type(node.ops[0])]()], comparators=[l]), node)
                return node

        def simple_target(t):
            if isinstance(t, ast.Name):
                return True
            if isinstance(t, ast.Attribute):
                return pure(t) and t.attr not in ROLE_LISTS
            if isinstance(t, ast.Subscript):
                return pure(t.value) and pure(t.slice) and not any(isinstance(x, ast.Call) for x in ast.walk(t.slice))
            return False

        class Aug(ast.NodeTransformer):
            @staticmethod
            def _swap(node):
                # `T = e + T` (numbers commute): put T on the left
                v = node.value
                if ast.unparse(v.right) == ast.unparse(node.targets[0]) and isinstance(v.left, (ast.Constant, ast.Name, ast.Attribute)) \
                        and not (isinstance(v.left, ast.Constant) and isinstance(v.left.value, str)):
                    v.left, v.right = v.right, v.left
                    return True
                return False

            def visit_Assign(self, node):
                if len(node.targets) == 1 and simple_target(node.targets[0]) and isinstance(node.value, ast.BinOp) and isinstance(node.value.op, (ast.Add, ast.Sub)) \
                        and (ast.unparse(node.value.left) == ast.unparse(node.targets[0]) or (isinstance(node.value.op, ast.Add) and self._swap(node))) and pure(node.value.right) \
                        and not isinstance(node.value.right, (ast.List, ast.Tuple, ast.ListComp, ast.Set, ast.Dict, ast.JoinedStr)) \
                        and not (isinstance(node.value.right, ast.Constant) and isinstance(node.value.right.value, str)):
                    nz.note('N28', f'`{ast.unparse(node)[:60]}` -> augmented assignment')
                    return ast.copy_location(ast.AugAssign(target=node.targets[0], op=node.value.op, value=node.value.right), node)
                return node
        for tree in self.trees.values():
            for n in ast.walk(tree):
                if isinstance(n, (ast.If, ast.While, ast.IfExp, ast.Assert)):
                    n.test = canon_test(n.test)
            Cmp().visit(tree)
            Aug().visit(tree)

    # ---- N29 / N30 / N33 / N34: loop and negation spellings
    def n29_loop_spellings(self):
        """N30  `not (a == b)` -> `a != b`, `not (x is None)` -> `x is not None`, `not (a in b)` -> `a not in b`; `not (a >= b)` -> `a < b` when an operand is a
                len(...) or an int constant (total order on ints)
           N29  `while True: if T: break; REST`  ->  `while not T: REST`
           N33  loop body ending in `if c: continue` + `break`  ->  `if not c: break`
           N34  `F = True` + `while F and C: BODY` (F a local that BODY re-assigns, no `continue` in BODY)  ->  `while C: BODY; if not F: break`"""
        nz = self
        NEG = {ast.Eq: ast.NotEq, ast.NotEq: ast.Eq, ast.Is: ast.IsNot, ast.IsNot: ast.Is, ast.In: ast.NotIn, ast.NotIn: ast.In}
        NEGORD = {ast.Lt: ast.GtE, ast.GtE: ast.Lt, ast.Gt: ast.LtE, ast.LtE: ast.Gt}

        def intish(e):
            return (isinstance(e, ast.Call) and isinstance(e.func, ast.Name) and e.func.id == 'len') or \
                   (isinstance(e, ast.Constant) and isinstance(e.value, int) and not isinstance(e.value, bool))

        class Neg(ast.NodeTransformer):
            def visit_UnaryOp(self, node):
                self.generic_visit(node)
                if isinstance(node.op, ast.Not) and isinstance(node.operand, ast.Compare) and len(node.operand.ops) == 1:
                    c = node.operand
                    op = type(c.ops[0])
                    if op in NEG:
                        nz.note('N30', 'negated comparison')
                        return ast.copy_location(ast.Compare(left=c.left, ops=[NEG[op]()], comparators=c.comparators), node)
                    if op in NEGORD and (intish(c.left) or intish(c.comparators[0])):
                        nz.note('N30', 'negated ordering on ints')
                        return ast.copy_location(ast.Compare(left=c.left, ops=[NEGORD[op]()], comparators=c.comparators), node)
                if isinstance(node.op, ast.Not) and isinstance(node.operand, ast.BoolOp) and getattr(node, '_in_test', False):
                    # De Morgan (in a test position only: there the operands are used for their truth value)
                    b = node.operand
                    other = ast.Or() if isinstance(b.op, ast.And) else ast.And()
                    vals = []
                    for v in b.values:
                        nv = ast.copy_location(ast.UnaryOp(op=ast.Not(), operand=v), v)
                        nv._in_test = True
                        vals.append(self.visit_UnaryOp(nv) if True else nv)
                    nz.note('N30', 'De Morgan')
                    return ast.copy_location(ast.BoolOp(op=other, values=vals), node)
                if isinstance(node.op, ast.Not) and isinstance(node.operand, ast.UnaryOp) and isinstance(node.operand.op, ast.Not) and getattr(node, '_in_test', False):
                    return node.operand.operand
                return node

        def negate(t):
            if isinstance(t, ast.UnaryOp) and isinstance(t.op, ast.Not):
                return t.operand
            return Neg().visit(ast.copy_location(ast.UnaryOp(op=ast.Not(), operand=t), t))

        def has_continue(stmts):
            def rec(n):
                for c in ast.iter_child_nodes(n):
                    if isinstance(c, (ast.For, ast.While, ast.FunctionDef, ast.Lambda)):
                        continue
                    if isinstance(c, ast.Continue) or rec(c):
                        return True
                return False
            return any(isinstance(s_, ast.Continue) or rec(s_) for s_ in stmts)

        def loops_in(body):
            for i, st in enumerate(body):
                if isinstance(st, ast.While) and not st.orelse:
                    # N29
                    if isinstance(st.test, ast.Constant) and st.test.value is True and st.body and isinstance(st.body[0], ast.If) \
                            and not st.body[0].orelse and len(st.body[0].body) == 1 and isinstance(st.body[0].body[0], ast.Break) and len(st.body) > 1:
                        st.test = negate(st.body[0].test)
                        del st.body[0]
                        nz.note('N29', 'while True / if T: break -> while not T')
                    # N33
                    if len(st.body) >= 2 and isinstance(st.body[-1], ast.Break) and isinstance(st.body[-2], ast.If) and not st.body[-2].orelse \
                            and len(st.body[-2].body) == 1 and isinstance(st.body[-2].body[0], ast.Continue):
                        iff = st.body[-2]
                        iff.test = negate(iff.test)
                        iff.body = [st.body[-1]]
                        del st.body[-1]
                        nz.note('N33', 'if c: continue; break -> if not c: break')
                    # N34
                    t = st.test
                    if isinstance(t, ast.BoolOp) and isinstance(t.op, ast.And) and len(t.values) == 2 and isinstance(t.values[0], ast.Name) and i > 0:
                        F = t.values[0].id
                        prev = body[i - 1]
                        if isinstance(prev, ast.Assign) and len(prev.targets) == 1 and isinstance(prev.targets[0], ast.Name) and prev.targets[0].id == F \
                                and isinstance(prev.value, ast.Constant) and prev.value.value is True and not has_continue(st.body) \
                                and any(isinstance(x, ast.Name) and x.id == F and isinstance(x.ctx, ast.Store) for b_ in st.body for x in ast.walk(b_)):
                            st.test = t.values[1]
                            st.body.append(ast.copy_location(ast.If(test=ast.UnaryOp(op=ast.Not(), operand=ast.Name(id=F, ctx=ast.Load())),
                                                                    body=[ast.Break()], orelse=[]), st))
                            nz.note('N34', 'while F and C -> while C ... if not F: break')
                for f in ('body', 'orelse', 'finalbody'):
                    b = getattr(st, f, None)
                    if isinstance(b, list) and b and isinstance(b[0], ast.stmt):
                        loops_in(b)
                for h in getattr(st, 'handlers', []) or []:
                    loops_in(h.body)
        def mark(e):
            if isinstance(e, ast.BoolOp):
                for v in e.values:
                    mark(v)
            elif isinstance(e, ast.UnaryOp) and isinstance(e.op, ast.Not):
                e._in_test = True
                mark(e.operand)
        for tree in self.trees.values():
            for n in ast.walk(tree):
                if isinstance(n, (ast.If, ast.While, ast.IfExp, ast.Assert)):
                    mark(n.test)
                elif isinstance(n, ast.comprehension):
                    for c in n.ifs:
                        mark(c)
            Neg().visit(tree)
            # single-use generator held in a local and consumed by the very next statement: `m = (... for ...)` ; `x = next(m, None)`
            for fn in fn_nodes(tree):
                for blk in [fn.body] + [b for x in ast.walk(fn) for f_ in ('body', 'orelse', 'finalbody') for b in [getattr(x, f_, None)]
                                        if isinstance(b, list) and b and isinstance(b[0], ast.stmt) and x is not fn]:
                    k = 0
                    while k + 1 < len(blk):
                        a, b2 = blk[k], blk[k + 1]
                        if isinstance(a, ast.Assign) and len(a.targets) == 1 and isinstance(a.targets[0], ast.Name) and isinstance(a.value, ast.GeneratorExp):
                            nm = a.targets[0].id
                            uses_ = [x for x in ast.walk(fn) if isinstance(x, ast.Name) and x.id == nm]
                            calls = [x for x in ast.walk(b2) if isinstance(x, ast.Call) and isinstance(x.func, ast.Name) and x.func.id == 'next' and x.args
                                     and isinstance(x.args[0], ast.Name) and x.args[0].id == nm]
                            if len(uses_) == 2 and len(calls) == 1:
                                calls[0].args[0] = a.value
                                del blk[k]
                                nz.note('N30', 'single-use generator inlined into next()')
                                continue
                        k += 1
            for fn in fn_nodes(tree):
                loops_in(fn.body)
            ast.fix_missing_locations(tree)

    # ---- N2
    def n2_stable_aliases(self):
        for rel, tree in self.trees.items():
            for fn in fn_nodes(tree):
                sn = stored_names(fn)
                i = 0
                while i < len(fn.body):
                    st = fn.body[i]
                    if isinstance(st, ast.Assign) and len(st.targets) == 1 and isinstance(st.targets[0], ast.Name) \
                            and sn.get(st.targets[0].id) == 1 and self.stable_chain(st.value):
                        nm = st.targets[0].id
                        used_before = any(isinstance(x, ast.Name) and x.id == nm for s0 in fn.body[:i] for x in ast.walk(s0))
                        if not used_before and len(fn.body) > i + 1:
                            rest, c = substitute(fn.body[i + 1:], {nm: st.value})
                            fn.body[i + 1:] = rest
                            del fn.body[i]
                            self.note('N2', f'{rel}:{fn.name}: alias {nm} = {ast.unparse(st.value)} ({c} uses)')
                            continue
                    i += 1

    # ---- N3
    def n3_search_loops(self):
        for rel, tree in self.trees.items():
            for fn in fn_nodes(tree):
                self._n3_block(fn, fn.body, rel, is_fn_tail=True)

    @staticmethod
    def _is_none(n):
        return n is None or (isinstance(n, ast.Constant) and n.value is None)

    def _canon_index_loop(self, st: ast.For, rest):
        """`for k in range(len(L))` / `for k, v in enumerate(L)` whose index is only used to read `L[k]` (and not after the loop) -> `for v in L`;
        nested `if A: if B: S` (no else) -> `if A and B: S`"""
        def uses(name, nodes):
            return [x for n_ in nodes for x in ast.walk(n_) if isinstance(x, ast.Name) and x.id == name]
        # `for i, v in enumerate(L[a:], start=a)` -> `for i in range(a, len(L)): v = L[i]`
        it0 = st.iter
        if isinstance(it0, ast.Call) and isinstance(it0.func, ast.Name) and it0.func.id == 'enumerate' and it0.args and isinstance(it0.args[0], ast.Subscript) \
                and isinstance(it0.args[0].slice, ast.Slice) and it0.args[0].slice.upper is None and it0.args[0].slice.step is None \
                and isinstance(it0.args[0].slice.lower, ast.Constant) and chain_attrs(it0.args[0].value) is not None \
                and isinstance(st.target, ast.Tuple) and len(st.target.elts) == 2 and all(isinstance(e, ast.Name) for e in st.target.elts):
            start = it0.args[1] if len(it0.args) > 1 else next((k.value for k in it0.keywords if k.arg == 'start'), None)
            a0 = it0.args[0].slice.lower
            if isinstance(start, ast.Constant) and start.value == a0.value:
                Lx = it0.args[0].value
                iv, ev = st.target.elts[0].id, st.target.elts[1].id
                st.iter = ast.copy_location(ast.Call(func=ast.Name(id='range', ctx=ast.Load()),
                                                     args=[copy.deepcopy(a0), ast.Call(func=ast.Name(id='len', ctx=ast.Load()), args=[copy.deepcopy(Lx)], keywords=[])], keywords=[]), it0)
                st.target = ast.copy_location(ast.Name(id=iv, ctx=ast.Store()), st.target)
                st.body.insert(0, ast.copy_location(ast.Assign(targets=[ast.Name(id=ev, ctx=ast.Store())],
                                                               value=ast.Subscript(value=copy.deepcopy(Lx), slice=ast.Name(id=iv, ctx=ast.Load()), ctx=ast.Load())), st))
                ast.fix_missing_locations(st)
                self.note('N3', 'enumerate(L[a:], start=a) -> range(a, len(L))')
        L = None
        idx = elem = None
        it = st.iter
        if isinstance(it, ast.Call) and isinstance(it.func, ast.Name) and it.func.id == 'range' and len(it.args) == 1 and isinstance(st.target, ast.Name) \
                and isinstance(it.args[0], ast.Call) and isinstance(it.args[0].func, ast.Name) and it.args[0].func.id == 'len' and len(it.args[0].args) == 1 \
                and (chain_attrs(it.args[0].args[0]) is not None or isinstance(it.args[0].args[0], ast.Name)):
            L, idx, elem = it.args[0].args[0], st.target.id, f'{st.target.id}__elem'
        elif isinstance(it, ast.Call) and isinstance(it.func, ast.Name) and it.func.id == 'enumerate' and len(it.args) == 1 \
                and (chain_attrs(it.args[0]) is not None or isinstance(it.args[0], ast.Name)) \
                and isinstance(st.target, ast.Tuple) and len(st.target.elts) == 2 and all(isinstance(e, ast.Name) for e in st.target.elts):
            L, idx, elem = it.args[0], st.target.elts[0].id, st.target.elts[1].id
        if L is not None:
            ltxt = ast.unparse(L)
            subs = [x for n_ in st.body for x in ast.walk(n_) if isinstance(x, ast.Subscript) and ast.unparse(x.value) == ltxt
                    and isinstance(x.slice, ast.Name) and x.slice.id == idx and isinstance(x.ctx, ast.Load)]
            idx_uses = uses(idx, st.body)
            mutated = any(isinstance(x, ast.Call) and isinstance(x.func, ast.Attribute) and ast.unparse(x.func.value) == ltxt
                          and x.func.attr in ('pop', 'remove', 'append', 'insert', 'clear', 'sort') for n_ in st.body for x in ast.walk(n_))
            if len(idx_uses) == len(subs) and not uses(idx, rest) and not mutated and (subs or isinstance(st.target, ast.Tuple)):
                class R(ast.NodeTransformer):
                    def visit_Subscript(self, node):
                        self.generic_visit(node)
                        if isinstance(node.ctx, ast.Load) and ast.unparse(node.value) == ltxt and isinstance(node.slice, ast.Name) and node.slice.id == idx:
                            return ast.copy_location(ast.Name(id=elem, ctx=ast.Load()), node)
                        return node
                st.body = [R().visit(b_) for b_ in st.body]
                st.target = ast.copy_location(ast.Name(id=elem, ctx=ast.Store()), st.target)
                st.iter = L
                self.note('N3', 'index loop -> element loop')
        # `for v in L: w = v; ...` (v not used otherwise) -> `for w in L: ...`
        if isinstance(st.target, ast.Name) and len(st.body) >= 2 and isinstance(st.body[0], ast.Assign) and len(st.body[0].targets) == 1 \
                and isinstance(st.body[0].targets[0], ast.Name) and isinstance(st.body[0].value, ast.Name) and st.body[0].value.id == st.target.id \
                and not uses(st.target.id, st.body[1:]) and not uses(st.target.id, rest):
            st.target = ast.copy_location(ast.Name(id=st.body[0].targets[0].id, ctx=ast.Store()), st.target)
            del st.body[0]
            self.note('N3', 'loop variable alias removed')
        # guard-continue: `if T: continue` + REST  ->  `if not T: REST`
        if len(st.body) >= 2 and isinstance(st.body[0], ast.If) and not st.body[0].orelse and len(st.body[0].body) == 1 and isinstance(st.body[0].body[0], ast.Continue):
            g = st.body[0]
            t = g.test
            _NEG = {ast.Eq: ast.NotEq, ast.NotEq: ast.Eq, ast.Is: ast.IsNot, ast.IsNot: ast.Is, ast.In: ast.NotIn, ast.NotIn: ast.In}
            if isinstance(t, ast.UnaryOp) and isinstance(t.op, ast.Not):
                g.test = t.operand
            elif isinstance(t, ast.Compare) and len(t.ops) == 1 and type(t.ops[0]) in _NEG:
                g.test = ast.copy_location(ast.Compare(left=t.left, ops=[_NEG[type(t.ops[0])]()], comparators=t.comparators), t)
            else:
                g.test = ast.copy_location(ast.UnaryOp(op=ast.Not(), operand=t), t)
            g.body = st.body[1:]
            st.body = [g]
            self.note('N3', 'guard-continue in a search loop -> positive test')
        # nested ifs
        while len(st.body) == 1 and isinstance(st.body[0], ast.If) and not st.body[0].orelse and len(st.body[0].body) == 1 \
                and isinstance(st.body[0].body[0], ast.If) and not st.body[0].body[0].orelse:
            outer, inner = st.body[0], st.body[0].body[0]
            outer.test = ast.copy_location(ast.BoolOp(op=ast.And(), values=[outer.test, inner.test]), outer.test)
            outer.body = inner.body
            self.note('N3', 'nested ifs in a search loop merged')

    def _while_index_to_for(self, body, i):
        """`k = 0` + `while k < len(L): BODY; k += 1`  ->  `for k in range(len(L)): BODY`   (BODY without `continue`, does not assign k or resize L; k unused after the loop)"""
        st = body[i]
        prev = body[i - 1] if i > 0 else None
        if not (isinstance(st, ast.While) and not st.orelse and isinstance(st.test, ast.Compare) and len(st.test.ops) == 1 and isinstance(st.test.ops[0], ast.Lt)
                and isinstance(st.test.left, ast.Name) and isinstance(prev, ast.Assign) and len(prev.targets) == 1 and isinstance(prev.targets[0], ast.Name)
                and prev.targets[0].id == st.test.left.id and isinstance(prev.value, ast.Constant) and prev.value.value == 0 and len(st.body) >= 2):
            return False
        k = st.test.left.id
        bound = st.test.comparators[0]
        if not (isinstance(bound, ast.Call) and isinstance(bound.func, ast.Name) and bound.func.id == 'len' and len(bound.args) == 1):
            return False
        Ltxt = ast.unparse(bound.args[0])
        last = st.body[-1]
        if not (isinstance(last, ast.AugAssign) and isinstance(last.op, ast.Add) and isinstance(last.target, ast.Name) and last.target.id == k
                and isinstance(last.value, ast.Constant) and last.value.value == 1):
            return False
        rest = st.body[:-1]
        for x in [y for s_ in rest for y in ast.walk(s_)]:
            if isinstance(x, ast.Continue) or (isinstance(x, ast.Name) and x.id == k and isinstance(x.ctx, ast.Store)):
                return False
            if isinstance(x, ast.Call) and isinstance(x.func, ast.Attribute) and ast.unparse(x.func.value) == Ltxt and x.func.attr in ('pop', 'remove', 'append', 'insert', 'clear', 'extend'):
                return False
        if any(isinstance(x, ast.Name) and x.id == k for s_ in body[i + 1:] for x in ast.walk(s_)):
            return False
        new = ast.copy_location(ast.For(target=ast.Name(id=k, ctx=ast.Store()),
                                        iter=ast.Call(func=ast.Name(id='range', ctx=ast.Load()), args=[bound], keywords=[]), body=rest, orelse=[]), st)
        ast.fix_missing_locations(new)
        body[i] = new
        del body[i - 1]
        self.note('N3', 'while-index loop -> for')
        return True

    def _n3_block(self, fn, body, rel, is_fn_tail):
        i = 0
        while i < len(body):
            st = body[i]
            if isinstance(st, ast.While) and self._while_index_to_for(body, i):
                i -= 1
                st = body[i]
            if isinstance(st, ast.For) and not st.orelse:
                self._canon_index_loop(st, body[i + 1:])
            if isinstance(st, ast.For) and isinstance(st.target, ast.Tuple) and all(isinstance(e, ast.Name) for e in st.target.elts) and not st.orelse \
                    and len(st.body) == 1 and isinstance(st.body[0], ast.If) and not st.body[0].orelse and len(st.body[0].body) == 1 \
                    and isinstance(st.body[0].body[0], ast.Return) and st.body[0].body[0].value is not None:
                # (d) for i, v in enumerate(L): if P: return i, v   /   return None, None
                iff = st.body[0]
                rv = iff.body[0].value
                names = {e.id for e in st.target.elts}
                rv_ok = (isinstance(rv, ast.Name) and rv.id in names) or (isinstance(rv, ast.Tuple) and all(isinstance(e, ast.Name) and e.id in names for e in rv.elts))
                nxt = body[i + 1] if i + 1 < len(body) else None
                dflt = nxt.value if isinstance(nxt, ast.Return) else None
                dflt_ok = dflt is not None and (isinstance(dflt, ast.Constant) or (isinstance(dflt, ast.Tuple) and all(isinstance(e, ast.Constant) for e in dflt.elts)))
                pure_test = not any(isinstance(x, (ast.Yield, ast.YieldFrom, ast.Await, ast.NamedExpr)) for x in ast.walk(iff.test))
                if rv_ok and dflt_ok and pure_test:
                    ge = ast.GeneratorExp(elt=rv, generators=[ast.comprehension(target=st.target, iter=st.iter, ifs=[iff.test], is_async=0)])
                    new = ast.Return(value=ast.Call(func=ast.Name(id='next', ctx=ast.Load()), args=[ge, dflt], keywords=[]))
                    for x in ast.walk(new):
                        if not hasattr(x, 'lineno'):
                            ast.copy_location(x, st)
                    ast.copy_location(new, st)
                    body[i] = new
                    del body[i + 1]
                    self.note('N3', f'{rel}:{fn.name}: search loop over {ast.unparse(st.iter)} -> next(...)')
                    continue
            if isinstance(st, ast.For) and isinstance(st.target, ast.Name) and not st.orelse and len(st.body) == 1 \
                    and isinstance(st.body[0], ast.If) and not st.body[0].orelse and len(st.body[0].body) >= 1:
                iff = st.body[0]
                tgt = st.target.id
                last = iff.body[-1]
                pure_test = not any(isinstance(x, (ast.Yield, ast.YieldFrom, ast.Await, ast.NamedExpr)) for x in ast.walk(iff.test))
                # (a) for v in L: if P: return v   [return None]
                nxt = body[i + 1] if i + 1 < len(body) else None
                if pure_test and len(iff.body) == 1 and isinstance(last, ast.Return) and isinstance(last.value, ast.Name) and last.value.id == tgt \
                        and ((nxt is None and is_fn_tail) or (isinstance(nxt, ast.Return) and self._is_none(nxt.value))):
                    new = ast.Return(value=self._next_call(st, iff))
                    ast.copy_location(new, st)
                    body[i] = new
                    if nxt is not None:
                        del body[i + 1]
                    self.note('N3', f'{rel}:{fn.name}: search loop over {ast.unparse(st.iter)} -> next(...)')
                    continue
                # (c) for v in L: if P: return True   /   return False      ->  return any(P for v in L)
                if pure_test and len(iff.body) == 1 and isinstance(last, ast.Return) and isinstance(last.value, ast.Constant) and last.value.value is True \
                        and isinstance(nxt, ast.Return) and isinstance(nxt.value, ast.Constant) and nxt.value.value is False:
                    ge = ast.GeneratorExp(elt=iff.test, generators=[ast.comprehension(target=ast.Name(id=tgt, ctx=ast.Store()), iter=st.iter, ifs=[], is_async=0)])
                    new = ast.Return(value=ast.Call(func=ast.Name(id='any', ctx=ast.Load()), args=[ge], keywords=[]))
                    for x in ast.walk(new):
                        if not hasattr(x, 'lineno'):
                            ast.copy_location(x, st)
                    ast.copy_location(new, st)
                    body[i] = new
                    del body[i + 1]
                    self.note('N3', f'{rel}:{fn.name}: search loop over {ast.unparse(st.iter)} -> any(...)')
                    continue
                # (b) found = None ; for v in L: if P: found = v; break
                prev = body[i - 1] if i > 0 else None
                if pure_test and len(iff.body) == 2 and isinstance(last, ast.Break) and isinstance(iff.body[0], ast.Assign) \
                        and len(iff.body[0].targets) == 1 and (isinstance(iff.body[0].targets[0], ast.Name) or chain_attrs(iff.body[0].targets[0]) is not None) \
                        and isinstance(iff.body[0].value, ast.Name) and iff.body[0].value.id == tgt \
                        and isinstance(prev, ast.Assign) and len(prev.targets) == 1 \
                        and ast.unparse(prev.targets[0]) == ast.unparse(iff.body[0].targets[0]) and self._is_none(prev.value) \
                        and ast.unparse(iff.body[0].targets[0]) not in ast.unparse(iff.test) \
                        and not self._reads_after(tgt, body[i + 1:]):
                    new = ast.Assign(targets=[copy.deepcopy(prev.targets[0])], value=self._next_call(st, iff))
                    ast.copy_location(new, st)
                    body[i] = new
                    del body[i - 1]
                    self.note('N3', f'{rel}:{fn.name}: search loop over {ast.unparse(st.iter)} -> next(...)')
                    continue
            for sub in self._sub_blocks(st):
                self._n3_block(fn, sub, rel, is_fn_tail=False)
            i += 1

    @staticmethod
    def _reads_after(name, stmts) -> bool:
        """is `name` read in the statements before it is bound again?  (a later `for name in ...` / comprehension over `name` re-binds it: reads inside are not reads
        of the old value)"""
        def rec(n, bound):
            if isinstance(n, (ast.For, ast.AsyncFor)) and any(isinstance(x, ast.Name) and x.id == name for x in ast.walk(n.target)):
                return rec_list([n.iter], bound) or rec_list(n.orelse, bound)        # body: re-bound
            if isinstance(n, (ast.ListComp, ast.SetComp, ast.GeneratorExp, ast.DictComp)) and \
                    any(isinstance(x, ast.Name) and x.id == name for g in n.generators for x in ast.walk(g.target)):
                return rec_list([n.generators[0].iter], bound)
            if isinstance(n, ast.Name) and n.id == name and isinstance(n.ctx, ast.Load):
                return True
            return rec_list(list(ast.iter_child_nodes(n)), bound)

        def rec_list(nodes, bound):
            return any(rec(x, bound) for x in nodes)
        for st in stmts:
            if isinstance(st, ast.Assign) and any(isinstance(t, ast.Name) and t.id == name for t in st.targets) and not rec(st.value, False):
                return False
            if rec(st, False):
                return True
        return False

    @staticmethod
    def _sub_blocks(st):
        out = []
        for f in ('body', 'orelse', 'finalbody'):
            b = getattr(st, f, None)
            if isinstance(b, list) and b and isinstance(b[0], ast.stmt) and not isinstance(st, (ast.FunctionDef, ast.AsyncFunctionDef, ast.ClassDef)):
                out.append(b)
        for h in getattr(st, 'handlers', []) or []:
            out.append(h.body)
        return out

    @staticmethod
    def _next_call(st: ast.For, iff: ast.If):
        tests = iff.test.values if isinstance(iff.test, ast.BoolOp) and isinstance(iff.test.op, ast.And) else [iff.test]
        ge = ast.GeneratorExp(elt=ast.Name(id=st.target.id, ctx=ast.Load()),
                              generators=[ast.comprehension(target=ast.Name(id=st.target.id, ctx=ast.Store()), iter=st.iter,
                                                            ifs=[ast.BoolOp(op=ast.And(), values=list(tests))] if len(tests) > 1 else list(tests), is_async=0)])
        call = ast.Call(func=ast.Name(id='next', ctx=ast.Load()), args=[ge, ast.Constant(value=None)], keywords=[])
        for x in ast.walk(call):
            ast.copy_location(x, iff.test if isinstance(x, (ast.BoolOp,)) else st)
        return call

    # ---- N4
    def n4_inline_expression_helpers(self):
        helpers = {}
        for name in list(self.defs):
            el = self.eligible_helper(name)
            if el is None:
                continue
            cls, fn = el
            b = body_without_doc(fn)
            if len(b) != 1 or not isinstance(b[0], ast.Return) or b[0].value is None:
                continue
            expr = b[0].value
            if any(isinstance(x, (ast.Yield, ast.YieldFrom, ast.Await, ast.Lambda, ast.NamedExpr)) for x in ast.walk(expr)):
                continue
            if any(isinstance(x, ast.Attribute) and x.attr == name for x in ast.walk(expr)):
                continue        # recursive
            helpers[name] = (cls, fn, expr)
        if not helpers:
            return
        for rel, tree in self.trees.items():
            tr = _InlineExpr(self, helpers, rel)
            tr.visit(tree)
        self._drop_unreferenced(helpers)

    def _drop_unreferenced(self, helpers):
        for name, tup in helpers.items():
            cls, fn = tup[0], tup[1]
            if self.refs(name) == 0 and fn in cls.body and len(cls.body) > 1:
                cls.body.remove(fn)
                self.defs.pop(name, None)
                self.note('drop', f'{cls.name}.{name}: no caller left after inlining')

    # ---- N5
    def n5_specialise(self):
        for name in list(self.defs):
            el = self.eligible_helper(name)
            if el is None:
                continue
            cls, fn = el
            static = has_decorator(fn, 'staticmethod')
            sn = stored_names(fn)
            method_names = {f.name for c in self.classes for f in c.body if isinstance(f, ast.FunctionDef)}
            clones: Dict[tuple, str] = {}
            for rel, tree in self.trees.items():
                for owner in [c for c in tree.body if isinstance(c, ast.ClassDef)]:
                    for call in [n for n in ast.walk(owner) if isinstance(n, ast.Call)]:
                        f = call.func
                        if not (isinstance(f, ast.Attribute) and f.attr == name and isinstance(f.value, ast.Name) and f.value.id in ('self', cls.name)):
                            continue
                        if f.value.id == cls.name and not static:
                            continue
                        m = bind_args(fn, call, has_self=not static)
                        if m is None:
                            continue
                        spec = {}
                        for p, a in m.items():
                            if sn.get(p, 0) != 1:
                                continue
                            ch = chain_attrs(a)
                            if ch is not None and len(ch) == 1 and (ch[0] in method_names or self.stable_chain(a)):
                                spec[p] = a
                            elif isinstance(a, ast.Tuple) and a.elts and all(chain_attrs(e) is not None and self.stable_chain(e) for e in a.elts):
                                spec[p] = a
                            elif isinstance(a, ast.Constant) and isinstance(a.value, str) and (self._names_attribute(fn, p) or self._const_calls_only(name, fn, p)):
                                spec[p] = a
                        if not spec:
                            continue
                        sig = tuple(sorted((p, ast.unparse(a)) for p, a in spec.items()))
                        if sig not in clones:
                            k = len(clones) + 1
                            cname = f'{name}__{k}'
                            clone = copy.deepcopy(fn)
                            clone.name = cname
                            clone.decorator_list = []
                            if static:
                                clone.args.args.insert(0, ast.arg(arg='self'))
                            # remove the specialised parameters (and their defaults)
                            params = clone.args.args
                            nd = len(clone.args.defaults)
                            first_def = len(params) - nd
                            keep_p, keep_d = [], []
                            for i, p in enumerate(params):
                                if p.arg in spec:
                                    continue
                                keep_p.append(p)
                                if i >= first_def:
                                    keep_d.append(clone.args.defaults[i - first_def])
                            clone.args.args = keep_p
                            clone.args.defaults = keep_d
                            clone.body, _ = substitute(clone.body, spec)
                            cls.body.append(clone)
                            self.defs[cname] = [(cls, clone)]
                            clones[sig] = cname
                            self.note('N5', f'{cls.name}.{name} specialised on {dict(sig)} as {cname}')
                        # rewrite the call
                        f.attr = clones[sig]
                        f.value = ast.copy_location(ast.Name(id='self', ctx=ast.Load()), f.value)
                        order = [p.arg for p in fn.args.args if p.arg != 'self' or static]
                        new_args = [m[p] for p in order if p not in spec and p in m]
                        call.args = new_args
                        call.keywords = []
            if clones and self.refs(name) == 0 and fn in cls.body:
                cls.body.remove(fn)
                self.defs.pop(name, None)
                self.note('drop', f'{cls.name}.{name}: every call site specialised')

    def _const_calls_only(self, name, fn, p) -> bool:
        """every call of the helper in the package passes a string literal for p, and there are at most 8 distinct ones"""
        params = [a.arg for a in fn.args.args]
        pos = params.index(p) - (1 if params and params[0] == 'self' else 0)
        vals = set()
        n = 0
        for tree in self.trees.values():
            for c in ast.walk(tree):
                if isinstance(c, ast.Call) and isinstance(c.func, ast.Attribute) and c.func.attr == name:
                    n += 1
                    a = c.args[pos] if 0 <= pos < len(c.args) else next((k.value for k in c.keywords if k.arg == p), None)
                    if not (isinstance(a, ast.Constant) and isinstance(a.value, str)):
                        return False
                    vals.add(a.value)
        return 0 < n and len(vals) <= 8

    @staticmethod
    def _names_attribute(fn, p) -> bool:
        """parameter p is used as an attribute name (setattr / getattr / attrgetter) inside fn"""
        for n in ast.walk(fn):
            if isinstance(n, ast.Call) and isinstance(n.func, ast.Name) and n.func.id in ('setattr', 'getattr', 'hasattr', 'delattr', 'attrgetter') \
                    or isinstance(n, ast.Call) and isinstance(n.func, ast.Attribute) and n.func.attr == 'attrgetter':
                if any(isinstance(x, ast.Name) and x.id == p for a in n.args for x in ast.walk(a)):
                    return True
        return False

    # ---- N11
    def n11_split_tuple_assign(self):
        """a, b = x, y  ->  a = x ; b = y   when no target is read by a later right-hand side and the right-hand sides have no effects
        that the earlier stores could influence (names, attribute chains, constants and calls of env.event() only)"""
        def simple(e):
            if isinstance(e, (ast.Constant, ast.Name)):
                return True
            if isinstance(e, ast.Attribute):
                return simple(e.value)
            if isinstance(e, ast.Call) and not e.args and not e.keywords and isinstance(e.func, ast.Attribute) and e.func.attr == 'event':
                return simple(e.func.value)
            if isinstance(e, (ast.List, ast.Tuple, ast.Set)):          # a display builds a fresh object in either spelling (`a, b = [], []`)
                return all(simple(x) for x in e.elts)
            if isinstance(e, ast.Dict):
                return all(k is not None and simple(k) and simple(v) for k, v in zip(e.keys, e.values))
            return False
        for rel, tree in self.trees.items():
            for fn in fn_nodes(tree):
                self._n11_block(fn, fn.body, rel, simple)

    def _n11_block(self, fn, body, rel, simple):
        i = 0
        while i < len(body):
            st = body[i]
            if isinstance(st, ast.Assign) and len(st.targets) == 1 and isinstance(st.targets[0], ast.Tuple) and isinstance(st.value, ast.Tuple) \
                    and len(st.targets[0].elts) == len(st.value.elts) and all(simple(e) for e in st.value.elts) \
                    and all(isinstance(t, (ast.Name, ast.Attribute)) and simple(t) for t in st.targets[0].elts):
                tg, vs = st.targets[0].elts, st.value.elts
                ok = True
                for k, t in enumerate(tg):
                    tt = ast.unparse(t)
                    for later in vs[k + 1:]:
                        lt = ast.unparse(later)
                        if lt == tt or lt.startswith(tt + '.') or tt.startswith(lt + '.'):
                            ok = False
                if ok:
                    new = []
                    for t, v in zip(tg, vs):
                        a = ast.Assign(targets=[t], value=v)
                        ast.copy_location(a, st)
                        new.append(a)
                    body[i:i + 1] = new
                    self.note('N11', f'{rel}:{fn.name}: tuple assignment split')
                    i += len(new)
                    continue
            for sub in self._sub_blocks(st):
                self._n11_block(fn, sub, rel, simple)
            i += 1

    # ---- N9
    def n9_literal_reflection(self):
        for rel, tree in self.trees.items():
            tr = _Reflect(self, rel)
            tr.visit(tree)

    # ---- N10
    def n10_tail_duplication(self):
        for rel, tree in self.trees.items():
            for fn in fn_nodes(tree):
                self._n10_block(fn, fn.body, rel)

    def _alias_branches(self, iff: ast.If):
        """list of (branch body list, alias name or None when the branch terminates) for an if/elif/else chain; None if not of that shape"""
        out = []
        cur = iff
        while True:
            out.append(cur.body)
            if len(cur.orelse) == 1 and isinstance(cur.orelse[0], ast.If):
                cur = cur.orelse[0]
                continue
            if not cur.orelse:
                return None
            out.append(cur.orelse)
            break
        res = []
        name = None
        for b in out:
            last = b[-1]
            if isinstance(last, (ast.Raise, ast.Return)):
                res.append((b, None))
            elif isinstance(last, ast.Assign) and len(last.targets) == 1 and isinstance(last.targets[0], ast.Name) and self.stable_chain(last.value) \
                    and (name is None or name == last.targets[0].id):
                name = last.targets[0].id
                res.append((b, name))
            else:
                return None
        if name is None or sum(1 for _, n in res if n) < 2:
            return None
        return res, name

    def _n10_block(self, fn, body, rel):
        i = 0
        while i < len(body):
            st = body[i]
            if isinstance(st, ast.If) and i + 1 < len(body):
                ab = self._alias_branches(st)
                tail = body[i + 1:]
                if ab is not None and sum(len(list(ast.walk(t))) for t in tail) <= 300:
                    branches, name = ab
                    sn = stored_names(fn)
                    nb = sum(1 for _, n in branches if n)
                    tail_ok = not any(isinstance(x, ast.Name) and x.id == name and isinstance(x.ctx, ast.Store) for t in tail for x in ast.walk(t))
                    used_before = any(isinstance(x, ast.Name) and x.id == name for s0 in body[:i] for x in ast.walk(s0))
                    if sn.get(name) == nb and tail_ok and not used_before:
                        for b, n in branches:
                            if n is None:
                                continue
                            alias = b[-1].value
                            t2, _ = substitute(copy.deepcopy(tail), {name: alias})
                            b[-1:] = t2
                        del body[i + 1:]
                        self.note('N10', f'{rel}:{fn.name}: common tail duplicated into the {nb} branches selecting `{name}`')
            for sub in self._sub_blocks(st):
                self._n10_block(fn, sub, rel)
            i += 1

    # ---- N6
    def n6_unroll(self):
        for rel, tree in self.trees.items():
            for fn in fn_nodes(tree):
                self._n6_block(fn, fn.body, rel)

    def _n6_block(self, fn, body, rel):
        i = 0
        while i < len(body):
            st = body[i]
            done = False
            if isinstance(st, ast.For) and not st.orelse and isinstance(st.target, ast.Name) and not self._loop_jumps(st.body):
                tgt = st.target.id
                rebinds = sum(1 for x in ast.walk(st) if isinstance(x, ast.Name) and x.id == tgt and isinstance(x.ctx, (ast.Store, ast.Del)))
                used_after = any(isinstance(x, ast.Name) and x.id == tgt for s2 in body[i + 1:] for x in ast.walk(s2))
                elems = None
                if isinstance(st.iter, (ast.Tuple, ast.List)) and 1 <= len(st.iter.elts) <= MAX_UNROLL \
                        and all(isinstance(e, ast.Constant) or self.stable_chain(e) for e in st.iter.elts):
                    elems = list(st.iter.elts)
                elif isinstance(st.iter, ast.Call) and isinstance(st.iter.func, ast.Name) and st.iter.func.id == 'range' and len(st.iter.args) == 1 \
                        and not st.iter.keywords and isinstance(st.iter.args[0], ast.Constant) and isinstance(st.iter.args[0].value, int) \
                        and 1 <= st.iter.args[0].value <= MAX_UNROLL:
                    elems = [ast.Constant(value=k) for k in range(st.iter.args[0].value)]
                if elems is not None and rebinds == 1 and not used_after:
                    new = []
                    for e in elems:
                        b2, _ = substitute(copy.deepcopy(st.body), {tgt: e})
                        new.extend(b2)
                    body[i:i + 1] = new
                    self.note('N6', f'{rel}:{fn.name}: loop over {ast.unparse(st.iter)} unrolled')
                    done = True
            if not done:
                for sub in self._sub_blocks(st):
                    self._n6_block(fn, sub, rel)
                i += 1

    @staticmethod
    def _loop_jumps(body) -> bool:
        """break / continue that belong to this loop"""
        stack = list(body)
        while stack:
            n = stack.pop()
            if isinstance(n, (ast.Break, ast.Continue)):
                return True
            if isinstance(n, (ast.For, ast.While, ast.AsyncFor, ast.FunctionDef, ast.AsyncFunctionDef, ast.ClassDef, ast.Lambda)):
                if isinstance(n, (ast.For, ast.While, ast.AsyncFor)):
                    stack.extend(n.orelse)
                continue
            stack.extend(ast.iter_child_nodes(n))
        return False

    # ---- N7
    def pure_function(self, fn, seen=()) -> bool:
        for n in ast.walk(fn):
            if n is fn:
                continue
            if isinstance(n, (ast.Yield, ast.YieldFrom, ast.Await, ast.Global, ast.Nonlocal, ast.Delete, ast.Raise, ast.Try, ast.With, ast.While, ast.For,
                              ast.FunctionDef, ast.Lambda, ast.ClassDef, ast.NamedExpr, ast.AugAssign)):
                return False
            if isinstance(n, ast.Assign) and not all(isinstance(t, ast.Name) for t in n.targets):
                return False
            if isinstance(n, ast.Call):
                f = n.func
                if isinstance(f, ast.Name) and f.id in PURE_BUILTINS:
                    continue
                return False
        return True

    def n7_pure_locals(self):
        for rel, tree in self.trees.items():
            for fn in fn_nodes(tree):
                if not self.pure_function(fn):
                    continue
                sn = stored_names(fn)
                i = 0
                while i < len(fn.body):
                    st = fn.body[i]
                    if isinstance(st, ast.Assign) and len(st.targets) == 1 and isinstance(st.targets[0], ast.Name) and sn.get(st.targets[0].id) == 1 \
                            and not any(isinstance(x, ast.Call) and isinstance(x.func, ast.Name) and x.func.id == 'print' for x in ast.walk(st.value)) \
                            and len(fn.body) > i + 1:
                        nm = st.targets[0].id
                        rest, c = substitute(fn.body[i + 1:], {nm: st.value})
                        fn.body[i + 1:] = rest
                        del fn.body[i]
                        self.note('N7', f'{rel}:{fn.name}: local {nm} propagated ({c} uses)')
                        continue
                    i += 1

    # ---- N14
    def n14_copy_propagation(self):
        """x = <pure read of self attributes>  (x bound once, at the top level of the function): uses of x are replaced by the expression for
        as long as control cannot have passed an unknown call, a suspension point or a store to an attribute the expression reads"""
        for rel, tree in self.trees.items():
            for fn in fn_nodes(tree):
                self._n14_block(fn, fn.body, stored_names(fn), rel)

    def _n14_block(self, fn, body, sn, rel):
        i = 0
        while i < len(body):
            st = body[i]
            if isinstance(st, ast.Assign) and len(st.targets) == 1 and isinstance(st.targets[0], ast.Name) and sn.get(st.targets[0].id) == 1 \
                    and self._pure_read(st.value, sn) and i + 1 < len(body):
                nm = st.targets[0].id
                total = sum(1 for x in ast.walk(fn) if isinstance(x, ast.Name) and x.id == nm and isinstance(x.ctx, ast.Load))
                reads = {x.attr for x in ast.walk(st.value) if isinstance(x, ast.Attribute)}
                locals_read = {x.id for x in ast.walk(st.value) if isinstance(x, ast.Name) and x.id != 'self'}
                if total and all(sn.get(l, 0) <= 1 for l in locals_read):
                    cp = _CopyProp(nm, st.value, reads)
                    cp.block(body[i + 1:], False) if False else None
                    tail = body[i + 1:]
                    cp.block(tail, False)
                    body[i + 1:] = tail
                    if cp.count == total:
                        del body[i]
                        self.note('N14', f'{rel}:{fn.name}: {nm} = {ast.unparse(st.value)[:50]} propagated ({cp.count} uses)')
                        continue
                    elif cp.count:
                        self.note('N14', f'{rel}:{fn.name}: {nm} propagated into {cp.count} of {total} uses (assignment kept)')
            for sub in self._sub_blocks(st):
                self._n14_block(fn, sub, sn, rel)
            i += 1

    @staticmethod
    def _pure_read(e, sn) -> bool:
        """attribute chains rooted at self (or at a once-bound local / parameter), constant subscripts, arithmetic and comparisons of those"""
        if isinstance(e, ast.Attribute):
            return Normaliser._pure_read(e.value, sn)
        if isinstance(e, ast.Name):
            return e.id == 'self' or sn.get(e.id, 0) <= 1
        if isinstance(e, ast.Constant):
            return True
        if isinstance(e, ast.Subscript):
            return Normaliser._pure_read(e.value, sn) and isinstance(e.slice, ast.Constant)
        if isinstance(e, ast.BinOp):
            return Normaliser._pure_read(e.left, sn) and Normaliser._pure_read(e.right, sn)
        if isinstance(e, ast.Tuple):
            return all(Normaliser._pure_read(v, sn) for v in e.elts)
        if isinstance(e, ast.Compare):
            return Normaliser._pure_read(e.left, sn) and all(Normaliser._pure_read(c, sn) for c in e.comparators) \
                and not any(isinstance(o, (ast.In, ast.NotIn)) for o in e.ops)
        if isinstance(e, ast.BoolOp):
            return all(Normaliser._pure_read(v, sn) for v in e.values)
        if isinstance(e, ast.UnaryOp) and isinstance(e.op, (ast.Not, ast.USub)):
            return Normaliser._pure_read(e.operand, sn)
        if isinstance(e, ast.Call) and isinstance(e.func, ast.Name) and e.func.id in ('len', 'bool') and len(e.args) == 1 and not e.keywords:
            return Normaliser._pure_read(e.args[0], sn)
        if isinstance(e, ast.Call) and isinstance(e.func, ast.Name) and e.func.id == 'getattr' and len(e.args) == 2 and not e.keywords:
            return Normaliser._pure_read(e.args[0], sn) and Normaliser._pure_read(e.args[1], sn)
        if isinstance(e, ast.JoinedStr):
            return all(isinstance(v, ast.Constant) or (isinstance(v, ast.FormattedValue) and v.format_spec is None and Normaliser._pure_read(v.value, sn))
                       for v in e.values)
        return False

    # ---- N19 / N20 / N21: small local canonicalisations
    def n19_small(self):
        for rel, tree in self.trees.items():
            for fn in fn_nodes(tree):
                self._n19_block(fn, fn.body, rel)

    def _n19_block(self, fn, body, rel):
        i = 0
        while i < len(body):
            st = body[i]
            # N21: del L[i]  ->  L.pop(i)
            if isinstance(st, ast.Delete) and len(st.targets) == 1 and isinstance(st.targets[0], ast.Subscript) and not isinstance(st.targets[0].slice, ast.Slice):
                t = st.targets[0]
                call = ast.Call(func=ast.Attribute(value=t.value, attr='pop', ctx=ast.Load()), args=[t.slice], keywords=[])
                new = ast.Expr(value=call)
                for x in ast.walk(new):
                    if not hasattr(x, 'lineno'):
                        ast.copy_location(x, st)
                ast.copy_location(new, st)
                body[i] = new
                self.note('N21', f'{rel}:{fn.name}: del {ast.unparse(t)} -> .pop(...)')
                st = new
            # N23: L = [] ; for e in IT: L.append(F(e))   ->   L = [F(e) for e in IT]
            if isinstance(st, ast.For) and i > 0 and isinstance(st.target, ast.Name) and not st.orelse and len(st.body) == 1 \
                    and isinstance(st.body[0], ast.Expr) and isinstance(st.body[0].value, ast.Call) and isinstance(st.body[0].value.func, ast.Attribute) \
                    and st.body[0].value.func.attr == 'append' and len(st.body[0].value.args) == 1 and not st.body[0].value.keywords:
                lst = st.body[0].value.func.value
                prev = body[i - 1]
                if isinstance(prev, ast.Assign) and len(prev.targets) == 1 and isinstance(prev.value, ast.List) and not prev.value.elts \
                        and ast.unparse(prev.targets[0]) == ast.unparse(lst) and isinstance(lst, (ast.Name, ast.Attribute)) \
                        and not any(ast.unparse(x) == ast.unparse(lst) for x in ast.walk(st.body[0].value.args[0]) if isinstance(x, (ast.Name, ast.Attribute))) \
                        and not any(ast.unparse(x) == ast.unparse(lst) for x in ast.walk(st.iter) if isinstance(x, (ast.Name, ast.Attribute))) \
                        and not any(isinstance(x, (ast.Yield, ast.YieldFrom, ast.Await)) for x in ast.walk(st)):
                    comp = ast.ListComp(elt=st.body[0].value.args[0], generators=[ast.comprehension(target=st.target, iter=st.iter, ifs=[], is_async=0)])
                    new = ast.Assign(targets=[prev.targets[0]], value=comp)
                    for x in ast.walk(new):
                        if not hasattr(x, 'lineno'):
                            ast.copy_location(x, st)
                    ast.copy_location(new, st)
                    body[i - 1:i + 1] = [new]
                    self.note('N23', f'{rel}:{fn.name}: list built by an append loop -> comprehension')
                    i -= 1
                    st = new
            # N19: for e in L: if P: X = e; break  else: X = <const>   ->   X = <const> ; for ...
            if isinstance(st, ast.For) and len(st.orelse) == 1 and isinstance(st.orelse[0], ast.Assign) and len(st.orelse[0].targets) == 1 \
                    and isinstance(st.orelse[0].targets[0], ast.Name) and isinstance(st.orelse[0].value, ast.Constant) and len(st.body) == 1 \
                    and isinstance(st.body[0], ast.If) and not st.body[0].orelse and st.body[0].body and isinstance(st.body[0].body[-1], ast.Break):
                x = st.orelse[0].targets[0].id
                sets = [b for b in st.body[0].body if isinstance(b, ast.Assign) and len(b.targets) == 1 and isinstance(b.targets[0], ast.Name) and b.targets[0].id == x]
                reads_x = any(isinstance(n, ast.Name) and n.id == x and isinstance(n.ctx, ast.Load) for n in ast.walk(st))
                if sets and not reads_x and not any(isinstance(n, ast.Try) for n in ast.walk(fn)):
                    init = st.orelse[0]
                    st.orelse = []
                    body.insert(i, init)
                    self.note('N19', f'{rel}:{fn.name}: for/else default of {x} hoisted before the loop')
                    i += 1
            # N20: a = b (both locals), b never used afterwards, a bound once  ->  rename a to b
            if isinstance(st, ast.Assign) and len(st.targets) == 1 and isinstance(st.targets[0], ast.Name) and isinstance(st.value, ast.Name) \
                    and st.value.id != 'self' and body is fn.body:
                a, b = st.targets[0].id, st.value.id
                sn = stored_names(fn)
                rest = body[i + 1:]
                b_later = any(isinstance(n, ast.Name) and n.id == b for s_ in rest for n in ast.walk(s_))
                a_before = any(isinstance(n, ast.Name) and n.id == a for s_ in body[:i] for n in ast.walk(s_))
                params = {p.arg for p in fn.args.args}
                if sn.get(a, 0) == 1 and not b_later and not a_before and b in sn and b not in params and a != b:
                    for s_ in rest:
                        for n in ast.walk(s_):
                            if isinstance(n, ast.Name) and n.id == a:
                                n.id = b
                    del body[i]
                    self.note('N20', f'{rel}:{fn.name}: local {a} is a plain rename of {b}')
                    continue
            for sub in self._sub_blocks(st):
                self._n19_block(fn, sub, rel)
            i += 1

    # ---- N22
    def n22_function_values(self):
        """a private module-level function whose body is `return <expr>`, used as a value (sort key, callback): replaced by the lambda it is"""
        funcs = {}
        counts = {}
        for rel, tree in self.trees.items():
            for n in tree.body:
                if isinstance(n, ast.FunctionDef):
                    counts[n.name] = counts.get(n.name, 0) + 1
                    funcs[n.name] = n
        cands = {}
        for name, fn in funcs.items():
            b = body_without_doc(fn)
            a = fn.args
            if counts[name] == 1 and is_private(name) and name not in self.vocab and not fn.decorator_list and len(b) == 1 and isinstance(b[0], ast.Return) \
                    and b[0].value is not None and not (a.vararg or a.kwarg or a.kwonlyargs or a.defaults or a.posonlyargs) \
                    and not any(isinstance(x, (ast.Yield, ast.YieldFrom, ast.Await)) for x in ast.walk(b[0].value)):
                cands[name] = fn
        if not cands:
            return
        nz = self

        class T(ast.NodeTransformer):
            def visit_Call(self, node):
                # do not touch the callee position; only argument / keyword values
                node.args = [self.visit(a) if not (isinstance(a, ast.Name) and a.id in cands) else self.as_lambda(a) for a in node.args]
                for k in node.keywords:
                    k.value = self.as_lambda(k.value) if isinstance(k.value, ast.Name) and k.value.id in cands else self.visit(k.value)
                if not (isinstance(node.func, ast.Name) and node.func.id in cands):
                    node.func = self.visit(node.func)
                return node

            @staticmethod
            def as_lambda(name_node):
                fn = cands[name_node.id]
                lam = ast.Lambda(args=copy.deepcopy(fn.args), body=copy.deepcopy(body_without_doc(fn)[0].value))
                for x in ast.walk(lam):
                    ast.copy_location(x, name_node)
                nz.note('N22', f'function value {name_node.id} -> lambda')
                return lam
        for tree in self.trees.values():
            T().visit(tree)

    # ---- N15
    def n15_elsify(self):
        """if C: ...; return/raise      ->   if C: ...; return/raise
           rest                              else: rest
        (the guard-clause form and the if/else form of the same decision get one shape)"""
        for rel, tree in self.trees.items():
            for fn in fn_nodes(tree):
                self._n15_block(fn, fn.body, rel)

    def _n15_block(self, fn, body, rel):
        i = 0
        while i < len(body):
            st = body[i]
            if isinstance(st, ast.If) and not self._innermost_orelse(st) and self._all_branches_terminate(st) and i + 1 < len(body):
                rest = body[i + 1:]
                del body[i + 1:]
                self._set_innermost_orelse(st, rest)
                self.note('N15', f'{rel}:{fn.name}: statements after a terminating if moved into its else-branch')
            for sub in self._sub_blocks(st):
                self._n15_block(fn, sub, rel)
            i += 1

    @staticmethod
    def _innermost_orelse(st):
        cur = st
        while len(cur.orelse) == 1 and isinstance(cur.orelse[0], ast.If):
            cur = cur.orelse[0]
        return cur.orelse

    @staticmethod
    def _set_innermost_orelse(st, rest):
        cur = st
        while len(cur.orelse) == 1 and isinstance(cur.orelse[0], ast.If):
            cur = cur.orelse[0]
        cur.orelse = rest

    @staticmethod
    def _all_branches_terminate(st):
        cur = st
        while True:
            if not cur.body or not isinstance(cur.body[-1], (ast.Return, ast.Raise, ast.Continue, ast.Break)):
                return False
            if len(cur.orelse) == 1 and isinstance(cur.orelse[0], ast.If):
                cur = cur.orelse[0]
                continue
            return True

    # ---- N16
    def n16_scan_lookup_to_loop(self):
        """X = next((e for e in EDGES if e.can_put()), None)   ->   X = None ; for e in EDGES: if e.can_put(): X = e; break"""
        for rel, tree in self.trees.items():
            for fn in fn_nodes(tree):
                self._n16_block(fn, fn.body, rel)

    def _n16_block(self, fn, body, rel):
        i = 0
        while i < len(body):
            st = body[i]
            v = st.value if isinstance(st, ast.Assign) and len(st.targets) == 1 and isinstance(st.targets[0], ast.Name) else None
            if isinstance(v, ast.Call) and isinstance(v.func, ast.Name) and v.func.id == 'next' and len(v.args) == 2 and isinstance(v.args[0], ast.GeneratorExp) \
                    and isinstance(v.args[1], ast.Constant) and v.args[1].value is None:
                ge = v.args[0]
                g = ge.generators[0]
                if len(ge.generators) == 1 and isinstance(g.target, ast.Name) and len(g.ifs) == 1 and isinstance(ge.elt, ast.Name) and ge.elt.id == g.target.id \
                        and isinstance(g.ifs[0], ast.Call) and isinstance(g.ifs[0].func, ast.Attribute) and g.ifs[0].func.attr in ('can_put', 'can_get') \
                        and isinstance(g.ifs[0].func.value, ast.Name) and g.ifs[0].func.value.id == g.target.id and not g.ifs[0].args:
                    x = st.targets[0].id
                    lv = g.target.id
                    names = {n.id for n in ast.walk(fn) if isinstance(n, ast.Name)} - {lv}
                    inside = {n.id for n in ast.walk(ge) if isinstance(n, ast.Name)}
                    others = sum(1 for n in ast.walk(fn) if isinstance(n, ast.Name) and n.id == lv) - sum(1 for n in ast.walk(ge) if isinstance(n, ast.Name) and n.id == lv)
                    if others:
                        new_lv = f'{lv}__scan'
                        for n in ast.walk(ge):
                            if isinstance(n, ast.Name) and n.id == lv:
                                n.id = new_lv
                        lv = new_lv
                    init = ast.Assign(targets=[ast.Name(id=x, ctx=ast.Store())], value=ast.Constant(value=None))
                    setx = ast.Assign(targets=[ast.Name(id=x, ctx=ast.Store())], value=ast.Name(id=lv, ctx=ast.Load()))
                    iff = ast.If(test=g.ifs[0], body=[setx, ast.Break()], orelse=[])
                    loop = ast.For(target=ast.Name(id=lv, ctx=ast.Store()), iter=g.iter, body=[iff], orelse=[])
                    for n in (init, loop):
                        for y in ast.walk(n):
                            if not hasattr(y, 'lineno'):
                                ast.copy_location(y, st)
                        ast.copy_location(n, st)
                    body[i:i + 1] = [init, loop]
                    self.note('N16', f'{rel}:{fn.name}: first-available look-up rewritten as the scan loop')
                    i += 2
                    continue
            for sub in self._sub_blocks(st):
                self._n16_block(fn, sub, rel)
            i += 1

    # ---- N18
    @staticmethod
    def _returns_structured(stmts) -> bool:
        """every path through stmts ends in `return <expr>` / raise, and returns occur only in those tail positions"""
        if not stmts:
            return False
        for st in stmts[:-1]:
            if any(isinstance(x, ast.Return) for x in ast.walk(st)):
                return False
        last = stmts[-1]
        if isinstance(last, ast.Return):
            return last.value is not None
        if isinstance(last, ast.Raise):
            return True
        if isinstance(last, ast.If) and last.orelse:
            return Normaliser._returns_structured(last.body) and Normaliser._returns_structured(last.orelse)
        return False

    @staticmethod
    def _returns_to_assign(stmts, target):
        out = []
        for st in stmts:
            if isinstance(st, ast.Return):
                a = ast.Assign(targets=[copy.deepcopy(target)], value=st.value)
                out.append(ast.copy_location(a, st))
            elif isinstance(st, ast.If):
                st.body = Normaliser._returns_to_assign(st.body, target)
                st.orelse = Normaliser._returns_to_assign(st.orelse, target)
                out.append(st)
            else:
                out.append(st)
        return out

    def _callable_helpers(self):
        """name -> (kind, fn) for private, non-anchor helpers defined exactly once: methods ('m') and module-level functions ('f')"""
        out = {}
        for name in list(self.defs):
            el = self.eligible_helper(name)
            if el is not None:
                out[name] = ('m', el[1])
        counts = {}
        for rel, tree in self.trees.items():
            for n in tree.body:
                if isinstance(n, ast.FunctionDef):
                    counts.setdefault(n.name, []).append(n)
        for name, fns in counts.items():
            if len(fns) == 1 and is_private(name) and name not in self.vocab and name not in out and name not in self.defs and not fns[0].decorator_list:
                out[name] = ('f', fns[0])
        return out

    def n18_inline_structured_returns(self):
        """T = self.h(args) / T = h(args)  ->  the body of h with every `return E` turned into `T = E`; h is private, defined once, its returns are
        all in tail position of an if/else tree (after N15), no loops around them, not a generator"""
        self.n15_elsify()
        helpers = {}
        for name, (kind, fn) in self._callable_helpers().items():
            b = body_without_doc(fn)
            if not self._returns_structured(b):
                continue
            if any(isinstance(x, (ast.Yield, ast.YieldFrom, ast.Await, ast.Global, ast.Nonlocal, ast.FunctionDef, ast.Lambda, ast.ClassDef)) for s_ in b for x in ast.walk(s_)):
                continue
            if any((isinstance(x, ast.Attribute) and x.attr == name) or (isinstance(x, ast.Name) and x.id == name) for s_ in b for x in ast.walk(s_)):
                continue
            if sum(len(list(ast.walk(s_))) for s_ in b) > 300:
                continue
            helpers[name] = (kind, fn, b)
        if not helpers:
            return
        for rel, tree in self.trees.items():
            for host in list(fn_nodes(tree)):
                self._n18_block(host, host.body, helpers, rel)

    def _n18_block(self, host, body, helpers, rel):
        i = 0
        while i < len(body):
            st = body[i]
            call = st.value if isinstance(st, ast.Assign) and len(st.targets) == 1 and isinstance(st.value, ast.Call) and (
                isinstance(st.targets[0], (ast.Name, ast.Attribute))
                or (isinstance(st.targets[0], ast.Tuple) and all(isinstance(e, ast.Name) for e in st.targets[0].elts))) else None
            name = None
            if call is not None:
                f = call.func
                if isinstance(f, ast.Attribute) and isinstance(f.value, ast.Name) and f.value.id == 'self' and f.attr in helpers and helpers[f.attr][0] == 'm':
                    name = f.attr
                elif isinstance(f, ast.Name) and f.id in helpers and helpers[f.id][0] == 'f':
                    name = f.id
            if name is not None and helpers[name][1] is not host:
                kind, fn, hb = helpers[name]
                static = kind == 'f' or has_decorator(fn, 'staticmethod')
                m = bind_args(fn, call, has_self=not static)
                sn = stored_names(fn)
                if m is not None and all(sn.get(p, 0) == 1 for p in m):
                    host_names = set(stored_names(host)) | {x.id for x in ast.walk(host) if isinstance(x, ast.Name)}
                    new = copy.deepcopy(hb)
                    for x in [y for s_ in new for y in ast.walk(s_)]:
                        if isinstance(x, ast.Name) and x.id in sn and x.id not in m and x.id != 'self' and x.id in host_names:
                            x.id = f'{x.id}__{name.strip("_")}'
                    mapping, temps = {}, []
                    for p_, a in m.items():
                        if isinstance(a, (ast.Constant, ast.Name)) or self.stable_chain(a):
                            mapping[p_] = a
                        else:
                            tn = f'{p_}__{name.strip("_")}'
                            temps.append(ast.copy_location(ast.Assign(targets=[ast.Name(id=tn, ctx=ast.Store())], value=a), st))
                            mapping[p_] = ast.Name(id=tn, ctx=ast.Load())
                    new, _ = substitute(new, mapping)
                    new = temps + self._returns_to_assign(new, st.targets[0])
                    body[i:i + 1] = new
                    self.note('N18', f'{rel}:{host.name}: {name}(...) with structured returns inlined into an assignment')
                    i += len(new)
                    continue
            for sub in self._sub_blocks(st):
                self._n18_block(host, sub, helpers, rel)
            i += 1

    # ---- N13
    def n13_inline_tail_calls(self):
        """`return self.h(args)` as a statement  ->  the body of h (its returns become returns of the caller); h private, not an anchor,
        defined once, not a generator, not recursive"""
        helpers = {}
        for name in list(self.defs):
            el = self.eligible_helper(name)
            if el is None:
                continue
            cls, fn = el
            b = body_without_doc(fn)
            if not b or any(isinstance(x, (ast.Yield, ast.YieldFrom, ast.Await, ast.Global, ast.Nonlocal, ast.FunctionDef, ast.ClassDef))
                            for s in b for x in ast.walk(s)):
                continue
            if any(isinstance(x, ast.Attribute) and x.attr == name for s in b for x in ast.walk(s)):
                continue
            if sum(len(list(ast.walk(s))) for s in b) > 600:
                continue
            helpers[name] = (cls, fn, b)
        if not helpers:
            return
        for rel, tree in self.trees.items():
            for host in list(fn_nodes(tree)):
                self._n13_block(host, host.body, helpers, rel)
        self._drop_unreferenced(helpers)

    def _n13_block(self, host, body, helpers, rel):
        i = 0
        while i < len(body):
            st = body[i]
            # `self.h(...)` as the very last statement of a function whose helper only has bare returns is a tail call too (both return None)
            if isinstance(st, ast.Expr) and isinstance(st.value, ast.Call) and body is host.body and i == len(body) - 1 \
                    and isinstance(st.value.func, ast.Attribute) and st.value.func.attr in helpers \
                    and isinstance(st.value.func.value, ast.Name) and st.value.func.value.id == 'self' \
                    and all(x.value is None for s_ in helpers[st.value.func.attr][2] for x in ast.walk(s_) if isinstance(x, ast.Return)) \
                    and not any(isinstance(x, (ast.Yield, ast.YieldFrom)) for x in ast.walk(host)):
                st = ast.copy_location(ast.Return(value=st.value), st)
            if isinstance(st, ast.Return) and isinstance(st.value, ast.Call) and isinstance(st.value.func, ast.Attribute) \
                    and st.value.func.attr in helpers and isinstance(st.value.func.value, ast.Name) and st.value.func.value.id == 'self':
                name = st.value.func.attr
                cls, fn, hb = helpers[name]
                static = has_decorator(fn, 'staticmethod')
                m = bind_args(fn, st.value, has_self=not static)
                sn = stored_names(fn)
                if host is not fn and m is not None and all(sn.get(p, 0) == 1 for p in m):
                    host_names = set(stored_names(host)) | {x.id for x in ast.walk(host) if isinstance(x, ast.Name)}
                    new = copy.deepcopy(hb)
                    for x in [y for s_ in new for y in ast.walk(s_)]:
                        if isinstance(x, ast.Name) and x.id in sn and x.id not in m and x.id != 'self' and x.id in host_names:
                            x.id = f'{x.id}__{name.strip("_")}'
                    mapping, temps = {}, []
                    for p, a in m.items():
                        if isinstance(a, (ast.Constant, ast.Name)) or self.stable_chain(a):
                            mapping[p] = a
                        else:
                            tn = f'{p}__{name.strip("_")}'
                            temps.append(ast.copy_location(ast.Assign(targets=[ast.Name(id=tn, ctx=ast.Store())], value=a), st))
                            mapping[p] = ast.Name(id=tn, ctx=ast.Load())
                    new, _ = substitute(new, mapping)
                    new = temps + new
                    # a helper that falls off its end returns None
                    if not isinstance(new[-1], (ast.Return, ast.Raise)):
                        new.append(ast.copy_location(ast.Return(value=None), st))
                    body[i:i + 1] = new
                    self.note('N13', f'{rel}:{host.name}: tail call of {name} inlined')
                    i += len(new)
                    continue
            for sub in self._sub_blocks(st):
                self._n13_block(host, sub, helpers, rel)
            i += 1

    # ---- N8
    def n8_inline_procedures(self):
        helpers = {}
        for name in list(self.defs):
            el = self.eligible_helper(name)
            if el is None:
                continue
            cls, fn = el
            b = body_without_doc(fn)
            if not b:
                continue
            if isinstance(b[-1], ast.Return) and b[-1].value is None:
                b = b[:-1]
            if not b:
                continue
            if any(isinstance(x, (ast.Return, ast.Yield, ast.YieldFrom, ast.Await, ast.Global, ast.Nonlocal, ast.FunctionDef, ast.Lambda, ast.ClassDef))
                   for s in b for x in ast.walk(s)):
                continue
            if any(isinstance(x, ast.Attribute) and x.attr == name for s in b for x in ast.walk(s)):
                continue
            if sum(len(list(ast.walk(s))) for s in b) > 400:
                continue
            helpers[name] = (cls, fn, b)
        modhelpers = self._module_procedures()
        if not helpers and not modhelpers:
            return
        for rel, tree in self.trees.items():
            for fn in list(fn_nodes(tree)):
                self._n8_block(fn, fn.body, helpers, rel)
                if modhelpers:
                    self._n8_mod_block(fn, fn.body, modhelpers, rel)
        self._drop_unreferenced(helpers)

    def _module_procedures(self):
        """private module-level functions without return value, defined once in the package and only ever called by bare name"""
        cands = {}
        counts = {}
        for rel, tree in self.trees.items():
            for n in tree.body:
                if isinstance(n, ast.FunctionDef):
                    counts[n.name] = counts.get(n.name, 0) + 1
                    cands[n.name] = (rel, tree, n)
        out = {}
        for name, (rel, tree, fn) in cands.items():
            if counts[name] != 1 or not is_private(name) or name in self.vocab or fn.decorator_list:
                continue
            b = body_without_doc(fn)
            if not b or any(isinstance(x, (ast.Return, ast.Yield, ast.YieldFrom, ast.Await, ast.Global, ast.Nonlocal, ast.FunctionDef, ast.Lambda, ast.ClassDef))
                            for s_ in b for x in ast.walk(s_)):
                continue
            if any(isinstance(x, ast.Name) and x.id == name for s_ in b for x in ast.walk(s_)):
                continue
            out[name] = (rel, fn, b)
        return out

    def _n8_mod_block(self, host, body, helpers, rel):
        i = 0
        while i < len(body):
            st = body[i]
            if isinstance(st, ast.Expr) and isinstance(st.value, ast.Call) and isinstance(st.value.func, ast.Name) and st.value.func.id in helpers \
                    and host is not helpers[st.value.func.id][1]:
                name = st.value.func.id
                _, fn, hb = helpers[name]
                m = bind_args(fn, st.value, has_self=False)
                sn = stored_names(fn)
                if m is not None and all(sn.get(p, 0) == 1 for p in m) and all(isinstance(a, (ast.Constant, ast.Name)) or self.stable_chain(a) for a in m.values()):
                    host_names = set(stored_names(host)) | {x.id for x in ast.walk(host) if isinstance(x, ast.Name)}
                    new = copy.deepcopy(hb)
                    for x in [y for s_ in new for y in ast.walk(s_)]:
                        if isinstance(x, ast.Name) and x.id in sn and x.id not in m and x.id in host_names:
                            x.id = f'{x.id}__{name.strip("_")}'
                    new, _ = substitute(new, dict(m))
                    body[i:i + 1] = new
                    self.note('N8', f'{rel}:{host.name}: module-level procedure {name} inlined')
                    i += len(new)
                    continue
            for sub in self._sub_blocks(st):
                self._n8_mod_block(host, sub, helpers, rel)
            i += 1

    def _n8_block(self, host, body, helpers, rel):
        i = 0
        while i < len(body):
            st = body[i]
            rep = None
            if isinstance(st, ast.Expr) and isinstance(st.value, ast.Call) and isinstance(st.value.func, ast.Attribute) \
                    and st.value.func.attr in helpers:
                name = st.value.func.attr
                cls, fn, hb = helpers[name]
                recv = st.value.func.value
                static = has_decorator(fn, 'staticmethod')
                ok_recv = (isinstance(recv, ast.Name) and recv.id == 'self') or self.stable_chain(recv) or (static and isinstance(recv, ast.Name) and recv.id == cls.name)
                if ok_recv and host is not fn:
                    m = bind_args(fn, st.value, has_self=not static)
                    sn = stored_names(fn)
                    if m is not None and all(sn.get(p, 0) == 1 for p in m):
                        host_names = set(stored_names(host)) | {x.id for x in ast.walk(host) if isinstance(x, ast.Name)}
                        locals_ = [n for n in sn if n not in m and n != 'self']
                        ren = {n: ast.Name(id=f'{n}__{name.strip("_")}' if n in host_names else n, ctx=ast.Load()) for n in locals_}
                        new = copy.deepcopy(hb)
                        # rename the helper's locals (loads and stores) when they clash with the host
                        for x in [y for s in new for y in ast.walk(s)]:
                            if isinstance(x, ast.Name) and x.id in ren:
                                x.id = ren[x.id].id
                        mapping = {}
                        temps = []
                        for p, a in m.items():      # arguments are evaluated once, before the body, in order
                            if isinstance(a, (ast.Constant, ast.Name)) or self.stable_chain(a):
                                mapping[p] = a
                            else:
                                tn = f'{p}__{name.strip("_")}'
                                temps.append(ast.copy_location(ast.Assign(targets=[ast.Name(id=tn, ctx=ast.Store())], value=a), st))
                                mapping[p] = ast.Name(id=tn, ctx=ast.Load())
                        if not (isinstance(recv, ast.Name) and recv.id == 'self') and not static:
                            mapping['self'] = recv
                        new, _ = substitute(new, mapping)
                        new = temps + new
                        for s in new:
                            for x in ast.walk(s):
                                if isinstance(x, (ast.stmt, ast.expr)) and not hasattr(x, 'lineno'):
                                    ast.copy_location(x, st)
                        rep = new
                        self.note('N8', f'{rel}:{host.name}: procedure helper {name} inlined')
            if rep is not None:
                body[i:i + 1] = rep
                i += len(rep)
                continue
            for sub in self._sub_blocks(st):
                self._n8_block(host, sub, helpers, rel)
            i += 1

    @staticmethod
    def _uses(stmts, name) -> int:
        return sum(1 for s in stmts for x in ast.walk(s) if isinstance(x, ast.Name) and x.id == name and isinstance(x.ctx, ast.Load))


class _InlineExpr(ast.NodeTransformer):
    def __init__(self, nz: Normaliser, helpers, rel):
        self.nz = nz
        self.helpers = helpers
        self.rel = rel
        self.cur_fn = []

    def visit_FunctionDef(self, node):
        self.cur_fn.append(node)
        self.generic_visit(node)
        self.cur_fn.pop()
        return node

    def visit_Call(self, node):
        self.generic_visit(node)
        f = node.func
        if not (isinstance(f, ast.Attribute) and f.attr in self.helpers):
            return node
        cls, fn, expr = self.helpers[f.attr]
        if self.cur_fn and self.cur_fn[-1] is fn:
            return node
        static = has_decorator(fn, 'staticmethod')
        recv = f.value
        self_recv = isinstance(recv, ast.Name) and recv.id == 'self'
        if not (self_recv or self.nz.stable_chain(recv) or (static and isinstance(recv, ast.Name) and recv.id == cls.name)):
            return node
        m = bind_args(fn, node, has_self=not static)
        if m is None:
            return node
        sn = stored_names(fn)
        if any(sn.get(p, 0) != 1 for p in m):
            return node
        uses = {p: sum(1 for x in ast.walk(expr) if isinstance(x, ast.Name) and x.id == p) for p in m}
        if not all(is_simple_expr(a) or uses[p] <= 1 for p, a in m.items()):
            return node
        # generator-expression variables of the helper must not capture names of the arguments
        bound = {x.id for x in ast.walk(expr) if isinstance(x, ast.Name) and isinstance(x.ctx, ast.Store)}
        argnames = {x.id for a in m.values() for x in ast.walk(a) if isinstance(x, ast.Name)}
        if bound & argnames:
            return node
        mapping = dict(m)
        if not self_recv and not static:
            mapping['self'] = recv
        new, _ = substitute([copy.deepcopy(expr)], mapping)
        new = new[0]
        for x in ast.walk(new):
            if isinstance(x, (ast.expr,)):
                x.lineno, x.col_offset = node.lineno, node.col_offset
                x.end_lineno, x.end_col_offset = getattr(node, 'end_lineno', node.lineno), getattr(node, 'end_col_offset', node.col_offset)
        self.nz.note('N4', f'{self.rel}: call of expression helper {f.attr} inlined')
        return new


class _CopyProp:
    """forward walk: substitutes uses of `name` while the copied expression is certainly still current"""
    PURE = PURE_BUILTINS | {'next'} - {'next'}

    def __init__(self, name, expr, reads):
        self.name, self.expr, self.reads = name, expr, reads
        self.subtexts = {ast.unparse(x) for x in ast.walk(expr) if isinstance(x, (ast.Subscript, ast.Attribute))}
        self.reads_container = any(isinstance(x, ast.Subscript) for x in ast.walk(expr))
        self.count = 0
        self.left = 0       # uses that could not be replaced

    def _uses(self, node):
        return sum(1 for x in ast.walk(node) if isinstance(x, ast.Name) and x.id == self.name and isinstance(x.ctx, ast.Load))

    def _dirties(self, node) -> bool:
        if not self.reads:
            return False        # the copy reads only locals that are bound once: nothing can invalidate it
        for x in ast.walk(node):
            if isinstance(x, (ast.Yield, ast.YieldFrom, ast.Await)):
                return True
            if isinstance(x, ast.Call) and not (isinstance(x.func, ast.Name) and x.func.id in PURE_BUILTINS):
                return True
            if isinstance(x, ast.Attribute) and isinstance(x.ctx, (ast.Store, ast.Del)) and x.attr in self.reads:
                return True
            if isinstance(x, ast.Subscript) and isinstance(x.ctx, (ast.Store, ast.Del)):
                base = x.value
                while isinstance(base, ast.Subscript):
                    base = base.value
                # the copy denotes an object (or a value read from a container); it is invalidated by a store to a location it reads,
                # i.e. one whose text is a sub-expression of the copied expression - not by a store *into* the object it denotes
                if isinstance(base, ast.Attribute) and base.attr in self.reads and ast.unparse(x) in self.subtexts:
                    return True
                if isinstance(base, ast.Name) and base.id != self.name and self.reads_container:
                    return True         # a store through another local that may alias a container the copy reads from
        return False

    def _sub(self, node):
        sb = Subst({self.name: self.expr})
        new = sb.visit(node)
        self.count += sb.count
        return new

    def expr_in(self, holder, field, dirty):
        e = getattr(holder, field)
        if e is None:
            return dirty
        if dirty:
            self.left += self._uses(e)
        else:
            setattr(holder, field, self._sub(e))
        return dirty or self._dirties(e)

    def block(self, stmts, dirty):
        for k, st in enumerate(stmts):
            dirty = self.stmt(stmts, k, dirty)
        return dirty

    def stmt(self, stmts, k, dirty):
        st = stmts[k]
        if isinstance(st, ast.If):
            d0 = self.expr_in(st, 'test', dirty)
            d1 = self.block(st.body, d0)
            d2 = self.block(st.orelse, d0)
            t1 = bool(st.body) and isinstance(st.body[-1], (ast.Return, ast.Raise, ast.Continue, ast.Break))
            t2 = bool(st.orelse) and isinstance(st.orelse[-1], (ast.Return, ast.Raise, ast.Continue, ast.Break))
            return (d1 and not t1) or (d2 and not t2) or (d0 if (t1 and t2) else False) or d0
        if isinstance(st, (ast.For, ast.While, ast.Try, ast.With, ast.AsyncFor, ast.AsyncWith, ast.FunctionDef, ast.ClassDef)):
            # loops / handlers: only replace when the whole construct cannot dirty the copy
            if dirty or self._dirties(st):
                self.left += self._uses(st)
                return True
            stmts[k] = self._sub(st)
            return False
        # simple statement: operands are evaluated before any call in it completes
        if dirty:
            self.left += self._uses(st)
            return True
        d = self._dirties(st)
        stmts[k] = self._sub(st)
        return d


class _Reflect(ast.NodeTransformer):
    """setattr(x, 'a', v) -> x.a = v (statement) ; getattr(x, 'a') -> x.a ; attrgetter('a') -> lambda e: e.a"""

    def __init__(self, nz, rel):
        self.nz = nz
        self.rel = rel

    def visit_Expr(self, node):
        self.generic_visit(node)
        c = node.value
        if isinstance(c, ast.Call) and isinstance(c.func, ast.Name) and c.func.id == 'setattr' and len(c.args) == 3 and not c.keywords \
                and isinstance(c.args[1], ast.Constant) and isinstance(c.args[1].value, str) and c.args[1].value.isidentifier() \
                and not (c.args[1].value.startswith('__') and not c.args[1].value.endswith('__')):
            new = ast.Assign(targets=[ast.Attribute(value=c.args[0], attr=c.args[1].value, ctx=ast.Store())], value=c.args[2])
            ast.copy_location(new, node)
            ast.copy_location(new.targets[0], node)
            self.nz.note('N9', f'{self.rel}: setattr(…, {c.args[1].value!r}, …) -> attribute assignment')
            return new
        return node

    def visit_JoinedStr(self, node):
        self.generic_visit(node)
        parts = []
        for v in node.values:
            if isinstance(v, ast.Constant) and isinstance(v.value, str):
                parts.append(v.value)
            elif isinstance(v, ast.FormattedValue) and v.conversion == -1 and v.format_spec is None and isinstance(v.value, ast.Constant) \
                    and isinstance(v.value.value, str):
                parts.append(v.value.value)
            else:
                return node
        self.nz.note('N12', f'{self.rel}: constant f-string folded')
        return ast.copy_location(ast.Constant(value=''.join(parts)), node)

    def visit_Call(self, node):
        self.generic_visit(node)
        f = node.func
        if isinstance(f, ast.Name) and f.id == 'getattr' and len(node.args) == 2 and not node.keywords \
                and isinstance(node.args[1], ast.Constant) and isinstance(node.args[1].value, str) and node.args[1].value.isidentifier() \
                and not (node.args[1].value.startswith('__') and not node.args[1].value.endswith('__')):
            new = ast.Attribute(value=node.args[0], attr=node.args[1].value, ctx=ast.Load())
            self.nz.note('N9', f'{self.rel}: getattr(…, {node.args[1].value!r}) -> attribute load')
            return ast.copy_location(new, node)
        if ((isinstance(f, ast.Name) and f.id == 'attrgetter') or (isinstance(f, ast.Attribute) and f.attr == 'attrgetter')) and len(node.args) == 1 \
                and not node.keywords and isinstance(node.args[0], ast.Constant) and isinstance(node.args[0].value, str) and node.args[0].value.isidentifier():
            lam = ast.Lambda(args=ast.arguments(posonlyargs=[], args=[ast.arg(arg='e')], kwonlyargs=[], kw_defaults=[], defaults=[]),
                             body=ast.Attribute(value=ast.Name(id='e', ctx=ast.Load()), attr=node.args[0].value, ctx=ast.Load()))
            for x in ast.walk(lam):
                ast.copy_location(x, node)
            self.nz.note('N9', f"{self.rel}: attrgetter({node.args[0].value!r}) -> lambda e: e.{node.args[0].value}")
            return lam
        return node


def normalise(trees: Dict[str, ast.Module]) -> Normaliser:
    from . import flatten, desugar
    flog: List[str] = []
    dstats = desugar.desugar(trees, flog)
    fstats = flatten.flatten(trees, anchor_vocabulary(), flog)
    for k, v in dstats.items():
        if v:
            fstats['desugar_' + k] = v
    nrec = flatten.records_to_tuples(trees, flog)
    if nrec:
        fstats['records_to_tuples'] = nrec
    nz = Normaliser(trees)
    for k, v in fstats.items():
        if v:
            nz.stats['N0_' + k] = v
    nz.log.extend(flog[:40])
    return nz.run()
