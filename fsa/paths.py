"""Path summaries: a path-sensitive effect analysis over the AST (no execution, no solver).

For a function the explorer enumerates its paths and gives each a summary: the ordered list of
*events* (list operations on tracked lists with symbolic operands, conditions with polarity and
linear normal form, look-ups, protocol calls, yields, spawns, raises, attribute writes ...), the
return value and the terminal status.  Values are symbolic.  Same-class helper methods are inlined;
loops are unrolled a bounded number of times (process loops `while True` exactly once, ending the
path at the back-edge); conditions already decided on the path - syntactically or by linear
implication from the conditions of the same atomic segment - are not re-decided.
"""
from __future__ import annotations

import ast
import re
import itertools
from typing import Callable, Dict, List, Optional, Set, Tuple

from . import lin
from .model import AnalysisError, FuncInfo, Project, self_attr

MUT = {'append': +1, 'insert': +1, 'pop': -1, 'remove': -1}
DEFAULT_UNROLL = 2          # inner-loop unrolling bound of the shared walks (the thorough tier uses 3)
NONE = ('const', None)
RAISE = ('raise',)
SNAP_KINDS = {'loophead', 'op', 'yield', 'call', 'return', 'backedge', 'loopcut', 'raise', 'spawn', 'pcall', 'succeed', 'cond', 'enter', 'leave'}


class Ev:
    """One event of a path summary."""
    __slots__ = ('kind', 'line', 'fn', 'fi', 'epoch', 'd')

    def __init__(self, kind, line, fi, epoch, **kw):
        self.kind = kind
        self.line = line
        self.fi = fi
        self.fn = fi.qual if fi is not None else '?'
        self.epoch = epoch
        self.d = kw

    def __getattr__(self, k):
        try:
            return self.d[k]
        except KeyError:
            raise AttributeError(k)

    def __repr__(self):
        inner = ', '.join(f'{k}={_short(v)}' for k, v in self.d.items() if k not in ('node', 'delta', 'atoms'))
        return f'{self.kind}@{self.line}[{self.fn}]({inner})'


def _short(v):
    s = repr(v)
    return s if len(s) < 60 else s[:57] + '...'


class St:
    __slots__ = ('env', 'facts', 'events', 'delta', 'ver', 'epoch', 'ret', 'frames', 'triggered', 'locallen', 'notnone', 'gen')

    def __init__(self):
        self.env: Dict[str, tuple] = {}
        self.facts: Dict[str, bool] = {}
        self.events: List[Ev] = []
        self.delta: Dict[str, int] = {}
        self.ver: Dict[str, int] = {}
        self.epoch = 0
        self.ret = NONE
        self.frames: List[FuncInfo] = []
        self.triggered: Set[tuple] = set()
        self.locallen: Dict[str, lin.Lin] = {}
        self.notnone: Set[str] = set()
        self.gen: Dict[str, int] = {}

    def clone(self):
        s = St()
        s.env = dict(self.env)
        s.facts = dict(self.facts)
        s.events = list(self.events)
        s.delta = dict(self.delta)
        s.ver = dict(self.ver)
        s.epoch = self.epoch
        s.ret = self.ret
        s.frames = list(self.frames)
        s.triggered = set(self.triggered)
        s.locallen = dict(self.locallen)
        s.notnone = set(self.notnone)
        s.gen = dict(self.gen)
        return s


class Path:
    __slots__ = ('status', 'st', 'root')

    def __init__(self, status, st, root):
        self.status = status
        self.st = st
        self.root = root

    @property
    def events(self):
        return self.st.events

    @property
    def raises(self):
        return isinstance(self.status, tuple) and self.status[0] == 'raise'

    def describe(self, maxn=12):
        out = []
        for e in self.events:
            if e.kind == 'cond':
                out.append(f'{"" if e.polarity else "not "}({e.text})@{e.line}')
            elif e.kind == 'op':
                out.append(f'{e.list}.{e.op}@{e.line}')
            elif e.kind in ('call', 'pcall'):
                out.append(f'{e.name}()@{e.line}')
            elif e.kind == 'yield':
                out.append(f'yield@{e.line}')
            elif e.kind == 'raise':
                out.append(f'raise {e.exc}@{e.line}')
        if len(out) > maxn:
            out = out[:maxn // 2] + ['…'] + out[-maxn // 2:]
        return out + [f'<{self.status if isinstance(self.status, str) else "raise " + self.status[1]}>']


DEFAULT_CONFIG_ATTRS = ('self.blocking', 'self.out_edge_selection', 'self.in_edge_selection', 'self.flow_item_type',
                        'self.mode', 'self.accumulating', 'self.accumulation_mode_indicator', '__class__.__name__',
                        'self.work_capacity')

_uid = itertools.count(1)


def chain_root_is_self(n) -> bool:
    while isinstance(n, (ast.Attribute, ast.Subscript)):
        n = n.value
    return isinstance(n, ast.Name) and n.id == 'self'


def fresh(tag):
    return ('sym', tag, next(_uid))


class Explorer:
    def __init__(self, project: Project, cls_key, *, tracked: Set[str], atomic: Set[str] = frozenset(),
                 proto: Set[str] = frozenset(), depth: int = 4, unroll: int = 2, budget: int = 50000,
                 config_attrs=DEFAULT_CONFIG_ATTRS, relevant: Optional[Callable[[ast.AST], bool]] = None,
                 never_inline: Set[str] = frozenset(), process_loop_once: bool = True,
                 interrupt_edges: bool = True, assume: Optional[Callable] = None, track_attrs: bool = False,
                 stmt_hook: Optional[Callable] = None, recv: str = 'self', split_bool_returns: bool = False,
                 item_lists=('items', 'ready_items', 'reserved_items')):
        self.p = project
        # lists whose elements are caller-supplied objects: nothing is known about their truth value (0, '' and [] are legal items)
        self.item_lists = set(item_lists)
        self.cls_key = cls_key
        self.methods = project.methods(cls_key) if cls_key else {}
        self.tracked = set(tracked)
        self.atomic = set(atomic)
        self.proto = set(proto)
        self.depth = depth
        self.unroll = unroll
        self.budget = budget
        self.config_attrs = tuple(config_attrs)
        self.relevant = relevant
        self.never_inline = set(never_inline)
        self.process_loop_once = process_loop_once
        self.interrupt_edges = interrupt_edges
        self.assume = assume
        self.track_attrs = track_attrs
        self.stmt_hook = stmt_hook
        self.recv = recv
        self.split_bool_returns = split_bool_returns
        self._modsum: Dict[str, Set[str]] = {}
        self.vdeps: Dict[int, tuple] = {}      # uid of an opaque value -> the values its expression read
        self.npaths = 0
        self.handlers: List[Set[str]] = []
        self.root: Optional[FuncInfo] = None

    # ------------------------------------------------------------------ helpers
    def emit(self, st: St, kind, at, **kw):
        fi = st.frames[-1] if st.frames else None
        e = Ev(kind, getattr(at, 'lineno', 0), fi, st.epoch, **kw)
        if kind in SNAP_KINDS:
            e.d['g'] = dict(st.gen)
            e.d['dl'] = dict(st.delta)
        st.events.append(e)
        return e

    # ---- list-length variables: one variable per (list, generation); a generation ends at every
    #      suspension point and at every call that may modify the list behind the analysis' back.
    def var(self, L: str, st: St) -> str:
        g = st.gen.get(L, 0)
        return L if g == 0 else f'{L}@{g}'

    def len_lin(self, L: str, st: St) -> lin.Lin:
        return lin.ladd(lin.lvar(self.var(L, st)), lin.lconst(st.delta.get(L, 0)))

    def lenvar_fn(self, st: St):
        def f(attr):
            if attr in self.tracked:
                return self.len_lin(attr, st)
            return None
        return f

    def havoc_lists(self, st: St, lists):
        for L in lists:
            st.gen[L] = st.gen.get(L, 0) + 1
            st.delta.pop(L, None)
            st.ver[L] = st.ver.get(L, 0) + 1

    def modsum(self, name: str) -> Set[str]:
        """Tracked lists a same-class method may modify (flow-insensitive, transitive over self-calls)."""
        if name in self._modsum:
            return self._modsum[name]
        self._modsum[name] = set(self.tracked)      # recursion guard: conservative
        fi = self.methods.get(name)
        if fi is None:
            return self._modsum[name]
        out: Set[str] = set()
        for n in ast.walk(fi.node):
            if isinstance(n, ast.Call) and isinstance(n.func, ast.Attribute):
                L = self.tracked_list(n.func.value)
                if L is not None and n.func.attr not in ('index', 'count', 'copy'):
                    out.add(L)
                elif isinstance(n.func.value, ast.Name) and n.func.value.id == 'self' and n.func.attr in self.methods \
                        and n.func.attr != name:
                    out |= self.modsum(n.func.attr)
                elif isinstance(n.func.value, ast.Call) and isinstance(n.func.value.func, ast.Name) and n.func.value.func.id == 'super':
                    out |= set(self.tracked)
            elif isinstance(n, (ast.Assign, ast.AugAssign, ast.Delete)):
                tg = n.targets if isinstance(n, (ast.Assign, ast.Delete)) else [n.target]
                for t in tg:
                    base = t.value if isinstance(t, ast.Subscript) else t
                    L = self.tracked_list(base)
                    if L is not None:
                        out.add(L)
        self._modsum[name] = out
        return out

    def do_assume(self, st: St, at, why):
        if self.assume is None:
            return
        atoms = self.assume(self, st)
        if atoms:
            self.emit(st, 'cond', at, node=None, text=f'<assume invariant: {why}>', polarity=True, atoms=atoms, synthetic=True)

    def tracked_list(self, node) -> Optional[str]:
        if self.recv == 'self':
            a = self_attr(node)
            return a if a in self.tracked else None
        if isinstance(node, ast.Attribute) and node.attr in self.tracked and ast.unparse(node.value) == self.recv:
            return node.attr
        return None

    def lin_env(self, st: St):  # noqa
        env = {}
        for k, v in st.env.items():
            if v[0] == 'lin':
                env[k] = dict(v[1])
            elif v[0] == 'const' and isinstance(v[1], int) and not isinstance(v[1], bool):
                env[k] = lin.lconst(v[1])
        for k, v in st.locallen.items():
            env['len:' + k] = dict(v)
        return env

    def try_lin(self, node, st: St) -> Optional[lin.Lin]:
        try:
            return lin.linexpr(node, self.lin_env(st), self.recv, None, lenvar=self.lenvar_fn(st))
        except lin.NonLinear:
            return None

    def invalidate(self, st: St, text: str):
        """forget the facts that mention `text` as a whole name / attribute chain (not as a substring of a longer identifier)"""
        if not st.facts:
            return
        pat = re.compile(r'(?<![\w.])' + re.escape(text) + r'(?!\w)') if not text.startswith('.') else re.compile(re.escape(text) + r'(?!\w)')
        for k in [k for k in st.facts if pat.search(k)]:
            del st.facts[k]

    def on_unknown_effect(self, st: St):
        for k in [k for k in st.facts if ('.triggered' in k or 'self.' in k) and not any(c in k for c in self.config_attrs)]:
            del st.facts[k]

    def on_yield(self, st: St):
        for k in [k for k in st.facts if not any(c in k for c in self.config_attrs)]:
            del st.facts[k]
        st.epoch += 1
        self.havoc_lists(st, self.tracked)
        st.delta = {}

    def path_atoms(self, st: St) -> List[lin.Atom]:
        out = []
        for e in st.events:
            if e.kind in ('cond', 'assert') and e.atoms:
                out.extend(e.atoms)
        return out

    # ------------------------------------------------------------------ expressions
    def ev(self, node, st: St):
        """Evaluate an expression -> list of (value, state).  The input state is consumed."""
        if isinstance(node, ast.Constant):
            return [(('const', node.value), st)]
        if isinstance(node, ast.Name):
            if node.id in st.env:
                return [(st.env[node.id], st)]
            return [(('name', node.id), st)]
        if isinstance(node, ast.Call):
            return self.call(node, st)
        if isinstance(node, (ast.Yield, ast.YieldFrom)):
            return self.do_yield(node, st)
        if isinstance(node, ast.Await):
            return self.ev(node.value, st)
        if isinstance(node, ast.Tuple):
            outs = [([], st)]
            for el in node.elts:
                nxt = []
                for vals, s in outs:
                    for v, s2 in self.ev(el, s):
                        if v == RAISE:
                            nxt.append((RAISE, s2))
                        else:
                            nxt.append((vals + [v], s2))
                outs = [(a, b) for a, b in nxt]
            res = []
            for vals, s in outs:
                res.append((RAISE, s) if vals == RAISE else (('tuple', tuple(vals)), s))
            return res
        if isinstance(node, ast.Subscript):
            if self.track_attrs and isinstance(node.slice, ast.Constant) and ('cell:' + ast.unparse(node)) in st.env:
                return [(st.env['cell:' + ast.unparse(node)], st)]
            L = self.tracked_list(node.value)
            if L is not None:
                res = []
                for iv, s in self.ev(node.slice, st):
                    if iv == RAISE:
                        res.append((RAISE, s))
                        continue
                    res.append((('elem', L, self.idx_key(iv), s.ver.get(L, 0)), s))
                return res
            res = []
            for bv, s in self.ev(node.value, st):
                if bv == RAISE:
                    res.append((RAISE, s))
                    continue
                for iv, s2 in self.ev(node.slice, s):
                    if iv == RAISE:
                        res.append((RAISE, s2))
                    elif iv[0] == 'lindex' and iv[1] == ast.unparse(node.value) and bv[0] in ('locallist', 'tokenlist'):
                        res.append((iv[2], s2))         # L[L.index(x)] is x
                    elif bv[0] == 'tuple' and iv[0] == 'const' and isinstance(iv[1], int) and -len(bv[1]) <= iv[1] < len(bv[1]):
                        res.append((bv[1][iv[1]], s2))
                    else:
                        res.append((('sub', bv, self.idx_key(iv)), s2))
            return res
        if isinstance(node, ast.Attribute):
            a = self_attr(node)
            if a is not None:
                if ('self.' + a) in st.env:
                    return [(st.env['self.' + a], st)]
                return [(('self', a), st)]
            if node.attr == 'now' and isinstance(node.value, (ast.Attribute, ast.Name)) and ast.unparse(node.value).split('.')[-1] in ('env', '_env'):
                # the simulation clock: constant inside an atomic segment, one symbol per segment
                return [(('now', st.epoch), st)]
            res = []
            for bv, s in self.ev(node.value, st):
                res.append((RAISE, s) if bv == RAISE else (('attr', bv, node.attr), s))
            return res
        if isinstance(node, (ast.BinOp, ast.UnaryOp)) and not isinstance(getattr(node, 'op', None), ast.Not):
            l = self.try_lin(node, st)
            if l is not None:
                if all(k == '1' for k in l):
                    return [(('const', l.get('1', 0)), st)]
                return [(('lin', lin.norm(l)), st)]
            if isinstance(node, ast.BinOp) and isinstance(node.op, (ast.Mult, ast.Div)) \
                    and not any(isinstance(x, (ast.Call, ast.Yield, ast.YieldFrom)) for x in ast.walk(node)):
                # products / quotients of symbolic reals: a normal form (numerator factors, denominator factors)
                res = []
                for lv, s1 in self.ev(node.left, st):
                    if lv == RAISE:
                        res.append((RAISE, s1))
                        continue
                    for rv, s2 in self.ev(node.right, s1):
                        if rv == RAISE:
                            res.append((RAISE, s2))
                            continue
                        res.append((self.prod_combine(lv, rv, isinstance(node.op, ast.Div)), s2))
                return res
            if isinstance(node, ast.BinOp) and isinstance(node.op, (ast.Add, ast.Sub)) \
                    and not any(isinstance(x, ast.Call) for x in ast.walk(node)):
                # symbolic real-valued arithmetic (times, delays): linear forms over opaque atoms, never used for path pruning
                res = []
                for lv, s1 in self.ev(node.left, st):
                    if lv == RAISE:
                        res.append((RAISE, s1))
                        continue
                    for rv, s2 in self.ev(node.right, s1):
                        if rv == RAISE:
                            res.append((RAISE, s2))
                            continue
                        res.append((self.num_combine(lv, rv, 1 if isinstance(node.op, ast.Add) else -1, node), s2))
                return res
            if isinstance(node, ast.BinOp) and isinstance(node.op, (ast.Add, ast.Sub)) \
                    and any(isinstance(x, ast.Call) for x in ast.walk(node)):
                # operands may be calls of inlinable helpers returning linear forms (e.g. self.occupancy())
                res = []
                for lv, s1 in self.ev(node.left, st):
                    if lv == RAISE:
                        res.append((RAISE, s1))
                        continue
                    for rv, s2 in self.ev(node.right, s1):
                        if rv == RAISE:
                            res.append((RAISE, s2))
                            continue
                        la, lb = self.val_lin(lv), self.val_lin(rv)
                        if la is not None and lb is not None:
                            c = lin.ladd(la, lb, 1 if isinstance(node.op, ast.Add) else -1)
                            res.append(((('const', c.get('1', 0)) if all(k == '1' for k in c) else ('lin', lin.norm(c))), s2))
                        else:
                            res.append((self.num_combine(lv, rv, 1 if isinstance(node.op, ast.Add) else -1, node), s2))
                return res
        if isinstance(node, ast.IfExp):
            res = []
            for b, s in self.cond(node.test, st):
                res += self.ev(node.body if b else node.orelse, s)
            return res
        if isinstance(node, (ast.Compare, ast.BoolOp)) or (isinstance(node, ast.UnaryOp) and isinstance(node.op, ast.Not)):
            # boolean-valued expression used as a value: keep it opaque but evaluate sub-calls
            return self.opaque(node, st)
        if isinstance(node, ast.ListComp):
            return self.listcomp(node, st)
        if isinstance(node, (ast.List,)):
            outs = [([], st)]
            for el in node.elts:
                nxt = []
                for vals, s in outs:
                    for v, s2 in self.ev(el, s):
                        nxt.append((vals + [v], s2))
                outs = nxt
            return [(('list', tuple(v)), s) for v, s in outs]
        return self.opaque(node, st)

    def idx_key(self, v):
        return v

    @staticmethod
    def num_of(v):
        """linear form {atom: coefficient} of a real-valued symbolic value; atoms are the values themselves"""
        if v is None:
            return None
        if v[0] == 'num':
            return dict(v[1])
        if v[0] == 'const':
            if isinstance(v[1], (int, float)) and not isinstance(v[1], bool):
                return {('one',): v[1]} if v[1] != 0 else {}
            return None
        if v[0] in ('lin', 'tuple', 'list', 'locallist', 'tokenlist', 'newevent', 'proc'):
            return None
        return {v: 1}

    @staticmethod
    def prod_of(v):
        if v[0] == 'prod':
            return v[1], list(v[2]), list(v[3])
        if v[0] == 'const' and isinstance(v[1], (int, float)) and not isinstance(v[1], bool):
            return v[1], [], []
        return 1, [v], []

    def prod_combine(self, lv, rv, div):
        ca, na, da = self.prod_of(lv)
        cb, nb, db = self.prod_of(rv)
        if div:
            nb, db = db, nb
            if cb == 0:
                return ('expr', 'division by zero', next(_uid))
            c = ca / cb
        else:
            c = ca * cb
        num, den = list(na) + list(nb), list(da) + list(db)
        for x in list(num):
            if x in den:
                num.remove(x)
                den.remove(x)
        if not num and not den:
            return ('const', c)
        if c == 1 and len(num) == 1 and not den:
            return num[0]
        return ('prod', c, tuple(sorted(num, key=repr)), tuple(sorted(den, key=repr)))

    def num_combine(self, lv, rv, sign, node):
        a, b = self.num_of(lv), self.num_of(rv)
        if a is None or b is None:
            v = ('expr', ast.unparse(node)[:60], next(_uid))
            self.vdeps[v[-1]] = (lv, rv)
            return v
        out = dict(a)
        for k, c in b.items():
            out[k] = out.get(k, 0) + sign * c
            if out[k] == 0:
                del out[k]
        if not out:
            return ('const', 0)
        if set(out) == {('one',)}:
            return ('const', out[('one',)])
        return ('num', tuple(sorted(out.items(), key=repr)))

    def val_lin(self, v):
        if v is None:
            return None
        if v[0] == 'lin':
            return dict(v[1])
        if v[0] == 'const' and isinstance(v[1], int) and not isinstance(v[1], bool):
            return lin.lconst(v[1])
        if v[0] == 'self' and v[1] == 'capacity':
            return lin.lvar('cap')
        return None

    def note_deps(self, v, node, st: St, extra=()):
        """remember which values the expression behind the opaque value v read (for dependence questions of the rules)"""
        if v is None or v[0] not in ('expr', 'callres') or not isinstance(v[-1], int):
            return
        deps = list(extra)
        for x in ast.walk(node):
            if isinstance(x, (ast.Name, ast.Attribute, ast.Subscript)) and isinstance(getattr(x, 'ctx', None), ast.Load):
                try:
                    pv = self.pure_value(x, st)
                except Exception:
                    pv = None
                if pv is not None and pv[0] != 'name':
                    deps.append(pv)
        self.vdeps[v[-1]] = tuple(deps)

    def reads_of(self, node, st: St):
        """the values read by the loads of an expression (names, attribute chains, subscripts)"""
        out = []
        for x in ast.walk(node):
            if isinstance(x, (ast.Name, ast.Attribute, ast.Subscript)) and isinstance(getattr(x, 'ctx', None), ast.Load):
                try:
                    pv = self.pure_value(x, st)
                except Exception:
                    pv = None
                if pv is not None and pv[0] != 'name':
                    out.append(pv)
        return tuple(out)

    def dep_closure(self, v, seen=None):
        """all atoms a value (transitively, through opaque expressions) depends on"""
        seen = seen if seen is not None else set()
        out = []
        stack = [v]
        while stack:
            x = stack.pop()
            if not isinstance(x, tuple) or id(x) in seen:
                continue
            seen.add(id(x))
            out.append(x)
            if x and x[0] in ('expr', 'callres') and isinstance(x[-1], int) and x[-1] in self.vdeps:
                stack.extend(self.vdeps[x[-1]])
            for y in x:
                if isinstance(y, tuple):
                    stack.append(y)
        return out

    def opaque(self, node, st: St):
        """Evaluate nested calls / yields for their effects, return an opaque value."""
        res = self._opaque(node, st)
        for v, s in res:
            if v != RAISE:
                self.note_deps(v, node, s)
        return res

    def _opaque(self, node, st: St):
        outs = [st]
        for sub in ast.iter_child_nodes(node):
            if isinstance(sub, ast.expr) and not isinstance(sub, (ast.GeneratorExp, ast.Lambda, ast.JoinedStr, ast.DictComp, ast.SetComp)) \
                    and any(isinstance(x, (ast.Call, ast.Yield, ast.YieldFrom)) for x in ast.walk(sub)):
                nxt = []
                for s in outs:
                    for v, s2 in self.ev(sub, s):
                        if v == RAISE:
                            nxt.append(('R', s2))
                        else:
                            nxt.append(s2)
                outs2 = []
                raised = []
                for x in nxt:
                    if isinstance(x, tuple):
                        raised.append(x[1])
                    else:
                        outs2.append(x)
                outs = outs2
                if raised:
                    return [(RAISE, r) for r in raised] + [(('expr', ast.unparse(node)[:60], next(_uid)), s) for s in outs]
        return [(('expr', ast.unparse(node)[:60], next(_uid)), s) for s in outs]

    def listcomp(self, node: ast.ListComp, st: St):
        # [edge.reserve_put() for edge in self.out_edges]  -> protocol call over a list
        for x in ast.walk(node.elt):
            if isinstance(x, ast.Call) and isinstance(x.func, ast.Attribute) and x.func.attr in self.proto:
                uid = next(_uid)
                self.emit(st, 'pcall', node, name=x.func.attr, recv=ast.unparse(x.func.value), recv_val=None, args=(),
                          result=('tokenlist', uid), over=ast.unparse(node.generators[0].iter), node=node)
                self.on_unknown_effect(st)
                return [(('tokenlist', uid), st)]
        return [(('expr', ast.unparse(node)[:60], next(_uid)), st)]

    def do_yield(self, node, st: St):
        res = []
        val_node = node.value
        if isinstance(node, ast.YieldFrom) and isinstance(val_node, ast.Call) and isinstance(val_node.func, ast.Attribute) \
                and isinstance(val_node.func.value, ast.Name) and val_node.func.value.id == 'self':
            name = val_node.func.attr
            fi = self.methods.get(name)
            if fi is not None and fi.is_generator and name not in self.never_inline and name not in self.atomic \
                    and len(st.frames) <= self.depth and not any(fr.name == name for fr in st.frames):
                # delegation to a sub-generator of the same object: its suspension points are suspension points of this process
                return self.inline(fi, val_node, st)
        outs = self.ev(val_node, st) if val_node is not None else [(NONE, st)]
        for v, s in outs:
            if v == RAISE:
                res.append((RAISE, s))
                continue
            e = self.emit(s, 'yield', node, value=v, text=ast.unparse(val_node) if val_node is not None else '',
                          cls=self.classify_yield(val_node), node=node)
            # interrupt edge: taken at the suspension, before the resume effects
            if self.interrupt_edges and any(self.catches(h, 'simpy.Interrupt') for h in self.handlers):
                s_int = s.clone()
                self.on_yield(s_int)
                self.do_assume(s_int, node, 'after interrupt')
                s_int.ret = ('exc', 'simpy.Interrupt')
                res.append((RAISE, s_int))
            self.on_yield(s)
            if isinstance(val_node, (ast.Name, ast.Attribute)):
                s.triggered.add(v)          # a process resumes from `yield ev` only after ev was triggered
            self.do_assume(s, node, 'after resume')
            res.append((('yielded', e.line, next(_uid)), s))
        return res

    @staticmethod
    def classify_yield(n):
        if n is None:
            return 'bare'
        if isinstance(n, ast.Call) and isinstance(n.func, ast.Attribute):
            a = n.func.attr
            if a == 'timeout':
                return 'timeout'
            if a in ('any_of', 'all_of'):
                return a
            if a == 'process':
                return 'process'
            if a in ('request', 'release'):
                return a
        return 'event'

    @staticmethod
    def catches(handler_names: Set[str], exc: str) -> bool:
        if exc.startswith('<'):
            return False            # exploration cut, not an exception
        if '*' in handler_names or 'Exception' in handler_names or 'BaseException' in handler_names:
            return True
        short = exc.split('.')[-1]
        return any(h == exc or h.split('.')[-1] == short for h in handler_names)

    def may_raise(self, st: St, node, exc: str):
        """Fork a raising state when an enclosing handler catches `exc` at an implicitly raising operation."""
        if any(self.catches(h, exc) for h in self.handlers):
            s = st.clone()
            self.emit(s, 'implicit-raise', node, exc=exc)
            s.ret = ('exc', exc)
            return [(RAISE, s)]
        return []

    # ------------------------------------------------------------------ calls
    def eval_args(self, node: ast.Call, st: St):
        outs = [([], st)]
        for a in list(node.args) + [k.value for k in node.keywords]:
            nxt = []
            for vals, s in outs:
                if vals == RAISE:
                    nxt.append((RAISE, s))
                    continue
                if isinstance(a, (ast.GeneratorExp, ast.Lambda, ast.JoinedStr, ast.Starred)):
                    nxt.append((vals + [('expr', ast.unparse(a)[:40], next(_uid))], s))
                    continue
                for v, s2 in self.ev(a, s):
                    nxt.append((RAISE, s2) if v == RAISE else (vals + [v], s2))
            outs = nxt
        return outs

    def call(self, node: ast.Call, st: St):
        f = node.func
        # ---- print / logging: no effect
        if isinstance(f, ast.Name) and f.id == 'print':
            return [(NONE, st)]
        # ---- next(generator-expression, default): look-up
        if isinstance(f, ast.Name) and f.id == 'next' and node.args and isinstance(node.args[0], ast.GeneratorExp):
            return self.lookup(node, st)
        # a bound method handed over as a value (`on_done=entered_event.succeed`) and called through the parameter: the same effect as calling it directly
        if isinstance(f, ast.Name) and not node.args and not node.keywords:
            fv = st.env.get(f.id)
            if isinstance(fv, tuple) and len(fv) == 3 and fv[0] == 'attr' and fv[2] == 'succeed':
                self.emit(st, 'succeed', node, target=f.id, value=fv[1])
                st.triggered.add(fv[1])
                self.invalidate(st, '.triggered')
                return [(NONE, st)]
        if isinstance(f, ast.Name) and f.id == 'len' and len(node.args) == 1:
            l = self.try_lin(node, st)
            if l is not None:
                if all(k == '1' for k in l):
                    return [(('const', l.get('1', 0)), st)]
                return [(('lin', lin.norm(l)), st)]
        if isinstance(f, ast.Attribute):
            L = self.tracked_list(f.value)
            if L is not None:
                return self.list_op(node, L, f.attr, st)
            # local list ops (token lists)
            if isinstance(f.value, ast.Name) and f.attr in ('append', 'pop', 'remove', 'index', 'insert') \
                    and st.env.get(f.value.id, ('?',))[0] in ('locallist', 'tokenlist'):
                return self.local_list_op(node, f.value.id, f.attr, st)
            if self_attr(f.value) is not None and f.attr in ('append', 'pop', 'remove', 'index', 'insert') \
                    and st.env.get('self.' + f.value.attr, ('?',))[0] in ('locallist', 'tokenlist'):
                return self.local_list_op(node, 'self.' + f.value.attr, f.attr, st)
            # super().m(...)
            if isinstance(f.value, ast.Call) and isinstance(f.value.func, ast.Name) and f.value.func.id == 'super':
                cur = st.frames[-1]
                target = self.p.super_method((cur.module, cur.cls), f.attr) if cur.cls else None
                if target is not None and len(st.frames) < self.depth + 1:
                    return self.inline(target, node, st)
                res = []
                for vals, s in self.eval_args(node, st):
                    if vals == RAISE:
                        res.append((RAISE, s))
                        continue
                    self.emit(s, 'call', node, name='super().' + f.attr, args=tuple(vals), resolved=False)
                    res.append((fresh('super.' + f.attr), s))
                return res
            # self.m(...)
            if isinstance(f.value, ast.Name) and f.value.id == 'self':
                name = f.attr
                if name in self.methods and name not in self.atomic and name not in self.never_inline \
                        and not self.methods[name].is_generator:
                    rec = sum(1 for fr in st.frames if fr.name == name)
                    if len(st.frames) <= self.depth and rec < 1:
                        return self.inline(self.methods[name], node, st)
                res = []
                for vals, s in self.eval_args(node, st):
                    if vals == RAISE:
                        res.append((RAISE, s))
                        continue
                    callv = fresh('call:' + name)
                    self.emit(s, 'call', node, name=name, args=tuple(vals), resolved=name in self.methods, node=node, result=callv)
                    mods = self.modsum(name) if name in self.methods else set(self.tracked)
                    if mods or name not in self.atomic:
                        self.on_unknown_effect(s)
                    if mods:
                        self.havoc_lists(s, mods)
                        self.do_assume(s, node, f'after {name}()')
                    res.append((callv, s))
                return res
            if f.attr == 'succeed':
                res = []
                for tv, s in self.ev(f.value, st):
                    if tv == RAISE:
                        res.append((RAISE, s))
                        continue
                    self.emit(s, 'succeed', node, target=ast.unparse(f.value), value=tv)
                    s.triggered.add(tv)
                    self.invalidate(s, '.triggered')
                    res.append((NONE, s))
                return res
            if f.attr == 'interrupt':
                res = []
                for vals, s in self.eval_args(node, st):
                    if vals == RAISE:
                        res.append((RAISE, s))
                        continue
                    self.emit(s, 'interrupt', node, target=ast.unparse(f.value))
                    res.append((NONE, s))
                    res += self.may_raise(s, node, 'RuntimeError')
                return res
            if f.attr == 'process' and node.args and isinstance(node.args[0], ast.Call):
                inner = node.args[0]
                res = []
                for vals, s in self.eval_args(inner, st):
                    if vals == RAISE:
                        res.append((RAISE, s))
                        continue
                    v = ('proc', ast.unparse(inner.func), next(_uid))
                    self.emit(s, 'spawn', node, func=ast.unparse(inner.func), args=tuple(vals), result=v, node=node)
                    res.append((v, s))
                return res
            if f.attr == 'event' and not node.args and ast.unparse(f.value).endswith('env'):
                v = ('newevent', next(_uid))
                return [(v, st)]
            if f.attr in self.proto:
                res = []
                for rv, s in self.ev(f.value, st):
                    if rv == RAISE:
                        res.append((RAISE, s))
                        continue
                    for vals, s2 in self.eval_args(node, s):
                        if vals == RAISE:
                            res.append((RAISE, s2))
                            continue
                        result = ('presult', f.attr, next(_uid))
                        self.emit(s2, 'pcall', node, name=f.attr, recv=ast.unparse(f.value), recv_val=rv,
                                  args=tuple(vals), result=result, over=None, node=node)
                        self.on_unknown_effect(s2)
                        res.append((result, s2))
                return res
            if f.attr == 'sort':
                res = []
                for rv, s in self.ev(f.value, st):
                    self.emit(s, 'sort', node, target=ast.unparse(f.value), node=node)
                    res.append((NONE, s))
                return res
        # ---- generic call: evaluate receiver and args for effects, opaque result
        outs = [st]
        if isinstance(f, ast.Attribute) and any(isinstance(x, (ast.Call, ast.Yield)) for x in ast.walk(f.value)):
            outs = [s for v, s in self.ev(f.value, st) if v != RAISE]
        res = []
        for s0 in outs:
            for vals, s in self.eval_args(node, s0):
                if vals == RAISE:
                    res.append((RAISE, s))
                    continue
                name = ast.unparse(f)
                result = ('callres', name[:40], next(_uid))
                root = f
                while isinstance(root, ast.Attribute):
                    root = root.value
                root_val = s.env.get(root.id) if isinstance(root, ast.Name) else None
                self.emit(s, 'xcall', node, name=name, args=tuple(vals), node=node, result=result, root_val=root_val)
                self.vdeps[result[-1]] = tuple(v for v in vals if isinstance(v, tuple)) + ((root_val,) if root_val else ())
                res.append((result, s))
        return res

    def lookup(self, node: ast.Call, st: St):
        ge = node.args[0]
        gen = ge.generators[0]
        iter_node = gen.iter
        index_var = None
        target = gen.target
        if isinstance(iter_node, ast.Call) and isinstance(iter_node.func, ast.Name) and iter_node.func.id == 'enumerate' and len(iter_node.args) == 1 \
                and isinstance(target, ast.Tuple) and len(target.elts) == 2 and all(isinstance(e, ast.Name) for e in target.elts):
            # next((i for i, t in enumerate(L) if P(t)), None): the look-up of t, answered by its index
            index_var = target.elts[0].id
            target = target.elts[1]
            iter_node = iter_node.args[0]
        src = ast.unparse(iter_node)
        srcL = self.tracked_list(iter_node)
        pred = ' and '.join(ast.unparse(c) for c in gen.ifs)
        var = target.id if isinstance(target, ast.Name) else None
        eqnames = []
        for c in gen.ifs:
            for x in ast.walk(c):
                if isinstance(x, ast.Compare) and len(x.ops) == 1 and isinstance(x.ops[0], ast.Eq):
                    l, r = x.left, x.comparators[0]
                    # (`t == t` - the loop variable shadowing the parameter it was meant to be compared with - compares nothing)
                    if isinstance(l, ast.Name) and l.id == var and isinstance(r, ast.Name) and r.id != var:
                        eqnames.append(r.id)
                    elif isinstance(r, ast.Name) and r.id == var and isinstance(l, ast.Name) and l.id != var:
                        eqnames.append(l.id)
        found = ('found', src, next(_uid), st.env.get(eqnames[0]) if eqnames else None)
        src_val = self.pure_value(iter_node, st)
        a = st
        b = st.clone()
        atoms_found = []
        if srcL is not None:
            e0 = self.len_lin(srcL, a)
            atoms_found = [('<', lin.norm(lin.lneg(e0)))]
        self.emit(a, 'lookup', node, src=src, srclist=srcL, pred=pred, outcome='found', value=found, eq=eqnames,
                  pred_nodes=gen.ifs, var=var, src_val=src_val, node=node)
        if atoms_found:
            self.emit(a, 'cond', node, node=node, text=f'<found in {src}>', polarity=True, atoms=atoms_found, synthetic=True)
        self.emit(b, 'lookup', node, src=src, srclist=srcL, pred=pred, outcome='none', value=NONE, eq=eqnames,
                  pred_nodes=gen.ifs, var=var, src_val=src_val, node=node)
        default = NONE
        if len(node.args) > 1 and not (isinstance(node.args[1], ast.Constant) and node.args[1].value is None):
            default = ('expr', ast.unparse(node.args[1]), next(_uid))
        if len(node.args) > 1 and isinstance(node.args[1], ast.Tuple) and all(isinstance(e, ast.Constant) for e in node.args[1].elts):
            default = ('tuple', tuple(('const', e.value) for e in node.args[1].elts))
        if index_var is not None and isinstance(ge.elt, ast.Name) and ge.elt.id == index_var:
            return [(('lindex', src, found), a), (default, b)]
        if isinstance(ge.elt, ast.Tuple) and all(isinstance(e, ast.Name) for e in ge.elt.elts) and var is not None \
                and all(e.id in (var, index_var) for e in ge.elt.elts):
            # next(((i, t) for i, t in enumerate(L) if P(t)), (None, None)): the pair (index of the token found, the token)
            tup = tuple(found if e.id == var else ('lindex', src, found) for e in ge.elt.elts)
            return [(('tuple', tup), a), (default, b)]
        return [(found, a), (default, b)]

    def list_op(self, node: ast.Call, L: str, op: str, st: St):
        res = []
        for vals, s in self.eval_args(node, st):
            if vals == RAISE:
                res.append((RAISE, s))
                continue
            ver = s.ver.get(L, 0)
            if op in MUT:
                # implicit exceptions caught by an enclosing handler
                if op == 'remove':
                    res += self.may_raise(s, node, 'ValueError')
                if op == 'pop':
                    res += self.may_raise(s, node, 'IndexError')
                result = NONE
                idx = None
                val = None
                if op == 'pop':
                    idx = vals[0] if vals else ('const', -1)
                    result = ('elem', L, idx, ver)
                elif op == 'remove':
                    val = vals[0] if vals else None
                elif op == 'append':
                    val = vals[0] if vals else None
                elif op == 'insert':
                    idx = vals[0] if vals else None
                    val = vals[1] if len(vals) > 1 else None
                len_before = self.len_lin(L, s)
                if op in ('pop', 'remove'):
                    # the operation raises on an empty list, so on the continuing path the list was non-empty
                    self.emit(s, 'cond', node, node=None, text=f'<{L} non-empty: {op} succeeded>', polarity=True,
                              atoms=[('<', lin.norm(lin.lneg(len_before)))], synthetic=True)
                s.delta[L] = s.delta.get(L, 0) + MUT[op]
                s.ver[L] = ver + 1
                self.emit(s, 'op', node, list=L, op=op, idx=idx, val=val, result=result, delta=dict(s.delta), node=node,
                          len_before=len_before)
                self.invalidate(s, 'self.' + L)
                res.append((result, s))
            elif op == 'index':
                res += self.may_raise(s, node, 'ValueError')
                self.emit(s, 'cond', node, node=None, text=f'<{L} non-empty: index succeeded>', polarity=True,
                          atoms=[('<', lin.norm(lin.lneg(self.len_lin(L, s))))], synthetic=True)
                v = ('index', L, vals[0] if vals else None, ver)
                self.emit(s, 'index', node, list=L, val=vals[0] if vals else None, result=v)
                res.append((v, s))
            elif op == 'sort':
                self.emit(s, 'sort', node, target='self.' + L, list=L, node=node)
                s.ver[L] = ver + 1
                res.append((NONE, s))
            else:
                self.emit(s, 'listcall', node, list=L, op=op, args=tuple(vals), node=node)
                if op in ('clear', 'extend', 'reverse', '__setitem__', '__delitem__'):
                    s.ver[L] = ver + 1
                res.append((fresh(f'{L}.{op}'), s))
        return res

    def local_list_op(self, node: ast.Call, name: str, op: str, st: St):
        res = []
        for vals, s in self.eval_args(node, st):
            if vals == RAISE:
                res.append((RAISE, s))
                continue
            cur = s.locallen.get(name)
            if op in MUT and cur is not None:
                s.locallen[name] = lin.ladd(cur, lin.lconst(MUT[op]))
            result = NONE
            if op == 'pop':
                result = ('lelem', name, vals[0] if vals else ('const', -1), next(_uid))
                if vals and vals[0][0] == 'lindex' and vals[0][1] == name:
                    result = vals[0][2]         # L.pop(L.index(x)) is x
            if op == 'index':
                result = ('lindex', name, vals[0] if vals else None)
            self.emit(s, 'lop', node, list=name, listval=s.env.get(name), op=op, args=tuple(vals), result=result, node=node)
            self.invalidate(s, name)
            res.append((result, s))
        return res

    def inline(self, fi: FuncInfo, node: ast.Call, st: St):
        res = []
        for vals, s in self.eval_args(node, st):
            if vals == RAISE:
                res.append((RAISE, s))
                continue
            saved_env = s.env
            saved_locallen = s.locallen
            s.env = {k: v for k, v in saved_env.items() if k.startswith(('self.', 'cell:'))}
            s.locallen = {k: v for k, v in saved_locallen.items() if k.startswith('self.')}
            params = [a.arg for a in fi.node.args.args]
            if params and params[0] == 'self':
                params = params[1:]
            defaults = fi.node.args.defaults
            nd = len(defaults)
            npos = len(node.args)
            for i, pname in enumerate(params):
                if i < npos and i < len(vals):
                    s.env[pname] = vals[i]
                else:
                    s.env[pname] = ('param', pname)
                    di = i - (len(params) - nd)
                    if 0 <= di < nd and isinstance(defaults[di], ast.Constant):
                        s.env[pname] = ('const', defaults[di].value)
            for k, v in zip(node.keywords, vals[npos:]):
                if k.arg in params:
                    s.env[k.arg] = v
            s.frames.append(fi)
            self.emit(s, 'enter', node, name=fi.name, key=fi.key, args=tuple(vals), arg0=vals[0] if vals else None)
            for s2, status in self.block(fi.node.body, s):
                self.emit(s2, 'leave', node, name=fi.name, status=status if isinstance(status, str) else status[0])
                s2.frames.pop()
                callee_env, callee_ll = s2.env, s2.locallen
                s2.env = {k: v for k, v in saved_env.items() if not k.startswith(('self.', 'cell:'))}
                s2.env.update({k: v for k, v in callee_env.items() if k.startswith(('self.', 'cell:'))})
                s2.locallen = {k: v for k, v in saved_locallen.items() if not k.startswith('self.')}
                s2.locallen.update({k: v for k, v in callee_ll.items() if k.startswith('self.')})
                if isinstance(status, tuple) and status[0] == 'raise':
                    s2.ret = ('exc', status[1])
                    res.append((RAISE, s2))
                    continue
                if status in ('loopcut', 'backedge'):
                    # exploration bound reached inside the callee: the path ends here (never continued as if the loop had finished)
                    s2.ret = ('exc', f'<{status}>')
                    res.append((RAISE, s2))
                    continue
                val = s2.ret if status == 'return' else NONE
                s2.ret = NONE
                res.append((val, s2))
        return res

    # ------------------------------------------------------------------ conditions
    def truth(self, node, st: St) -> Optional[bool]:
        if isinstance(node, ast.Constant):
            return bool(node.value)
        if isinstance(node, ast.UnaryOp) and isinstance(node.op, ast.Not):
            t = self.truth(node.operand, st)
            return None if t is None else (not t)
        if isinstance(node, ast.Name):
            v = st.env.get(node.id)
            t = self.value_truth(v, st)
            if t is not None:
                return t
        if isinstance(node, ast.Compare) and len(node.ops) == 1 and isinstance(node.ops[0], (ast.Is, ast.IsNot)) \
                and isinstance(node.comparators[0], ast.Constant) and node.comparators[0].value is None:
            if isinstance(node.left, ast.Name):
                v = st.env.get(node.left.id)
                isnone = self.value_is_none(v, st, node.left.id)
                if isnone is not None:
                    return isnone if isinstance(node.ops[0], ast.Is) else (not isnone)
            elif self_attr(node.left) is not None and ('self.' + node.left.attr) in st.env:
                isnone = self.value_is_none(st.env['self.' + node.left.attr], st)
                if isnone is not None:
                    return isnone if isinstance(node.ops[0], ast.Is) else (not isnone)
        if isinstance(node, ast.Compare) and len(node.ops) == 1 and isinstance(node.ops[0], (ast.Eq, ast.NotEq, ast.Is, ast.IsNot)):
            l, r = node.left, node.comparators[0]
            if isinstance(l, (ast.Name, ast.Call, ast.Subscript)) and isinstance(r, (ast.Name, ast.Call, ast.Subscript)):
                lv = self.pure_value(l, st)
                rv = self.pure_value(r, st)
                if lv is not None and rv is not None and lv[0] in ('elem', 'newevent', 'param', 'presult', 'found') and lv == rv:
                    return isinstance(node.ops[0], (ast.Eq, ast.Is))
        if isinstance(node, ast.Attribute) and node.attr == 'triggered':
            v = self.pure_value(node.value, st)
            if v is not None and v in st.triggered:
                return True
        key = ast.unparse(node)
        if key in st.facts:
            return st.facts[key]
        # linear decision from the conditions of the same atomic segment
        try:
            lv = self.lenvar_fn(st)
            at = lin.atom_from_compare(node, True, self.lin_env(st), self.recv, None, lenvar=lv)
            naf = lin.atom_from_compare(node, False, self.lin_env(st), self.recv, None, lenvar=lv)
        except lin.NonLinear:
            return None
        pa = self.path_atoms(st)
        if lin.implies_all(pa, at):
            return True
        if lin.implies_all(pa, naf):
            return False
        return None

    def pure_value(self, node, st: St):
        """Value of a side-effect free expression without consuming the state (None if it has effects)."""
        if isinstance(node, ast.Name):
            return st.env.get(node.id, ('name', node.id))
        if isinstance(node, ast.Subscript) and self.track_attrs and isinstance(node.slice, ast.Constant) and ('cell:' + ast.unparse(node)) in st.env:
            return st.env['cell:' + ast.unparse(node)]
        if isinstance(node, ast.Subscript) and self.tracked_list(node.value) is None:
            bv = self.pure_value(node.value, st)
            iv = self.pure_value(node.slice, st)
            if bv is not None and iv is not None:
                if bv[0] == 'tuple' and iv[0] == 'const' and isinstance(iv[1], int) and -len(bv[1]) <= iv[1] < len(bv[1]):
                    return bv[1][iv[1]]
                return ('sub', bv, iv)
        if isinstance(node, ast.Tuple):
            vs = [self.pure_value(e, st) for e in node.elts]
            if all(v is not None for v in vs):
                return ('tuple', tuple(vs))
        if isinstance(node, ast.Subscript):
            if self.track_attrs and isinstance(node.slice, ast.Constant) and ('cell:' + ast.unparse(node)) in st.env:
                return [(st.env['cell:' + ast.unparse(node)], st)]
            L = self.tracked_list(node.value)
            if L is not None:
                iv = self.pure_value(node.slice, st)
                if iv is not None:
                    return ('elem', L, iv, st.ver.get(L, 0))
        if isinstance(node, ast.Constant):
            return ('const', node.value)
        if isinstance(node, ast.Attribute):
            a = self_attr(node)
            if a is not None:
                return st.env.get('self.' + a, ('self', a))
            if node.attr == 'now' and ast.unparse(node.value).split('.')[-1] in ('env', '_env'):
                return ('now', st.epoch)
            bv = self.pure_value(node.value, st)
            if bv is not None:
                return ('attr', bv, node.attr)
        l = self.try_lin(node, st) if isinstance(node, (ast.BinOp, ast.Call, ast.UnaryOp)) else None
        if l is not None:
            if all(k == '1' for k in l):
                return ('const', l.get('1', 0))
            return ('lin', lin.norm(l))
        return None

    def value_truth(self, v, st):
        if v is None:
            return None
        if v[0] == 'const':
            return bool(v[1])
        if v[0] == 'elem':
            return None if v[1] in self.item_lists else True
        if v[0] == 'found':
            return None if str(v[1]).rsplit('.', 1)[-1] in self.item_lists else True
        if v[0] in ('newevent', 'proc', 'presult'):
            return True
        return None

    def value_is_none(self, v, st, name=None):
        if v is None:
            return None
        if v[0] == 'const':
            return v[1] is None
        if v[0] in ('found', 'elem', 'newevent', 'proc', 'tuple', 'lin', 'tokenlist', 'locallist', 'lelem', 'first-avail'):
            return False
        if v[0] == 'callres' and v[1][:1].isupper():
            return False          # result of a constructor call
        if v[0] == 'attr' and len(v) == 3 and v[2] in ('succeed', 'interrupt', 'fail'):
            return False          # a bound method of an event / process handed over as a value
        if name is not None and name in st.notnone:
            return False
        return None

    def cond(self, node, st: St):
        """-> list of (bool, state).  Splits and/or by short-circuit; the input state is consumed."""
        if isinstance(node, ast.BoolOp):
            is_and = isinstance(node.op, ast.And)
            outs = []
            pending = [st]
            for v in node.values:
                nxt = []
                for s in pending:
                    for b, s2 in self.cond(v, s):
                        if b is RAISE:
                            outs.append((RAISE, s2))
                        elif is_and and not b:
                            outs.append((False, s2))
                        elif (not is_and) and b:
                            outs.append((True, s2))
                        else:
                            nxt.append(s2)
                pending = nxt
            outs += [(is_and, s) for s in pending]
            return outs
        if isinstance(node, ast.UnaryOp) and isinstance(node.op, ast.Not):
            return [((not b) if b is not RAISE else RAISE, s) for b, s in self.cond(node.operand, st)]
        if isinstance(node, ast.Call) and isinstance(node.func, ast.Name) and node.func.id == 'bool' and len(node.args) == 1 and not node.keywords:
            return self.cond(node.args[0], st)          # the truth of bool(e) is the truth of e
        if isinstance(node, ast.Name) and st.env.get(node.id, ('?',))[0] == 'deferred-test':
            _, tnode, vers, ep = st.env[node.id]
            if vers == tuple(sorted(st.ver.items())) and ep == st.epoch:
                outs = self.cond(tnode, st)
                for b, s2 in outs:
                    if b is not RAISE:
                        s2.facts[node.id] = b         # the local keeps that value until it is re-assigned, whatever happens to the lists afterwards
                return outs
        if isinstance(node, ast.Name) and st.env.get(node.id, ('?',))[0] in ('locallist', 'tokenlist') and node.id in st.locallen:
            # truth of a local list is `len(list) > 0`
            test = ast.copy_location(ast.Compare(left=ast.Call(func=ast.Name(id='len', ctx=ast.Load()), args=[ast.Name(id=node.id, ctx=ast.Load())], keywords=[]),
                                                 ops=[ast.Gt()], comparators=[ast.Constant(value=0)]), node)
            ast.fix_missing_locations(test)
            return self.cond(test, st)
        t = self.truth(node, st)
        if t is not None:
            return [(t, st)]
        has_effect = any(isinstance(x, (ast.Call, ast.Yield)) for x in ast.walk(node)) and not self.is_pure_test(node)
        states = [st]
        if has_effect and isinstance(node, ast.Compare) and len(node.ops) == 1 \
                and isinstance(node.ops[0], (ast.Eq, ast.NotEq, ast.Is, ast.IsNot)):
            # evaluate both operands (with their effects) and decide by value identity when possible
            outs = []
            for lv, s1 in self.ev(node.left, st):
                if lv == RAISE:
                    outs.append((RAISE, s1))
                    continue
                for rv, s2 in self.ev(node.comparators[0], s1):
                    if rv == RAISE:
                        outs.append((RAISE, s2))
                        continue
                    if lv[0] in ('elem', 'newevent', 'param', 'presult', 'found') and lv == rv:
                        outs.append((isinstance(node.ops[0], (ast.Eq, ast.Is)), s2))
                    else:
                        key = ast.unparse(node)
                        s_f = s2.clone()
                        for b, sx in ((True, s2), (False, s_f)):
                            sx.facts[key] = b
                            self.emit(sx, 'cond', node, node=node, text=key, polarity=b, atoms=[], synthetic=False)
                            outs.append((b, sx))
            return outs
        if has_effect and isinstance(node, ast.Compare) and len(node.ops) == 1 \
                and isinstance(node.ops[0], (ast.Lt, ast.LtE, ast.Gt, ast.GtE)):
            # ordering comparison whose operands call inlinable helpers: evaluate them and compare the linear forms
            outs = []
            for lv, s1 in self.ev(node.left, st):
                if lv == RAISE:
                    outs.append((RAISE, s1))
                    continue
                for rv, s2 in self.ev(node.comparators[0], s1):
                    if rv == RAISE:
                        outs.append((RAISE, s2))
                        continue
                    la, lb = self.val_lin(lv), self.val_lin(rv)
                    key = ast.unparse(node)
                    at_t = at_f = []
                    if la is not None and lb is not None:
                        d = lin.ladd(la, lb, -1)
                        o = {ast.Lt: '<', ast.LtE: '<=', ast.Gt: '>', ast.GtE: '>='}[type(node.ops[0])]

                        def mk(op, dd):
                            if op in ('>', '>='):
                                return [({'>': '<', '>=': '<='}[op], lin.norm(lin.lneg(dd)))]
                            return [(op, lin.norm(dd))]
                        at_t = mk(o, d)
                        at_f = mk({'<': '>=', '<=': '>', '>': '<=', '>=': '<'}[o], d)
                        pa_ = self.path_atoms(s2)
                        if lin.implies_all(pa_, at_t):
                            outs.append((True, s2))
                            continue
                        if lin.implies_all(pa_, at_f):
                            outs.append((False, s2))
                            continue
                    s_f = s2.clone()
                    for b, sx, atoms in ((True, s2, at_t), (False, s_f, at_f)):
                        sx.facts[key] = b
                        self.emit(sx, 'cond', node, node=node, text=key, polarity=b, atoms=list(atoms), synthetic=False)
                        outs.append((b, sx))
            return outs
        decided = []
        if has_effect:
            states = []
            for v, s in self.ev(node, st):
                if v == RAISE:
                    states.append((RAISE, s))
                elif isinstance(node, ast.Call) and v[0] == 'const' and isinstance(v[1], bool):
                    decided.append((v[1], s))       # an inlined predicate helper returned a constant on this path
                else:
                    states.append(s)
        key = ast.unparse(node)
        outs = list(decided)
        for s in states:
            if isinstance(s, tuple):
                outs.append((RAISE, s[1]))
                continue
            atoms_t = self.atoms_of(node, True, s)
            atoms_f = self.atoms_of(node, False, s)
            operands = None
            if isinstance(node, ast.Compare) and len(node.ops) == 1:
                operands = (type(node.ops[0]).__name__, self.pure_value(node.left, s), self.pure_value(node.comparators[0], s))
            reads = self.reads_of(node, s)
            s_t = s
            s_f = s.clone()
            for b, s2, atoms in ((True, s_t, atoms_t), (False, s_f, atoms_f)):
                s2.facts[key] = b
                self.emit(s2, 'cond', node, node=node, text=key, polarity=b, atoms=atoms, synthetic=False, operands=operands, reads=reads)
                self.learn(node, b, s2)
                outs.append((b, s2))
        return outs

    def is_pure_test(self, node) -> bool:
        """len(...), isinstance, hasattr, callable, X.triggered style tests have no effects worth recording."""
        for x in ast.walk(node):
            if isinstance(x, ast.Call):
                if isinstance(x.func, ast.Name) and x.func.id in ('len', 'isinstance', 'hasattr', 'callable', 'type', 'getattr', 'abs', 'int', 'float', 'str', 'bool', 'sum', 'max', 'min'):
                    continue
                if isinstance(x.func, ast.Attribute) and x.func.attr in ('abs', 'get') and not self.tracked_list(x.func.value):
                    continue
                return False
            if isinstance(x, (ast.Yield, ast.YieldFrom)):
                return False
        return True

    def atoms_of(self, node, polarity, st: St):
        try:
            return lin.atom_from_compare(node, polarity, self.lin_env(st), self.recv, None, lenvar=self.lenvar_fn(st))
        except lin.NonLinear:
            pass
        # `x in self.L` true  =>  |L| > 0
        if polarity and isinstance(node, ast.Compare) and len(node.ops) == 1 and isinstance(node.ops[0], ast.In):
            L = self.tracked_list(node.comparators[0])
            if L is not None:
                e0 = self.len_lin(L, st)
                return [('<', lin.norm(lin.lneg(e0)))]
        return []

    def learn(self, node, b, st: St):
        """Side knowledge from a decided test (x is not None etc.)."""
        if isinstance(node, ast.Compare) and len(node.ops) == 1 and isinstance(node.left, ast.Name) \
                and isinstance(node.comparators[0], ast.Constant) and node.comparators[0].value is None:
            isnot = isinstance(node.ops[0], ast.IsNot)
            is_ = isinstance(node.ops[0], ast.Is)
            if (isnot and b) or (is_ and not b):
                st.notnone.add(node.left.id)
            if (is_ and b) or (isnot and not b):
                st.env[node.left.id] = NONE
        if isinstance(node, ast.Name) and not b and st.env.get(node.id, ('?',))[0] not in ('const',):
            pass

    # ------------------------------------------------------------------ statements
    def block(self, stmts, st: St):
        outs = [(st, 'normal')]
        for stmt in stmts:
            nxt = []
            for s, status in outs:
                if status != 'normal':
                    nxt.append((s, status))
                    continue
                nxt += self.stmt(stmt, s)
            outs = nxt
            if len(outs) > self.budget:
                raise AnalysisError(f'path budget {self.budget} exceeded in {self.root.key if self.root else "?"} at line {stmt.lineno}')
        return outs

    def assign_target(self, t, val, st: St, node, aug=None):
        if isinstance(t, ast.Name):
            st.env[t.id] = val
            st.notnone.discard(t.id)
            self.invalidate(st, t.id)
            if val[0] == 'tokenlist':
                st.locallen[t.id] = {('tl:%d' % val[1]): 1}
            elif val[0] == 'list':
                st.env[t.id] = ('locallist', next(_uid))
                st.locallen[t.id] = lin.lconst(len(val[1]))
                self.emit(st, 'mklist', node, name=t.id, value=st.env[t.id], elems=val[1])
            else:
                st.locallen.pop(t.id, None)
        elif isinstance(t, ast.Attribute):
            txt = ast.unparse(t)
            self.emit(st, 'setattr', node, target=txt, attr=t.attr, on_self=self_attr(t) is not None, value=val, aug=aug, node=node,
                      obj_val=self.pure_value(t.value, st))
            self.invalidate(st, txt)
            if self_attr(t) is not None and self.track_attrs:
                if val[0] == 'list':
                    st.locallen[txt] = lin.lconst(len(val[1]))
                    elems = val[1]
                    val = ('locallist', next(_uid))
                    self.emit(st, 'mklist', node, name=txt, value=val, elems=elems)
                st.env[txt] = val
            if val[0] in ('tokenlist',):
                st.locallen[txt] = {('tl:%d' % val[1]): 1}
            if self_attr(t) in self.tracked:
                # re-assignment of a tracked list: lengths unknown from here on
                L = self_attr(t)
                st.ver[L] = st.ver.get(L, 0) + 1
                self.emit(st, 'rebind', node, list=L, value=val)
        elif isinstance(t, ast.Subscript):
            key_val = self.pure_value(t.slice, st)
            base_val = self.pure_value(t.value, st)
            self.emit(st, 'setitem', node, target=ast.unparse(t), base=ast.unparse(t.value), value=val, aug=aug, node=node,
                      key_val=key_val, base_val=base_val)
            if self.track_attrs and isinstance(t.slice, ast.Constant) and chain_root_is_self(t.value):
                st.env['cell:' + ast.unparse(t)] = val
            L = self.tracked_list(t.value)
            if L is not None:
                st.ver[L] = st.ver.get(L, 0) + 1
                self.emit(st, 'listcall', node, list=L, op='__setitem__', args=(val,), node=node)
            self.invalidate(st, ast.unparse(t))
        elif isinstance(t, (ast.Tuple, ast.List)):
            for i, e in enumerate(t.elts):
                if val[0] == 'tuple' and i < len(val[1]):
                    self.assign_target(e, val[1][i], st, node)
                else:
                    self.assign_target(e, ('sub', val, ('const', i)), st, node)

    def stmt(self, n, st: St):
        if self.stmt_hook is not None:
            handled = self.stmt_hook(self, n, st)
            if handled is not None:
                return handled
        if isinstance(n, ast.Expr):
            if isinstance(n.value, ast.Constant):
                return [(st, 'normal')]
            res = []
            for v, s in self.ev(n.value, st):
                res.append((s, self.raise_status(s)) if v == RAISE else (s, 'normal'))
            return res
        if isinstance(n, (ast.Assign, ast.AnnAssign)):
            if n.value is None:
                return [(st, 'normal')]
            res = []
            for v, s in self.ev(n.value, st):
                if v == RAISE:
                    res.append((s, self.raise_status(s)))
                    continue
                targets = n.targets if isinstance(n, ast.Assign) else [n.target]
                for t in targets:
                    self.assign_target(t, v, s, n)
                # a local that holds the outcome of a pure test (`space_left = len(self.items) < self.capacity`): testing the local later is testing
                # that expression, as long as nothing it reads has changed in between (remembered with the list versions at this point)
                if len(targets) == 1 and isinstance(targets[0], ast.Name) and isinstance(n.value, (ast.Compare, ast.BoolOp)) and self.is_pure_test(n.value) \
                        and not any(isinstance(x, ast.Name) and x.id == targets[0].id for x in ast.walk(n.value)):
                    # (decided here, where the lists and locals are as the test saw them; the local then is that boolean)
                    for b, s2 in self.cond(n.value, s):
                        if b is RAISE:
                            res.append((s2, self.raise_status(s2)))
                            continue
                        s2.env[targets[0].id] = ('const', bool(b))
                        res.append((s2, 'normal'))
                    continue
                res.append((s, 'normal'))
            return res
        if isinstance(n, ast.AugAssign):
            res = []
            for v, s in self.ev(n.value, st):
                if v == RAISE:
                    res.append((s, self.raise_status(s)))
                    continue
                newv = fresh('aug')
                if isinstance(n.target, ast.Name) and isinstance(n.op, (ast.Add, ast.Sub)):
                    cur = s.env.get(n.target.id)
                    le = self.lin_env(s)
                    if n.target.id in le:
                        rhs = None
                        if v[0] == 'const' and isinstance(v[1], int):
                            rhs = lin.lconst(v[1])
                        elif v[0] == 'lin':
                            rhs = dict(v[1])
                        if rhs is not None:
                            l = lin.ladd(le[n.target.id], rhs, 1 if isinstance(n.op, ast.Add) else -1)
                            newv = ('const', l.get('1', 0)) if all(k == '1' for k in l) else ('lin', lin.norm(l))
                    if newv[0] == 'sym' and cur is not None:
                        nv = self.num_combine(cur, v, 1 if isinstance(n.op, ast.Add) else -1, n)
                        if nv[0] in ('num', 'const'):
                            newv = nv
                if newv[0] == 'sym' and self.track_attrs and isinstance(n.op, (ast.Add, ast.Sub)) and isinstance(n.target, (ast.Attribute, ast.Subscript)):
                    cur = self.pure_value(n.target, s)
                    if cur is not None:
                        nv = self.num_combine(cur, v, 1 if isinstance(n.op, ast.Add) else -1, n)
                        if nv[0] in ('num', 'const'):
                            newv = nv
                self.assign_target(n.target, newv, s, n, aug=(type(n.op).__name__, v))
                res.append((s, 'normal'))
            return res
        if isinstance(n, ast.Return):
            if n.value is None:
                st.ret = NONE
                self.emit(st, 'return', n, value=NONE)
                return [(st, 'return')]
            res = []
            if self.split_bool_returns and (isinstance(n.value, (ast.Compare, ast.BoolOp))
                                            or (isinstance(n.value, ast.UnaryOp) and isinstance(n.value.op, ast.Not))):
                for b, s in self.cond(n.value, st):
                    if b is RAISE:
                        res.append((s, self.raise_status(s)))
                        continue
                    s.ret = ('const', bool(b))
                    self.emit(s, 'return', n, value=s.ret)
                    res.append((s, 'return'))
                return res
            for v, s in self.ev(n.value, st):
                if v == RAISE:
                    res.append((s, self.raise_status(s)))
                    continue
                s.ret = v
                self.emit(s, 'return', n, value=v)
                res.append((s, 'return'))
            return res
        if isinstance(n, ast.Raise):
            exc = ''
            if n.exc is not None:
                exc = ast.unparse(n.exc.func) if isinstance(n.exc, ast.Call) else ast.unparse(n.exc)
            else:
                exc = (st.ret[1] if isinstance(st.ret, tuple) and st.ret[0] == 'exc' else 'reraise')
            in_handler = bool(st.events and any(e.kind == 'except' for e in st.events))
            self.emit(st, 'raise', n, exc=exc, in_handler=in_handler, node=n)
            return [(st, ('raise', exc))]
        if isinstance(n, ast.If):
            res = []
            for b, s in self.cond(n.test, st):
                if b is RAISE:
                    res.append((s, self.raise_status(s)))
                else:
                    res += self.block(n.body if b else n.orelse, s)
            return res
        if isinstance(n, ast.While):
            return self.loop(n, st, lambda s: self.cond(n.test, s))
        if isinstance(n, ast.For):
            return self.for_loop(n, st)
        if isinstance(n, ast.Try):
            return self.try_stmt(n, st)
        if isinstance(n, ast.With):
            return self.block(n.body, st)
        if isinstance(n, ast.Break):
            return [(st, 'break')]
        if isinstance(n, ast.Continue):
            return [(st, 'continue')]
        if isinstance(n, ast.Assert):
            # the asserted condition holds afterwards (the failing branch is an AssertionError exit)
            key = ast.unparse(n.test)
            st.facts[key] = True
            atoms = self.atoms_of(n.test, True, st)
            operands = None
            if isinstance(n.test, ast.Compare) and len(n.test.ops) == 1:
                operands = (type(n.test.ops[0]).__name__, self.pure_value(n.test.left, st), self.pure_value(n.test.comparators[0], st))
            self.emit(st, 'assert', n, text=key, node=n, atoms=atoms, operands=operands)
            return [(st, 'normal')]
        if isinstance(n, ast.Delete):
            for t in n.targets:
                self.emit(st, 'delete', n, target=ast.unparse(t))
            return [(st, 'normal')]
        if isinstance(n, (ast.Pass, ast.Global, ast.Nonlocal, ast.Import, ast.ImportFrom, ast.FunctionDef, ast.ClassDef)):
            return [(st, 'normal')]
        raise AnalysisError(f'unhandled statement {type(n).__name__} at line {n.lineno}')

    @staticmethod
    def raise_status(s: St):
        if isinstance(s.ret, tuple) and s.ret and s.ret[0] == 'exc':
            return ('raise', s.ret[1])
        return ('raise', 'propagated')

    def try_stmt(self, n: ast.Try, st: St):
        names = []
        for h in n.handlers:
            if h.type is None:
                names.append({'*'})
            elif isinstance(h.type, ast.Tuple):
                names.append({ast.unparse(e) for e in h.type.elts})
            else:
                names.append({ast.unparse(h.type)})
        allnames = set().union(*names) if names else set()
        self.handlers.append(allnames)
        try:
            body_out = self.block(n.body, st)
        finally:
            self.handlers.pop()
        res = []
        for s, status in body_out:
            if isinstance(status, tuple) and status[0] == 'raise':
                handled = False
                for h, hn in zip(n.handlers, names):
                    if self.catches(hn, status[1]):
                        self.emit(s, 'except', h, exc=status[1], handler=ast.unparse(h.type) if h.type else '*')
                        if h.name:
                            s.env[h.name] = ('exc', status[1])
                        s.ret = NONE
                        res += self.block(h.body, s)
                        handled = True
                        break
                if not handled:
                    res.append((s, status))
            elif status == 'normal' and n.orelse:
                res += self.block(n.orelse, s)
            else:
                res.append((s, status))
        if n.finalbody:
            fin = []
            for s, status in res:
                for s2, st2 in self.block(n.finalbody, s):
                    fin.append((s2, status if st2 == 'normal' else st2))
            res = fin
        return res

    def is_process_loop(self, n) -> bool:
        return isinstance(n, ast.While) and isinstance(n.test, ast.Constant) and n.test.value is True \
            and self.root is not None and self.root.is_generator and len(self.cur_frames) <= 1 \
            and any(isinstance(x, (ast.Yield, ast.YieldFrom)) for x in ast.walk(n))

    def loop(self, n, st: St, test):
        self.cur_frames = st.frames
        if self.relevant is not None and not self.relevant(n):
            return self.havoc_loop(n, st)
        unroll = self.unroll
        proc = self.process_loop_once and self.is_process_loop(n)
        if proc:
            unroll = 1
        res = []
        frontier = [st]
        for i in range(unroll + 1):
            nxt = []
            for s in frontier:
                for b, s2 in test(s):
                    if b is RAISE:
                        res.append((s2, self.raise_status(s2)))
                        continue
                    if not b:
                        self.emit(s2, 'loopexit', n, loop_line=n.lineno, how='exhausted', iterations=i)
                        res += self.block(n.orelse, s2) if n.orelse else [(s2, 'normal')]
                        continue
                    if i == unroll:
                        self.emit(s2, 'backedge' if proc else 'loopcut', n, loop_line=n.lineno)
                        res.append((s2, 'backedge' if proc else 'loopcut'))
                        continue
                    self.emit(s2, 'loophead', n, loop_line=n.lineno, iteration=i,
                              locals={k: v for k, v in s2.env.items() if v[0] in ('lin', 'const')})
                    for s3, status in self.block(n.body, s2):
                        if status in ('normal', 'continue'):
                            nxt.append(s3)
                        elif status == 'break':
                            self.emit(s3, 'loopexit', n, loop_line=n.lineno, how='break', iterations=i + 1)
                            res.append((s3, 'normal'))
                        else:
                            res.append((s3, status))
            frontier = nxt
            if len(res) + len(frontier) > self.budget:
                raise AnalysisError(f'path budget {self.budget} exceeded in loop at line {n.lineno} of {self.root.key if self.root else "?"}')
        return res

    def for_loop(self, n: ast.For, st: St):
        itertxt = ast.unparse(n.iter)
        self.emit(st, 'foriter', n, iter=itertxt, node=n, iter_val=self.pure_value(n.iter, st) if not isinstance(n.iter, ast.Call) else None)
        # iteration over a literal range(k) with constant k is unrolled exactly when small
        counter = {'i': 0}

        def test(s: St):
            a = s
            b = s.clone()
            k = sum(1 for e in a.events if e.kind == 'loophead' and e.loop_line == n.lineno and e.epoch >= 0)
            self.assign_target(n.target, ('iter', itertxt, n.lineno, next(_uid)), a, n)
            return [(True, a), (False, b)]
        return self.loop(n, st, test)

    def havoc_loop(self, n, st: St):
        self.emit(st, 'havoc-loop', n, loop_line=n.lineno)
        for x in ast.walk(n):
            if isinstance(x, ast.Name) and isinstance(x.ctx, ast.Store):
                st.env[x.id] = fresh('havoc-' + x.id)
                self.invalidate(st, x.id)
        outs = [(st, 'normal')]
        raises = [x for x in ast.walk(n) if isinstance(x, ast.Raise)]
        if raises:
            r = st.clone()
            x = raises[0]
            exc = ast.unparse(x.exc.func) if isinstance(x.exc, ast.Call) else 'Exception'
            self.emit(r, 'raise', x, exc=exc, in_handler=False, node=x)
            outs.append((r, ('raise', exc)))
        return outs

    # ------------------------------------------------------------------ entry
    def paths(self, fi: FuncInfo, init: Optional[Callable[[St], None]] = None) -> List[Path]:
        self.root = fi
        self.cur_frames = []
        st = St()
        st.frames = [fi]
        for a in fi.node.args.args:
            if a.arg != 'self':
                st.env[a.arg] = ('param', a.arg)
        if init:
            init(st)
        self.do_assume(st, fi.node, 'at entry')
        out = self.block(fi.node.body, st)
        self.npaths += len(out)
        fixed = []
        for s, status in out:
            if isinstance(status, tuple) and status[0] == 'raise' and status[1] in ('<loopcut>', '<backedge>'):
                status = status[1][1:-1]
            fixed.append((s, status))
        return [Path(status, s, fi) for s, status in fixed]
