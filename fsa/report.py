"""Findings, obligations, known-findings matching, evidence files and exit status."""
from __future__ import annotations

import json
import os
import pathlib
import sys
import time
from dataclasses import dataclass, field, asdict
from typing import Dict, List, Optional

VERIF = pathlib.Path(__file__).resolve().parent.parent
EVIDENCE_DIR = pathlib.Path(os.environ.get('FSA_EVIDENCE_DIR') or (VERIF / 'evidence'))   # FSA_EVIDENCE_DIR: scratch runs against seeded trees
KNOWN = VERIF / 'known_findings.json'


@dataclass
class Finding:
    prop: str
    rule: str            # e.g. 'C01.O1'
    construct: str       # '<module>::<Class>.<function>::<semantic key>' -- no line numbers, no source text
    message: str
    file: str = ''
    line: int = 0
    path: List[str] = field(default_factory=list)
    advisory: bool = False

    @property
    def key(self):
        return (self.prop, self.rule, self.construct)


@dataclass
class Obligation:
    rule: str
    construct: str
    ok: bool
    detail: str = ''
    file: str = ''
    line: int = 0


def ctx_of(w) -> str:
    """label of the concrete class a walk / store record belongs to (the context in which shared base-class code is being judged)"""
    st = getattr(w, 'store', w)
    ci = getattr(st, 'ci', None)
    return ci.label if ci is not None else ''


class Result:
    def __init__(self, prop: str):
        self.prop = prop
        self.findings: List[Finding] = []
        self.obligations: List[Obligation] = []
        self.stats: Dict[str, object] = {}
        self.assumptions: List[str] = []
        self.rules: Dict[str, str] = {}        # rule id -> one-line statement
        self.floors: Dict[str, int] = {}       # rule id -> minimal number of instances
        self.not_decided: List[str] = []
        self.explanation = ''
        self.analysed_functions = set()
        self.paths = 0
        self.canaries: Dict[str, bool] = {}
        self.advisories: List[str] = []
        self.selftest: Dict[str, object] = {}
        self._index: Dict[tuple, int] = {}
        # Code shared through a base class is judged once per concrete class (with that class's overrides in place): the obligation is the same
        # construct in a different context.  Findings are keyed by construct; instance counts (floors) by (construct, context).
        self.ctx = ''
        self._instances = set()

    # -- recording -----------------------------------------------------------------------
    def rule(self, rid: str, text: str, floor: int = 1):
        self.rules[rid] = text
        self.floors[rid] = floor

    def ok(self, rule, construct, detail='', file='', line=0):
        """Record a discharged obligation; one obligation per (rule, construct) - a failure recorded for the
        same instance (on another path) wins."""
        k = (rule, construct)
        self._instances.add((rule, construct, self.ctx))
        if k in self._index:
            return
        self._index[k] = len(self.obligations)
        self.obligations.append(Obligation(rule, construct, True, detail, file, line))

    def fail(self, rule, construct, message, file='', line=0, path=None, advisory=False):
        """Record a violated obligation (one finding per (rule, construct))."""
        k = (rule, construct)
        self._instances.add((rule, construct, self.ctx))
        ob = Obligation(rule, construct, False, message, file, line)
        if k in self._index:
            if not self.obligations[self._index[k]].ok:
                return
            self.obligations[self._index[k]] = ob
        else:
            self._index[k] = len(self.obligations)
            self.obligations.append(ob)
        if advisory:
            self.obligations[self._index[k]].ok = True   # advisory: reported, never a violation
        f = Finding(self.prop, rule, construct, message, file, line, list(path or []), advisory)
        if f.key not in {g.key for g in self.findings}:
            self.findings.append(f)

    def count(self, rule):
        return sum(1 for k in self._instances if k[0] == rule)


def load_known():
    if not KNOWN.exists():
        return {'findings': [], 'fixed': []}
    return json.loads(KNOWN.read_text())


def has_new_findings(res) -> bool:
    known = load_known()
    known_keys = {(k['property'], k['rule'], k['construct']) for k in known.get('findings', [])}
    return any((not f.advisory) and f.key not in known_keys for f in res.findings)


def finish(res: Result, tier: str, seed: int, t0: float, level: str, checker_cmd: str, quiet=False) -> int:
    """Print the report, write evidence, return the exit status (0 / 1 / 2)."""
    known = load_known()
    known_keys = {(k['property'], k['rule'], k['construct']): k for k in known.get('findings', [])}
    status = 0
    out = []
    # floors: a rule that matched too few instances passes vacuously -> analysis error
    floor_errors = []
    for rid, floor in res.floors.items():
        n = res.count(rid)
        if n < floor:
            floor_errors.append(f'rule {rid} matched {n} instance(s), floor is {floor}')
    for name, fired in res.canaries.items():
        if not fired:
            floor_errors.append(f'canary {name} was not reported by its rule')
    new, knownhits = [], []
    for f in res.findings:
        if f.advisory:
            continue
        if f.key in known_keys:
            knownhits.append((f, known_keys[f.key]))
        else:
            new.append(f)
    find_dir = EVIDENCE_DIR / 'findings'
    find_dir.mkdir(parents=True, exist_ok=True)
    for old in find_dir.glob(f'{res.prop}-*.json'):
        try:
            old.unlink()
        except OSError:
            pass
    for f, k in knownhits:
        out.append(f'KNOWN-FINDING: property={res.prop} {f.rule} {f.construct}: {k.get("what", f.message)}')
    for i, f in enumerate(new, 1):
        rp = find_dir / f'{res.prop}-{i}.json'
        rp.write_text(json.dumps({'property': res.prop, 'rule': f.rule, 'construct': f.construct, 'message': f.message,
                                  'file': f.file, 'line': f.line, 'path': f.path}, indent=1))
        loc = f'{f.file}:{f.line}: ' if f.file else ''
        out.append(f'{loc}{f.rule} {f.construct}: {f.message}' + (f'; path: {" → ".join(f.path)}' if f.path else ''))
        out.append(f'VIOLATION property={res.prop} replay={rp}')
        status = 1
    for a in res.advisories:
        out.append(f'ADVISORY: property={res.prop} {a}')
    for f in res.findings:
        if f.advisory:
            out.append(f'ADVISORY: property={res.prop} {f.rule} {f.construct}: {f.message}')
    if floor_errors:
        for e in floor_errors:
            out.append(f'ANALYSIS-ERROR property={res.prop} {e}')
        status = 2
    n_obl = len(res.obligations)
    n_ok = sum(1 for o in res.obligations if o.ok)
    per_rule = {}
    for o in res.obligations:
        d = per_rule.setdefault(o.rule, {'instances': 0, 'discharged': 0})
        d['instances'] += 1
        d['discharged'] += 1 if o.ok else 0
    samples = []
    seen_rules = set()
    for o in res.obligations:
        if o.rule not in seen_rules or (not o.ok and len(samples) < 40):
            seen_rules.add(o.rule)
            samples.append({'rule': o.rule, 'construct': o.construct, 'discharged': o.ok, 'detail': o.detail[:300],
                            'where': f'{o.file}:{o.line}' if o.file else ''})
    distinct = len({(o.rule, o.construct) for o in res.obligations})
    eff_level = level
    if level == 'proof' and (n_ok != n_obl or status != 0):
        eff_level = 'other'
    ev = {
        'property_id': res.prop,
        'tier': tier,
        'seed': seed,
        'level': eff_level,
        'coverage': {
            'obligations': n_obl,
            'discharged': n_ok,
            'evaluations': max(n_obl, 1),
            'distinct_nontrivial': distinct,
            'rule': 'each obligation is one (rule, construct) instance enumerated from the AST of /repo on this run; '
                    'distinct = distinct (rule, construct) pairs; a rule with fewer instances than its floor is an analysis error',
            'samples': samples,
            'checker_cmd': checker_cmd,
            'trusted_base': ['CPython ast', 'SimPy 4.1 cooperative scheduling and Event.succeed semantics',
                             'list.sort stability', 'fsa path/linear engines (self-tested with firing and silent variants)'],
            'explanation': res.explanation,
            'rules': res.rules,
            'per_rule': per_rule,
            'floors': res.floors,
            'functions_analysed': len(res.analysed_functions),
            'functions': sorted(res.analysed_functions)[:400],
            'paths_enumerated': res.paths,
            'known_findings_matched': [f.construct for f, _ in knownhits],
            'new_findings': [f.construct for f in new],
            'not_decided': res.not_decided,
            'canaries': res.canaries,
            'selftest': res.selftest,
            'stats': res.stats,
            'exhaustive': False,
        },
        'assumptions': res.assumptions,
        'wall_s': round(time.time() - t0, 3),
        'violations': len(new),
    }
    EVIDENCE_DIR.mkdir(parents=True, exist_ok=True)
    (EVIDENCE_DIR / f'{res.prop}.json').write_text(json.dumps(ev, indent=1, default=str))
    if not quiet:
        for line in out:
            print(line)
        print(f'{res.prop}: tier={tier} obligations={n_obl} discharged={n_ok} new_findings={len(new)} '
              f'known_findings={len(knownhits)} functions={len(res.analysed_functions)} paths={res.paths} '
              f'wall={ev["wall_s"]}s -> exit {status}')
    return status
