"""C01 - store capacity is never exceeded; a granted space reservation is always honoured.

Inductive invariant I1:  Σ_{L∈H}|L| + |reservations_put| ≤ capacity.
SimPy processes are cooperative, so a run of statements without `yield` is atomic; I1 is assumed at
every stable point (entry of an API call / process, resumption after a yield, return of a trigger
call) and must be re-established at the next one.  The linear engine (lin.py) discharges each step.
"""
from __future__ import annotations

import ast

from .. import lin, paths, storewalk, tables
from ..model import AnalysisError, Project, self_attr, walk_no_nested
from ..report import Result, ctx_of
from ..tables import RP, TRIGGERS, MUT
from .common import events_atoms, site, src, sum_lin, status_str

PROP = 'C01'
LEVEL = 'proof'

ROLE_ATTRS = set(tables.ROLE_LISTS) | {'reserved_items', 'ready_items', 'items'}
MUTATORS = {'append', 'insert', 'pop', 'remove', 'clear', 'extend', 'sort', 'reverse', '__setitem__', '__delitem__'}
EDGE_API = ['reserve_put', 'put', 'reserve_get', 'get', 'reserve_put_cancel', 'reserve_get_cancel']

# O5: named exceptions (one line of reason each)
OWNERSHIP_EXCEPTIONS = {
    # Splitter.worker pops the *pallet's* own item list; `pallet` is the object returned by an edge get,
    # i.e. helper/pallet.py::Pallet.items, not a store list.
    ('nodes/splitter.py', 'Splitter', 'worker', 'pallet', 'items'): 'Pallet.items (pallet flows from Edge.get)',
}


def run(p: Project, tier: str) -> Result:
    r = Result(PROP)
    r.explanation = ('Inductive proof of I1: Σ held + granted-space ≤ capacity over every statement that can change it, '
                     'in all store classes; ownership of the store lists; edges delegate and pass their validated capacity; '
                     'put-after-grant cannot fail.')
    r.rule('C01.O0', 'I1 is re-established at every stable point (yield, trigger call, exit) of every store entry point / process', 60)
    r.rule('C01.O1', 'every grant (append to reservations_put) happens only when Σ held + granted < capacity holds at that moment', 8)   # at least one grant site per store class (two branches of one store may be merged by a refactoring)
    r.rule('C01.O2', 'every item insertion in put() consumes the validated reservation first', 7)
    r.rule('C01.O3', 'every other insertion into a holding list is a transfer (preceded by a removal from a holding list in the same atomic segment)', 10)
    r.rule('C01.O4', 'no failure exit is reachable after the reservation was consumed / the item was taken out (second capacity tests are implied by I1)', 10)
    r.rule('C01.O5', 'store lists are mutated only through `self` inside the owning class', 1)
    r.rule('C01.O6', 'each Edge passes its validated capacity unmodified to its store; Edge.__init__ rejects non-int / non-positive capacity', 5)
    r.rule('C01.O7', 'Edge reserve/put/get/cancel delegate to the same-named store method exactly once on every path', 16)
    r.rule('C01.O8', 'succeed() on an attribute-held event in a store is guarded by `not triggered` or the event is fresh', 2)
    r.assumptions = ['SimPy processes are cooperative: no interleaving between two yields of one process',
                     'list semantics of append/insert/pop/remove', 'store classes are not subclassed outside the package',
                     'capacity is not reassigned after construction (checked: no write to self.capacity outside __init__)']
    r.not_decided = []
    ws = storewalk.walks(p, assume_inv=('I1',))
    for w in ws:
        r.ctx = ctx_of(w)
        check_store(p, w, r)
        check_rejections(p, w, r)
        r.paths += w.npaths
    check_ownership(p, r)
    check_edges(p, r)
    return r


# --------------------------------------------------------------------------------------------
def check_rejections(p: Project, w, r: Result):
    """O9: put(token, item) / get(token) may only fail for want of a valid reservation: every failing exit (exception, or a falsy result) lies on a
    path on which the look-up of the token among the granted reservations of *that* kind failed, or on which that list is known to be empty.
    A rejection decided by anything else (the other side's list, a stale flag) refuses a reservation that was granted."""
    from ..tables import RG
    r.rule('C01.O9', 'put / get reject only when the token is not a granted reservation of the right kind', 16)
    for entry, L in (('put', RP), ('get', RG)):
        fi = w.root_funcs.get(entry)
        if fi is None:
            continue
        key = f'{w.store.label}.{entry}::rejects-only-without-reservation'
        bad = None
        n_fail = 0
        for pa in w.roots[entry]:
            evs = pa.events
            ret = next((e.value for e in reversed(evs) if e.kind == 'return' and e.fi is fi), None)
            failing = bool(pa.raises) or (pa.status == 'return' and ret is not None and ret[0] == 'const' and not ret[1]) or pa.status == 'normal'
            if not failing or pa.status in ('loopcut', 'backedge'):
                continue
            if any(e.kind == 'raise' and e.exc not in ('RuntimeError', 'ValueError') for e in evs):
                continue
            n_fail += 1
            justified = any(e.kind == 'lookup' and e.outcome == 'none' and e.srclist == L for e in evs)
            justified = justified or any(e.kind == 'cond' and not e.d.get('synthetic') and e.polarity is False and e.d.get('node') is not None
                                         and isinstance(e.node, ast.Compare) and isinstance(e.node.ops[0], ast.In) and self_attr(e.node.comparators[0]) == L for e in evs)
            if not justified:
                try:
                    justified = lin.implies(events_atoms(evs), ('<=', lin.norm({L: 1})))
                except Exception:
                    justified = False
            # a failure after the look-up succeeded is C01.O4's business (second capacity test, missing item)
            justified = justified or any(e.kind == 'lookup' and e.outcome == 'found' and e.srclist == L for e in evs)
            if not justified and bad is None:
                bad = pa
        if bad is not None:
            r.fail('C01.O9', key, f'{entry}() can fail on a path that neither looked the token up in {L} nor knows {L} to be empty: a granted reservation is refused '
                                  f'because of an unrelated condition', src(fi.module), fi.node.lineno, bad.describe())
        else:
            r.ok('C01.O9', key, f'{n_fail} failing path(s), each without a valid reservation', src(fi.module), fi.node.lineno)


# --------------------------------------------------------------------------------------------
def check_store(p: Project, w: storewalk.StoreWalk, r: Result):
    s = w.store
    HR = list(s.holders) + [RP]
    grant_sites_seen = set()
    put_insert_sites = {}
    transfer_sites = {}
    fail_after_sites = {}
    i1_sites = {}
    succeed_sites = {}
    for root, ps in w.roots.items():
        rfi = w.root_funcs[root]
        r.analysed_functions.add(rfi.key)
        for pa in ps:
            atoms = []
            consumed = None          # event that consumed a reservation / took an item out of a holding list
            seg_removed = False      # a holding-list removal happened in the current atomic segment
            evs = pa.events
            for i, e in enumerate(evs):
                if e.fi is not None:
                    r.analysed_functions.add(e.fi.key)
                if e.kind in ('cond', 'assert') and e.d.get('atoms'):
                    atoms.extend(e.atoms)
                    continue
                if e.kind == 'yield' or (e.kind == 'call' and e.name in TRIGGERS):
                    # ---- O0 at a stable point
                    label = 'yield' if e.kind == 'yield' else f'call:{e.name}'
                    node = e.d.get('node')
                    key = site(e.fi, node, f'I1@{label}') if node is not None else f'{e.fi.key}::I1@{label}'
                    i1 = ('<=', lin.norm(lin.ladd(sum_lin(HR, e.g, e.dl), {'cap': -1})))
                    ok = lin.implies(atoms, i1)
                    rec = i1_sites.setdefault((root, key), {'ok': True, 'e': e, 'pa': pa})
                    if not ok and rec['ok']:
                        rec.update(ok=False, e=e, pa=pa)
                    if e.kind == 'yield':
                        seg_removed = False
                    continue
                if e.kind == 'op':
                    L, op = e.list, e.op
                    if L == RP and op in ('append', 'insert'):
                        key = site(e.fi, e.node, 'grant:reservations_put.' + op)
                        before = dict(e.dl)
                        before[RP] = before.get(RP, 0) - 1
                        strict = ('<', lin.norm(lin.ladd(sum_lin(HR, e.g, before), {'cap': -1})))
                        ok = lin.implies(atoms, strict)
                        grant_sites_seen.add((e.fi.key, e.node.lineno, e.node.col_offset))
                        if ok:
                            r.ok('C01.O1', key, f'path atoms ⇒ {lin.atom_show(strict)}', src(e.fi.module), e.line)
                        else:
                            r.fail('C01.O1', key,
                                   f'space reservation granted although `{lin.atom_show(strict)}` is not implied by the conditions on the path '
                                   f'(guard weaker than Σ held + granted < capacity)', src(e.fi.module), e.line, pa.describe())
                    if L == RP and op in ('remove', 'pop'):
                        v = e.val
                        if v is not None and v[0] == 'found' and v[1] == 'self.' + RP:
                            consumed = e
                    if L in s.holders and op in ('pop', 'remove'):
                        seg_removed = True
                        if root in s.process_roots:
                            consumed = e
                    if L in s.holders and op in ('append', 'insert'):
                        key = site(e.fi, e.node, f'insert:{L}.{op}')
                        if root == 'put':
                            rec = put_insert_sites.setdefault(key, {'ok': True, 'e': e, 'pa': pa})
                            if consumed is None or consumed.list != RP:
                                rec.update(ok=False, e=e, pa=pa)
                        else:
                            rec = transfer_sites.setdefault((root, key), {'ok': True, 'e': e, 'pa': pa})
                            if not seg_removed:
                                rec.update(ok=False, e=e, pa=pa)
                    continue
                if e.kind == 'raise' and not e.d.get('in_handler'):
                    if consumed is not None and (root == 'put' or root in s.process_roots):
                        key = site(e.fi, e.node, 'raise-after-consumption')
                        fail_after_sites[(root, key)] = {'ok': False, 'e': e, 'pa': pa, 'consumed': consumed}
                if e.kind == 'succeed':
                    t = e.target
                    if t.startswith('self.'):
                        attr = t[5:]
                        guarded = False
                        for b in reversed(evs[:i]):
                            if b.kind == 'yield':
                                break
                            if b.kind == 'cond' and not b.d.get('synthetic') and b.text == f'{t}.triggered' and b.polarity is False:
                                guarded = True
                                break
                            if b.kind == 'setattr' and b.target == t and b.value[0] == 'newevent':
                                guarded = True
                                break
                            if b.kind == 'succeed' and b.target == t:
                                break
                        key = f'{e.fi.key}::succeed({t})'
                        rec = succeed_sites.setdefault(key, {'ok': True, 'e': e, 'pa': pa})
                        if not guarded:
                            rec.update(ok=False, e=e, pa=pa)
            # ---- O0 at the exit of the path
            st = pa.st
            i1 = ('<=', lin.norm(lin.ladd(sum_lin(HR, st.gen, st.delta), {'cap': -1})))
            ok = lin.implies(atoms, i1)
            key = f'{rfi.key}::I1@exit[{status_str(pa.status) if not pa.raises else "raise"}]'
            rec = i1_sites.setdefault((root, key), {'ok': True, 'e': None, 'pa': pa})
            if not ok and rec['ok']:
                rec.update(ok=False, pa=pa)
            # a put path that returns normally after consumption must have inserted the item
    for (root, key), rec in sorted(i1_sites.items(), key=lambda x: (x[0][0], x[0][1])):
        e = rec['e']
        fi = e.fi if e is not None else w.root_funcs[root]
        line = e.line if e is not None else w.root_funcs[root].node.lineno
        cons = f'{key}@{root}' if not key.startswith(w.root_funcs[root].key) else key
        if rec['ok']:
            r.ok('C01.O0', cons, 'I1 implied by path conditions on every path through this point', src(fi.module), line)
        else:
            r.fail('C01.O0', cons, f'Σ held + granted ≤ capacity is not re-established here (root {root})', src(fi.module), line,
                   rec['pa'].describe())
    for key, rec in sorted(put_insert_sites.items()):
        e = rec['e']
        if rec['ok']:
            r.ok('C01.O2', key, 'preceded on every path by removal of the validated reservation', src(e.fi.module), e.line)
        else:
            r.fail('C01.O2', key, 'item inserted by put() on a path that did not consume the validated reservation',
                   src(e.fi.module), e.line, rec['pa'].describe())
    for (root, key), rec in sorted(transfer_sites.items()):
        e = rec['e']
        if rec['ok']:
            r.ok('C01.O3', key, f'transfer in {root}: removal from a holding list precedes in the same segment', src(e.fi.module), e.line)
        else:
            r.fail('C01.O3', key, f'insertion into holding list `{e.list}` in {root} without a preceding removal from a holding list '
                                  f'in the same atomic segment', src(e.fi.module), e.line, rec['pa'].describe())
    # O4: failure exits after consumption.  Enumerate candidate raise sites for the instance count.
    cand = {}
    for root in ['put'] + [x for x in s.process_roots]:
        for fi in reach_funcs(p, w, root):
            for n in walk_no_nested(fi.node):
                if isinstance(n, ast.Raise):
                    cand[(root, site(fi, n, 'raise-after-consumption'))] = (fi, n)
    for (root, key), (fi, n) in sorted(cand.items(), key=lambda x: x[0]):
        rec = fail_after_sites.get((root, key))
        if rec is None:
            r.ok('C01.O4', f'{key}@{root}', 'not reachable after consumption under I1', src(fi.module), n.lineno)
        else:
            c = rec['consumed']
            r.fail('C01.O4', f'{key}@{root}',
                   f'failure exit reachable after `{c.list}.{c.op}` at line {c.line}: a granted put / a due move can fail '
                   f'(a condition between consumption and insertion is not implied by I1)', src(fi.module), n.lineno, rec['pa'].describe())
    for key, rec in sorted(succeed_sites.items()):
        e = rec['e']
        if rec['ok']:
            r.ok('C01.O8', key, 'guarded by `not triggered` / fresh event on every path', src(e.fi.module), e.line)
        else:
            r.fail('C01.O8', key, f'`{e.target}.succeed()` reachable without a `not {e.target}.triggered` guard or a fresh event in the same '
                                  f'atomic segment: a second call in the same instant raises RuntimeError', src(e.fi.module), e.line,
                   rec['pa'].describe())
    # every RP grant site of the hierarchy must have been reached by some explored path
    reach = w.reachable_methods()
    for fi, n, L, op in w.op_sites({RP}, ('append', 'insert')):
        if fi.key in reach and (fi.key, n.lineno, n.col_offset) not in grant_sites_seen:
            raise AnalysisError(f'{fi.key}:{n.lineno}: grant site not covered by any explored path')
    # capacity is never reassigned outside __init__
    for fi, val, line in p.self_attr_sites(s.ci.key).get('capacity', []) + p.self_attr_sites(s.ci.key).get('_capacity', []):
        if fi.name != '__init__':
            r.fail('C01.O0', f'{fi.key}::write(self.capacity)', 'capacity reassigned after construction', src(fi.module), line)


def reach_funcs(p, w: storewalk.StoreWalk, root):
    """functions reachable from one root via self-calls (flow-insensitive)."""
    store = w.store
    seen, out = set(), []
    work = [store.methods[root]]
    while work:
        fi = work.pop()
        if fi.key in seen:
            continue
        seen.add(fi.key)
        out.append(fi)
        for n in walk_no_nested(fi.node):
            if isinstance(n, ast.Call) and isinstance(n.func, ast.Attribute):
                v = n.func.value
                if isinstance(v, ast.Name) and v.id == 'self' and n.func.attr in store.methods \
                        and n.func.attr not in TRIGGERS and not store.methods[n.func.attr].is_generator:
                    work.append(store.methods[n.func.attr])
                elif isinstance(v, ast.Call) and isinstance(v.func, ast.Name) and v.func.id == 'super' and fi.cls:
                    t = p.super_method((fi.module, fi.cls), n.func.attr)
                    if t is not None:
                        work.append(t)
    return out


# -------------------------------------------------------------------------------------------- O5
def root_name(node):
    while isinstance(node, (ast.Attribute, ast.Subscript, ast.Call)):
        node = node.value if not isinstance(node, ast.Call) else node.func
    return node.id if isinstance(node, ast.Name) else None


def check_ownership(p: Project, r: Result):
    stores = {s.ci.key for s in tables.discover_stores(p)}
    store_mro_classes = set()
    for k in stores:
        for ci in p.mro(k):
            store_mro_classes.add(ci.key)
    n_sites = 0
    for fi in p.all_functions():
        in_store = fi.cls is not None and (fi.module, fi.cls) in store_mro_classes
        owner_attrs = set()
        if fi.cls is not None:
            owner_attrs = set(p.self_attr_sites((fi.module, fi.cls)))
        for n in walk_no_nested(fi.node):
            recv = None
            attr = None
            what = None
            if isinstance(n, ast.Call) and isinstance(n.func, ast.Attribute) and n.func.attr in MUTATORS \
                    and isinstance(n.func.value, ast.Attribute) and n.func.value.attr in ROLE_ATTRS:
                recv, attr, what = n.func.value.value, n.func.value.attr, n.func.attr
            elif isinstance(n, (ast.Assign, ast.AugAssign, ast.Delete)):
                tg = n.targets if isinstance(n, (ast.Assign, ast.Delete)) else [n.target]
                for t in tg:
                    base = t
                    sub = False
                    if isinstance(base, ast.Subscript):
                        base = base.value
                        sub = True
                    if isinstance(base, ast.Attribute) and base.attr in ROLE_ATTRS:
                        if fi.name == '__init__' and isinstance(base.value, ast.Name) and base.value.id == 'self' and not sub:
                            continue
                        recv, attr, what = base.value, base.attr, ('item-assign' if sub else 'rebind')
            if recv is None:
                continue
            n_sites += 1
            is_self = isinstance(recv, ast.Name) and recv.id == 'self'
            key = f'{fi.key}::{ast.unparse(recv)}.{attr}.{what}'
            if is_self and (in_store or attr in owner_attrs) and what != 'rebind':
                r.ok('C01.O5', key, 'mutation through self inside the owning class', src(fi.module), n.lineno)
                continue
            exc = OWNERSHIP_EXCEPTIONS.get((fi.module, fi.cls, fi.name, root_name(recv), attr))
            if exc:
                r.ok('C01.O5', key, f'named exception: {exc}', src(fi.module), n.lineno)
                continue
            if is_self and what == 'rebind' and not in_store and attr in owner_attrs:
                r.ok('C01.O5', key, 'rebinding an own attribute of a non-store class', src(fi.module), n.lineno)
                continue
            r.fail('C01.O5', key, f'store list `{attr}` mutated ({what}) through `{ast.unparse(recv)}` outside its owning class '
                                  f'(bypasses the admission test)', src(fi.module), n.lineno)
    r.stats['ownership_sites'] = n_sites


# -------------------------------------------------------------------------------------------- O6, O7
def check_store_ctor(p: Project, r: Result):
    """O6 (store side): every store __init__ hands its own `capacity` parameter unmodified to the base constructor."""
    for s in tables.discover_stores(p):
        for ci in p.mro(s.ci.key):
            init = ci.methods.get('__init__')
            if init is None:
                continue
            key = f'{init.key}::capacity-to-base'
            params = [a.arg for a in init.node.args.args]
            sup = None
            for n in walk_no_nested(init.node):
                if isinstance(n, ast.Call) and isinstance(n.func, ast.Attribute) and n.func.attr == '__init__' \
                        and isinstance(n.func.value, ast.Call) and ast.unparse(n.func.value.func) == 'super':
                    sup = n
            if sup is None or 'capacity' not in params:
                r.fail('C01.O6', key, 'store constructor does not forward a capacity parameter to its base class', src(ci.module), init.node.lineno)
                continue
            arg = sup.args[1] if len(sup.args) > 1 else next((k.value for k in sup.keywords if k.arg == 'capacity'), None)
            reassigned = [n for n in walk_no_nested(init.node) if isinstance(n, (ast.Assign, ast.AugAssign)) and n.lineno < sup.lineno
                          and any(isinstance(t, ast.Name) and t.id == 'capacity' for t in (n.targets if isinstance(n, ast.Assign) else [n.target]))]
            if arg is not None and ast.unparse(arg) == 'capacity' and not reassigned:
                r.ok('C01.O6', key, 'super().__init__(env, capacity)', src(ci.module), sup.lineno)
            else:
                r.fail('C01.O6', key, f'the base store is built with capacity `{ast.unparse(arg) if arg is not None else "(default)"}`, not with the capacity the '
                                      f'caller asked for', src(ci.module), sup.lineno)


def check_edges(p: Project, r: Result):
    check_store_ctor(p, r)
    base = tables.find_base(p, 'Edge', 'edges/edge.py')
    init = base.methods.get('__init__')
    if init is None:
        raise AnalysisError('Edge.__init__ missing')
    # Edge.__init__ must raise when capacity is not a positive int
    from .common import guards_reject
    guards = [n.test for n in walk_no_nested(init.node) if isinstance(n, ast.If) and n.body and isinstance(n.body[-1], ast.Raise) and 'capacity' in ast.unparse(n.test)]
    guards.sort(key=lambda t: (t.lineno, t.col_offset))
    ok = bool(guards) and guards_reject(guards, ('capacity', 'self.capacity'), bad=(0, -3, 2.5, None, '4'), good=(1, 7))
    # ... and nothing before the guards rewrites the value they look at (seed C01-h floors a float capacity into self.capacity first, the subclasses
    # then build their stores from the raw argument): the constructor as a whole, run abstractly for each representative value, rejects / accepts it
    from .common import abstract_rejects
    if ok:
        ok = all(abstract_rejects(p, base, init, {'capacity': v}, must=True) for v in (0, -3, 2.5, None, '4')) and \
            not any(abstract_rejects(p, base, init, {'capacity': v}, must=False) for v in (1, 7))
    key = f'{init.key}::capacity-validation'
    if ok:
        r.ok('C01.O6', key, 'raises unless isinstance(capacity, int) and capacity > 0', src(init.module), init.node.lineno)
    else:
        r.fail('C01.O6', key, 'Edge.__init__ no longer rejects non-int / non-positive capacity', src(init.module), init.node.lineno)
    for ci in tables.edge_classes(p):
        attr, skeys = tables.edge_store_attr(p, ci)
        einit = ci.methods.get('__init__')
        if einit is None:
            raise AnalysisError(f'{ci.label}.__init__ missing')
        r.analysed_functions.add(einit.key)
        # capacity expression handed to super().__init__ and to the store constructor
        sup_arg = None
        store_arg = None
        for n in walk_no_nested(einit.node):
            if isinstance(n, ast.Call) and isinstance(n.func, ast.Attribute) and n.func.attr == '__init__' \
                    and isinstance(n.func.value, ast.Call) and ast.unparse(n.func.value.func) == 'super':
                if len(n.args) >= 3:
                    sup_arg = n.args[2]
                for k in n.keywords:
                    if k.arg == 'capacity':
                        sup_arg = k.value
            if isinstance(n, ast.Assign) and len(n.targets) == 1 and self_attr(n.targets[0]) == attr and isinstance(n.value, ast.Call):
                c = n.value
                if len(c.args) >= 2:
                    store_arg = c.args[1]
                for k in c.keywords:
                    if k.arg == 'capacity':
                        store_arg = k.value
        key = f'{einit.key}::store-capacity'
        if sup_arg is None or store_arg is None:
            r.fail('C01.O6', key, 'cannot find the capacity passed to Edge.__init__ / to the store constructor', src(ci.module), einit.node.lineno)
            continue
        sa, st_ = ast.unparse(sup_arg), ast.unparse(store_arg)
        own_writes = [ast.unparse(v) for fi, v, _ in p.self_attr_sites(ci.key).get('capacity', []) if fi.cls == ci.name and v is not None]
        same = (st_ == sa) or (st_ == 'self.capacity' and all(w == sa for w in own_writes))
        # the local must not be reassigned between the two uses
        if same and isinstance(sup_arg, ast.Name):
            assigns = [n for n in walk_no_nested(einit.node) if isinstance(n, (ast.Assign, ast.AugAssign))
                       and any(isinstance(t, ast.Name) and t.id == sup_arg.id for t in (n.targets if isinstance(n, ast.Assign) else [n.target]))]
            if len(assigns) > 1 or any(isinstance(a, ast.AugAssign) for a in assigns):
                same = False
        if same:
            r.ok('C01.O6', key, f'store gets `{st_}` = validated `{sa}`', src(ci.module), einit.node.lineno)
        else:
            r.fail('C01.O6', key, f'store is built with capacity `{st_}` but Edge.__init__ validated `{sa}` '
                                  f'(self.capacity writes: {own_writes})', src(ci.module), einit.node.lineno)
        # O7 delegation
        for name in EDGE_API:
            fi = ci.methods.get(name)
            if fi is None:
                continue
            r.analysed_functions.add(fi.key)
            ex = paths.Explorer(p, ci.key, tracked=set(), proto=set(EDGE_API) | {'handle_new_item_during_interruption'},
                                atomic=set(m for m in p.methods(ci.key) if m not in ()), unroll=1)
            ps = ex.paths(fi)
            r.paths += len(ps)
            bad = None
            for pa in ps:
                if pa.raises:
                    continue
                n = sum(1 for e in pa.events if e.kind == 'pcall' and e.name == name and e.recv == f'self.{attr}')
                if n != 1:
                    bad = (pa, n)
            key = f'{fi.key}::delegates(self.{attr}.{name})'
            if bad is None:
                r.ok('C01.O7', key, f'exactly one self.{attr}.{name}(...) on each of {len(ps)} path(s)', src(fi.module), fi.node.lineno)
            else:
                r.fail('C01.O7', key, f'{bad[1]} calls of self.{attr}.{name}(...) on a non-raising path (expected exactly 1)',
                       src(fi.module), fi.node.lineno, bad[0].describe())
