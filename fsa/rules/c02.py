from ..model import AnalysisError
PROP = 'C02'
LEVEL = 'other'


def run(p, tier):
    raise AnalysisError('rule module for C02 not implemented yet (fail closed)')
