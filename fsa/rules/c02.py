"""C02 - stores conserve items: every get returns one distinct, previously put item (store level, partial).

  R1 multiset neutrality: along every non-raising path of every entry point / process the objects removed
     from the holding lists minus those re-added are {returned} for get, −{item} for put, ∅ otherwise
     (symbolic object identity modulo the wrap shape of R2);
  R2 wrap/unwrap agreement: the element shape an Edge.put stores is the shape move_to_ready_items unwraps;
     Edge.get returns what the store's get returns;
  R3 binding discipline, read off the binder `_do_reserve_get` (prefix / suffix / positional), is preserved
     by every other mutator of A, RE, RI (arrivals, get, cancellation) - symbolic index algebra;
  R4 lock-step: |RE| = |RG| (= |RI|) at every stable point, the get-grant is guarded by the strict
     |RG| < |A|, and nothing runs between RG.append and the RE/RI append (binding is atomic).
"""
from __future__ import annotations

import ast
from collections import Counter

from .. import lin, paths, storewalk, tables
from ..model import AnalysisError, Project, self_attr, walk_no_nested
from ..report import Result, ctx_of
from ..tables import RP, RG, RE, RI, TRIGGERS
from .common import events_atoms, site, src, sum_lin, status_str

PROP = 'C02'
LEVEL = 'other'


def run(p: Project, tier: str) -> Result:
    r = Result(PROP)
    r.explanation = ('Store-level conservation: symbolic multiset neutrality of every entry point, wrap/unwrap agreement between edge and '
                     'store, the binding discipline (which item a granted retrieval owns) preserved by every mutator, lock-step of the '
                     'binding lists. Necessary conditions; with the known findings repaired they are the whole inductive argument.')
    r.rule('C02.R1', 'multiset neutrality of every store entry point / process', 50)
    r.rule('C02.R2', 'edge wrap shape = store unwrap shape; Edge.get returns the store item', 8)
    r.rule('C02.R3', 'binding discipline preserved by arrivals, get and cancellation', 24)
    r.rule('C02.R4', 'lock-step |RE| = |RG| (= |RI|); strict get-grant guard; atomic binding', 40)
    r.assumptions = ['object identity of items is tracked through list positions and locals', 'cooperative scheduling']
    r.not_decided = ['belt-specific timing; everything above the store level is C03']
    ws = storewalk.walks(p, assume_inv=('I1',))
    for w in ws:
        r.ctx = ctx_of(w)
        r.paths += w.npaths
        check_multiset(p, w, r, 'C02.R1')
        binding_checks(p, w, r, 'C02.R3', which=('binder', 'arrival', 'get', 'cancel'))
        check_lockstep(p, w, r, 'C02.R4')
    check_wrap(p, ws, r, 'C02.R2')
    check_index_agreement(ws, r)
    check_mutator_vocabulary(p, ws, r)
    check_no_failure_after_removal(ws, r)
    r.ctx = ''
    check_items_compare_by_identity(p, r)
    return r


def check_items_compare_by_identity(p, r):
    """R8: the stores take 'exactly the bound item' out with `ready_items.remove(item)` / `items.index(item)`: the first element that compares EQUAL
    goes.  That is the bound object only while flow items compare by identity - a __eq__ on the id (or a @dataclass) lets a get return one object and
    remove its twin: the returned item is still inside, the other one has vanished."""
    from .common import value_equality_classes, class_family
    r.rule('C02.R8', 'flow items compare by identity (no __eq__ / @dataclass in the classes of objects kept in store lists)', 0)
    n = 0
    for rel, c, how, line in value_equality_classes(p):
        fam = class_family(p, rel, c)
        subclasses = [x.name for m in p.raw().modules.values() for x in ast.walk(m.tree) if isinstance(x, ast.ClassDef) and c.name in class_family(p, rel, x)]
        if rel.startswith('helper/') or 'BaseFlowItem' in fam or any(s_ in ('Item', 'Pallet', 'BaseFlowItem') for s_ in subclasses):
            n += 1
            r.fail('C02.R8', f'{rel}::{c.name}::value-equality', f'{c.name} {how}: list.remove / list.index in the stores then match the first EQUAL item, not the '
                                                                f'bound object - one item is handed out twice and its twin disappears', src(rel), line)
    r.ok('C02.R8', 'package::R8-scan', f'{n} flow-item class(es) with value equality', '', 0)
    r.canaries['C02.R8'] = bool(list(_canary_hits()))


def _canary_hits():
    t = ast.parse('from dataclasses import dataclass\n@dataclass\nclass Part(BaseFlowItem):\n    id: str\n')
    for c in ast.walk(t):
        if isinstance(c, ast.ClassDef) and any(ast.unparse(d).endswith('dataclass') for d in c.decorator_list):
            yield c


def check_no_failure_after_removal(ws, r):
    """R7: once `get` has taken the item out of the holding lists it returns it: no raising exit is reachable after the removal.  (A test of the
    removed item itself - `if item:` instead of `if item is not None:` - makes every falsy item, 0 or '' or an empty kit, vanish: removed, never
    returned, and the call fails although the reservation was granted.)"""
    r.rule('C02.R7', 'get has no failure exit after the item has left the holding lists', 6)
    for w in ws:
        r.ctx = ctx_of(w)
        s = w.store
        H = set(s.holders)
        fi = w.root_funcs['get']
        r.analysed_functions.add(fi.key)
        key = f'{s.ci.label}.get::no-failure-after-removal'
        bad = None
        n = 0
        for pa in w.roots['get']:
            evs = pa.events
            rm = next((i for i, e in enumerate(evs) if e.kind == 'op' and e.list in H and e.op in ('pop', 'remove')), None)
            if rm is None:
                continue
            n += 1
            if pa.raises and pa.status[1] not in ('<loopcut>', '<backedge>'):
                last_cond = next((e for e in reversed(evs[rm:]) if e.kind == 'cond' and not e.d.get('synthetic')), None)
                bad = bad or (pa, f'get removes the item from `{evs[rm].list}` and then fails with {pa.status[1]}'
                                  + (f' when `{last_cond.text}` is {bool(last_cond.polarity)}' if last_cond is not None else '')
                                  + ': the item is gone from the store and was never handed out')
        if n == 0:
            continue
        (r.ok if not bad else r.fail)('C02.R7', key, f'{n} path(s) remove an item, all of them return it' if not bad else bad[1], src(fi.module), fi.node.lineno,
                                      *([bad[0].describe()] if bad else []))


COVERED_OPS = {'append', 'insert', 'pop', 'remove', 'index', 'count', 'copy'}


def check_mutator_vocabulary(p, ws, r):
    """R6: the inductive argument of R1-R4 speaks about append / insert / pop / remove on the holding and binding lists.  Any other in-place
    operation on them - sort, reverse, clear, extend, slice / item assignment, `del`, re-binding the attribute outside the constructor - moves
    or drops items behind the back of that argument: re-ordering the available list while retrievals are bound to positions of it hands two
    tokens the same item (or none), clearing or re-binding a holder loses items."""
    r.rule('C02.R6', 'holding and binding lists are changed only by append / insert / pop / remove (no re-ordering, clearing, slicing, re-binding)', 6)
    seen = set()
    for w in ws:
        r.ctx = ctx_of(w)
        s = w.store
        roles = set(s.holders) | {s.avail, RE, RG, RP} | ({RI} if s.has_ri else set())
        n_ops = 0
        bad = []
        for fi in w.all_hierarchy_functions():
            if fi.key in seen:
                continue
            seen.add(fi.key)
            r.analysed_functions.add(fi.key)
            for n in walk_no_nested(fi.node):
                if isinstance(n, ast.Call) and isinstance(n.func, ast.Attribute) and self_attr(n.func.value) in roles:
                    n_ops += 1
                    if n.func.attr not in COVERED_OPS:
                        bad.append((fi, n, self_attr(n.func.value), f'.{n.func.attr}()'))
                elif isinstance(n, (ast.Assign, ast.AugAssign, ast.AnnAssign, ast.Delete)):
                    for t in (n.targets if isinstance(n, (ast.Assign, ast.Delete)) else [n.target]):
                        for tt in (t.elts if isinstance(t, (ast.Tuple, ast.List)) else [t]):
                            if isinstance(tt, ast.Subscript) and self_attr(tt.value) in roles:
                                bad.append((fi, n, self_attr(tt.value), 'item / slice assignment' if not isinstance(n, ast.Delete) else '`del` of an element or slice'))
                            elif self_attr(tt) in roles and fi.name != '__init__':
                                bad.append((fi, n, self_attr(tt), 're-binding of the attribute'))
        key = f'{s.ci.label}::mutator-vocabulary'
        if n_ops == 0 and not bad:
            continue
        if not bad:
            r.ok('C02.R6', key, f'{n_ops} operation(s) on {sorted(roles)}: all within append / insert / pop / remove / index', src(s.ci.module), s.ci.node.lineno)
        for fi, n, L, what in bad:
            r.fail('C02.R6', site(fi, n, f'uncovered-mutation:{L}', same=lambda x, n=n: type(x) is type(n)) if not isinstance(n, ast.Call) else site(fi, n, f'uncovered-mutation:{L}'),
                   f'`self.{L}` is changed by {what} in {fi.cls}.{fi.name}: '
                   + ('re-ordering the list while granted retrievals are bound to its positions gives two tokens the same item or leaves one without'
                      if what in ('.sort()', '.reverse()') and L in (s.avail, RE, RI) else
                      'items / reservations are moved or dropped outside the operations the conservation argument covers'),
                   src(fi.module), n.lineno)


# -------------------------------------------------------------------------------------------- R1
def payload(v, L, store):
    """identity of the flow item carried by list element value v of list L"""
    if store.wraps and L == 'items':
        if v is not None and v[0] == 'tuple' and len(v[1]) == 2:
            return v[1][0]
        return ('sub', v, ('const', 0))
    return v


def check_multiset(p, w, r, rule):
    s = w.store
    H = set(s.holders)
    for root, ps in w.roots.items():
        if root in TRIGGERS:
            continue
        fi = w.root_funcs[root]
        r.analysed_functions.add(fi.key)
        key = f'{s.ci.label}.{root}::multiset'
        bad = None
        n = 0
        params = [a.arg for a in fi.node.args.args if a.arg != 'self']
        for pa in ps:
            if pa.raises or pa.status == 'loopcut':
                continue
            n += 1
            removed = Counter()
            added = Counter()
            for e in pa.events:
                if e.kind == 'op' and e.list in H:
                    if e.op == 'pop':
                        removed[payload(e.result, e.list, s)] += 1
                    elif e.op == 'remove':
                        removed[payload(e.val, e.list, s)] += 1
                    elif e.op in ('append', 'insert'):
                        added[payload(e.val, e.list, s)] += 1
                elif e.kind in ('listcall', 'rebind') and e.d.get('list') in H:
                    bad = (pa, f'`{e.d.get("list")}` is modified by `{e.d.get("op", "rebinding")}`, which the conservation argument does not cover')
            net_out = removed - added
            net_in = added - removed
            if root == 'get':
                ret = pa.st.ret
                want = Counter({ret: 1})
                if net_in or net_out != want:
                    bad = (pa, f'get removes {fmt(net_out)} and adds {fmt(net_in)}; it must remove exactly the item it returns ({short(ret)})')
            elif root == 'put':
                itemv = ('param', params[1]) if len(params) > 1 else None
                want = Counter({payload(itemv, 'items', s): 1})
                if net_out or net_in != want:
                    bad = (pa, f'put adds {fmt(net_in)} and removes {fmt(net_out)}; it must add exactly its item argument')
            else:
                if net_in or net_out:
                    bad = (pa, f'{root} is not neutral: removes {fmt(net_out)}, adds {fmt(net_in)} (item lost or duplicated)')
        if n == 0:
            continue
        if bad:
            r.fail(rule, key, bad[1], src(fi.module), fi.node.lineno, bad[0].describe())
        else:
            r.ok(rule, key, f'neutral on {n} non-raising path(s)', src(fi.module), fi.node.lineno)


def short(v):
    s_ = repr(v)
    return s_ if len(s_) < 70 else s_[:67] + '...'


def fmt(c: Counter):
    return '{' + ', '.join(f'{short(k)}×{n}' for k, n in c.items()) + '}' if c else '∅'


# -------------------------------------------------------------------------------------------- R2
def check_wrap(p, ws, r, rule):
    bykey = {w.store.ci.key: w for w in ws}
    for ci in tables.edge_classes(p):
        attr, skeys = tables.edge_store_attr(p, ci)
        s = bykey[skeys[0]].store
        for mname in ('put', 'get'):
            fi = ci.methods.get(mname)
            if fi is None:
                continue
            r.analysed_functions.add(fi.key)
            ex = paths.Explorer(p, ci.key, tracked=set(), atomic=set(p.methods(ci.key)), proto={'put', 'get', 'handle_new_item_during_interruption'}, unroll=1)
            ps = ex.paths(fi)
            r.paths += len(ps)
            key = f'{fi.key}::{"wrap" if mname == "put" else "returns-store-item"}'
            bad = None
            par = [a.arg for a in fi.node.args.args if a.arg != 'self']
            for pa in ps:
                if pa.raises:
                    continue
                calls = [e for e in pa.events if e.kind == 'pcall' and e.name == mname and e.recv == f'self.{attr}']
                if len(calls) != 1:
                    continue        # delegation count is C01.O7
                c = calls[0]
                if mname == 'put':
                    itemv = ('param', par[1]) if len(par) > 1 else None
                    a = c.args[1] if len(c.args) > 1 else None
                    if s.wraps:
                        okw = a is not None and a[0] == 'tuple' and len(a[1]) == 2 and a[1][0] == itemv
                        if not okw:
                            bad = (pa, f'the store unwraps element[0] when an item turns ready, but the edge stores {short(a)} (expected (item, delay))')
                    else:
                        if a != itemv:
                            bad = (pa, f'the store keeps elements as they are, but the edge stores {short(a)} instead of the item')
                else:
                    if pa.st.ret != c.result:
                        bad = (pa, f'Edge.get returns {short(pa.st.ret)}, not the item returned by the store')
            if bad:
                r.fail(rule, key, bad[1], src(fi.module), fi.node.lineno, bad[0].describe())
            else:
                r.ok(rule, key, '(item, delay) tuples' if (mname == 'put' and s.wraps) else ('bare items' if mname == 'put' else 'store item returned'),
                     src(fi.module), fi.node.lineno)


# -------------------------------------------------------------------------------------------- R3
def binder_disciplines(p, w):
    """{mode-polarity-or-None: (kind, event)} read off the granting paths of _do_reserve_get."""
    s = w.store
    fi = s.methods['_do_reserve_get']
    ex = paths.Explorer(p, s.ci.key, tracked=set(s.lists), atomic={tables.LEVEL_UPDATER, *TRIGGERS}, unroll=2)
    out = {}
    problems = []
    for pa in ex.paths(fi):
        if pa.raises:
            continue
        grant = next((e for e in pa.events if e.kind == 'op' and e.list == RG and e.op == 'append'), None)
        if grant is None:
            continue
        mode = mode_polarity(pa)
        if s.has_ri:
            b = next((e for e in pa.events if e.kind == 'op' and e.list == RI and e.op == 'append'), None)
            if b is None:
                problems.append((pa, grant, 'granting path records no bound item in reserved_items'))
                continue
            v = b.val
            re_before = None
            for e in pa.events:
                if e.kind == 'op' and e.list == RE and e.op == 'append':
                    re_before = e.len_before
            if not (v is not None and v[0] == 'elem' and v[1] == s.avail):
                problems.append((pa, b, f'bound item is {short(v)}, not an element of {s.avail}'))
                continue
            idx = v[2]
            il = as_lin(idx)
            re0 = re_before if re_before is not None else lin.lvar(RE)     # |RE| just before this binding is recorded
            if il is not None and lin.norm(il) == lin.norm(re0):
                out[mode] = ('prefix', b, pa)
            elif il is not None and lin.norm(il) == lin.norm(lin.ladd(lin.lconst(-1), re0, -1)):
                out[mode] = ('suffix', b, pa)
            else:
                problems.append((pa, b, f'binder index {short(idx)} is neither |RE| (FIFO) nor −1−|RE| (LIFO)'))
        else:
            b = next((e for e in pa.events if e.kind == 'op' and e.list == RE and e.op == 'append'), None)
            if b is None:
                problems.append((pa, grant, 'granting path records no binding in reserved_events'))
                continue
            out[mode] = ('positional', b, pa)
    return out, problems


def as_lin(v):
    if v is None:
        return None
    if v[0] == 'lin':
        return dict(v[1])
    if v[0] == 'const' and isinstance(v[1], int):
        return lin.lconst(v[1])
    return None


def mode_polarity(pa):
    """True: the path runs in FIFO mode, False: LIFO, None: not tested (by value: `==` / `!=`, either operand order, either literal)"""
    for e in pa.events:
        if e.kind != 'cond' or e.d.get('synthetic'):
            continue
        ops = e.d.get('operands')
        if ops and ops[0] in ('Eq', 'NotEq') and ('self', 'mode') in (ops[1], ops[2]):
            other = ops[2] if ops[1] == ('self', 'mode') else ops[1]
            if other in (('const', 'FIFO'), ('const', 'LIFO')):
                is_eq = (ops[0] == 'Eq') == e.polarity
                return is_eq if other[1] == 'FIFO' else (not is_eq)
        if 'self.mode' in e.text and 'FIFO' in e.text and '!=' not in e.text:
            return e.polarity
        if 'self.mode' in e.text and 'LIFO' in e.text and '!=' not in e.text:
            return not e.polarity
    return None


def mode_name(m):
    return {True: 'FIFO', False: 'LIFO', None: 'FIFO'}[m]


def discipline_for(disc, mode):
    if mode in disc:
        return disc[mode]
    if None in disc:
        return disc[None]
    if mode is None and len(disc) == 1:
        return list(disc.values())[0]
    return None


def feasible_modes(p, store):
    """polarities of `self.mode == 'FIFO'` that a constructor of this class can produce (a subclass may fix the mode)"""
    init = store.ci.methods.get('__init__')
    if init is None:
        return {True, False, None}
    for n in walk_no_nested(init.node):
        if isinstance(n, ast.Call) and isinstance(n.func, ast.Attribute) and n.func.attr == '__init__' \
                and isinstance(n.func.value, ast.Call) and ast.unparse(n.func.value.func) == 'super':
            for k in n.keywords:
                if k.arg == 'mode' and isinstance(k.value, ast.Constant):
                    return {k.value.value == 'FIFO', None}
    return {True, False, None}


def binding_checks(p, w, r, rule, which=('binder', 'arrival', 'get', 'cancel')):
    s = w.store
    A = s.avail
    disc, problems = binder_disciplines(p, w)
    feas = feasible_modes(p, s)
    disc = {m: d for m, d in disc.items() if m in feas}
    bfi = s.methods['_do_reserve_get']
    r.analysed_functions.add(bfi.key)
    if 'binder' in which:
        for pa, e, msg in problems:
            r.fail(rule, f'{s.ci.label}._do_reserve_get::binder', msg, src(e.fi.module), e.line, pa.describe())
        if not disc and not problems:
            r.fail(rule, f'{s.ci.label}._do_reserve_get::binder', 'no granting path found', src(bfi.module), bfi.node.lineno)
        for mode, (kind, e, pa) in disc.items():
            k = f'{s.ci.label}._do_reserve_get::binder[{mode_name(mode)}]'
            if mode in (True, None) and kind == 'suffix':
                r.fail(rule, k, f'a FIFO store binds {A}[−1−|RE|], the most recently available item, instead of the first unreserved one',
                       src(e.fi.module), e.line, pa.describe())
            elif mode is False and kind != 'suffix':
                r.fail(rule, k, f'LIFO mode binds {A}[|RE|], the oldest unreserved item, instead of the most recent one', src(e.fi.module), e.line, pa.describe())
            else:
                r.ok(rule, k, f'{kind}: binds {A}[{"|RE|" if kind != "suffix" else "−1−|RE|"}]', src(e.fi.module), e.line)
    if not disc:
        return
    # ---- arrivals: appends to A outside the cancellation
    if 'arrival' in which:
        seen = {}
        for root, ps in w.roots.items():
            if root in ('reserve_get_cancel',) or root in TRIGGERS:
                continue
            for pa in ps:
                if pa.raises:
                    continue
                for e in pa.events:
                    if e.kind == 'op' and e.list == A and e.op in ('append', 'insert'):
                        for mode, (kind, _, _) in disc.items():
                            key = site(e.fi, e.node, f'arrival:{A}.{e.op}') + f'[{mode_name(mode)}]'
                            ok, why = arrival_ok(kind, e)
                            rec = seen.setdefault(key, {'ok': True, 'e': e, 'pa': pa, 'why': why})
                            if not ok and rec['ok']:
                                rec.update(ok=False, pa=pa, why=why)
        for key, rec in sorted(seen.items()):
            e = rec['e']
            if rec['ok']:
                r.ok(rule, key, rec['why'], src(e.fi.module), e.line)
            else:
                r.fail(rule, key, rec['why'], src(e.fi.module), e.line, rec['pa'].describe())
    # ---- get: removes the bound item, same index in the parallel lists
    if 'get' in which:
        gfi = w.root_funcs['get']
        key = f'{s.ci.label}.get::removes-bound-item'
        bad = None
        n = 0
        for pa in w.roots['get']:
            if pa.raises:
                continue
            n += 1
            ok, why = get_ok(s, pa)
            if not ok:
                bad = (pa, why)
        if bad:
            r.fail(rule, key, bad[1], src(gfi.module), gfi.node.lineno, bad[0].describe())
        elif n:
            r.ok(rule, key, 'index of the token in reserved_events selects the item; token and item leave the parallel lists together',
                 src(gfi.module), gfi.node.lineno)
    # ---- cancellation of a granted retrieval
    if 'cancel' in which:
        cfi = w.root_funcs['reserve_get_cancel']
        recs = {}
        for pa in w.roots['reserve_get_cancel']:
            if pa.raises:
                continue
            if not any(e.kind == 'op' and e.list == RG and e.op in ('remove', 'pop') for e in pa.events):
                continue
            mode = mode_polarity(pa)
            modes = [mode] if mode is not None or len(disc) == 1 else list(disc)
            for m in modes:
                d = discipline_for(disc, m)
                if d is None:
                    continue
                kind = d[0]
                key = f'{s.ci.label}.reserve_get_cancel::reinsert[{mode_name(m)}]'
                ok, why, ev = cancel_ok(s, kind, pa)
                rec = recs.setdefault(key, {'ok': True, 'pa': pa, 'why': why, 'line': ev.line if ev else cfi.node.lineno})
                if not ok and rec['ok']:
                    rec.update(ok=False, pa=pa, why=why, line=ev.line if ev else cfi.node.lineno)
        for key, rec in sorted(recs.items()):
            if rec['ok']:
                r.ok(rule, key, rec['why'], src(cfi.module), rec['line'])
            else:
                r.fail(rule, key, rec['why'], src(cfi.module), rec['line'], rec['pa'].describe())


def arrival_ok(kind, e):
    if kind in ('prefix', 'positional'):
        if e.op == 'append':
            return True, 'appended behind every reserved item (the reserved block is a prefix)'
        return False, f'arrival inserted at {short(e.idx)}: it can split the reserved prefix block'
    # suffix (LIFO): the reserved block is the top of the list; an append lands on top of it
    if e.op == 'append':
        return False, ('LIFO binds the top |RE| items, but a new arrival is appended on top of them: with a reservation outstanding the next '
                       'reservation is bound to an item that is already reserved (duplicate binding)')
    return True, 'inserted below the reserved suffix block'


def get_ok(s, pa):
    evs = pa.events
    idx_ev = next((e for e in evs if e.kind == 'index' and e.list == RE), None)
    if idx_ev is None:
        return False, 'get does not locate the token in reserved_events'
    k = idx_ev.result
    tok = idx_ev.val
    re_rm = [e for e in evs if e.kind == 'op' and e.list == RE and e.op in ('pop', 'remove')]
    if len(re_rm) != 1:
        return False, f'{len(re_rm)} removals from reserved_events'
    e = re_rm[0]
    if not ((e.op == 'pop' and same_index(e.idx, k)) or (e.op == 'remove' and e.val == tok)):
        return False, 'the entry removed from reserved_events is not the token of this get'
    if s.has_ri:
        ri = [x for x in evs if x.kind == 'op' and x.list == RI and x.op in ('pop', 'remove')]
        if len(ri) != 1 or ri[0].op != 'pop' or not same_index(ri[0].idx, k):
            return False, 'reserved_items is not popped at the index the token had in reserved_events'
        item = ri[0].result
        a = [x for x in evs if x.kind == 'op' and x.list == s.avail and x.op in ('pop', 'remove')]
        if len(a) != 1 or not (a[0].op == 'remove' and a[0].val == item):
            return False, f'the item removed from {s.avail} is not the one bound to the token'
        if pa.st.ret != item:
            return False, 'get returns something other than the bound item'
    else:
        a = [x for x in evs if x.kind == 'op' and x.list == s.avail and x.op in ('pop', 'remove')]
        if len(a) != 1 or a[0].op != 'pop' or not same_index(a[0].idx, k):
            return False, f'{s.avail} is not popped at the index the token has in reserved_events'
        # the index must have been computed while both lists were aligned (before either was modified)
        if pa.st.ret != a[0].result:
            return False, 'get returns something other than the item at the token position'
    return True, ''


def same_index(a, b):
    return a is not None and b is not None and a[:3] == b[:3]


def cancel_ok(s, kind, pa):
    evs = pa.events
    A = s.avail
    ins = [e for e in evs if e.kind == 'op' and e.list == A and e.op in ('insert', 'append')]
    rem = [e for e in evs if e.kind == 'op' and e.list == A and e.op in ('pop', 'remove')]
    if not ins and not rem and kind in ('prefix', 'positional'):
        # "nothing to move": under the prefix / positional discipline the item of the token at index k of RE sits at index k of A; when the path
        # conditions say k == |RE| after the cancellation, that is exactly where it would be re-inserted
        re_ops = [x for x in evs if x.kind == 'op' and x.list == RE]
        for e in evs:
            ops = e.d.get('operands') if e.kind == 'cond' and not e.d.get('synthetic') else None
            if not ops or ops[0] not in ('Eq', 'NotEq') or (ops[0] == 'Eq') != bool(e.polarity):
                continue
            # |RE| as it is when the test is made - which must be after the token has left RE
            if not re_ops or evs.index(re_ops[-1]) > evs.index(e):
                continue
            re_final = lin.norm(sum_lin([RE], e.d.get('g', {}), e.d.get('dl', {})))
            for a_, b_ in ((ops[1], ops[2]), (ops[2], ops[1])):
                if a_ and b_ and a_[0] == 'index' and a_[1] == RE and b_[0] == 'lin' and tuple(b_[1]) == tuple(re_final):
                    return True, 'released item is already the first unreserved one (token index = |RE| after the cancellation): nothing to move', e
    if len(ins) != 1 or len(rem) != 1:
        return False, f'cancellation performs {len(rem)} removal(s) and {len(ins)} insertion(s) on {A} (expected 1 and 1)', (ins or rem or [None])[0]
    i, rm = ins[0], rem[0]
    if evs.index(rm) > evs.index(i):
        return False, 'the released item is re-inserted before it is taken out', i
    moved = rm.result if rm.op == 'pop' else rm.val
    if i.val != moved:
        return False, 'the item re-inserted is not the item released', i
    if i.op == 'append':
        idx = i.len_before
    else:
        idx = as_lin(i.idx)
    if idx is None:
        return False, f're-insertion index {short(i.idx)} is not a linear expression of the list lengths', i
    # |RE| when the cancellation has finished its own work: at the first trigger call after the insertion (before the
    # service loop runs), else at the end of the path
    after = [x for x in evs[evs.index(i):] if x.kind == 'call' and x.name in TRIGGERS]
    re_ops = [x for x in evs if x.kind == 'op' and x.list == RE]
    if after and (not re_ops or evs.index(re_ops[-1]) < evs.index(after[0])):
        re_final = sum_lin([RE], after[0].g, after[0].dl)
    else:
        re_final = sum_lin([RE], pa.st.gen, pa.st.delta)
    a_at_insert = i.len_before           # |A| after the removal, before the insertion
    if kind in ('prefix', 'positional'):
        want = re_final
        desc = '|RE| after the cancellation (first among the unreserved items)'
    else:
        want = lin.ladd(a_at_insert, re_final, -1)
        desc = '|A| − |RE| after the cancellation (just below the reserved top block)'
    if lin.norm(idx) != lin.norm(want):
        return False, (f'released item re-inserted at index {lin.show(idx)}, the {kind} discipline of the binder needs {lin.show(want)} = {desc}: '
                       f'items change order / a later reservation is bound to an item that is already reserved'), i
    # the token leaves RE (and RI) at the same index
    return True, f're-inserted at {lin.show(idx)} = {desc}', i


# -------------------------------------------------------------------------------------------- R4
def check_lockstep(p, w, r, rule):
    s = w.store
    lists = [RE, RG] + ([RI] if s.has_ri else [])
    sites = {}
    for root, ps in w.roots.items():
        for pa in ps:
            if pa.raises:
                continue
            evs = pa.events
            base = {L: 0 for L in lists}

            failed = [False]

            def check_point(g, dl, label, e):
                if failed[0]:
                    return
                key = f'{s.ci.label}.{root}::lockstep@{label}'
                # deltas relative to the last stable point must be equal (generations are bumped together at yields)
                d = [dl.get(L, 0) for L in lists]
                gen = [g.get(L, 0) for L in lists]
                ok = len(set(d)) == 1
                rec = sites.setdefault(key, {'ok': True, 'e': e, 'pa': pa, 'why': ''})
                if not ok:
                    failed[0] = True
                if not ok and rec['ok']:
                    rec.update(ok=False, pa=pa, e=e, why='Δ' + ', Δ'.join(f'|{L}|={x:+d}' for L, x in zip(lists, d)) + ' at this point: the binding lists are out of step')
            for i, e in enumerate(evs):
                if e.kind == 'yield':
                    check_point(e.g, e.dl, f'yield#{e.line}', e)
                elif e.kind == 'call' and e.name in TRIGGERS:
                    check_point(e.g, e.dl, f'call:{e.name}', e)
                    # atomic binding: a trigger call between RG.append and the RE append
                elif e.kind == 'op' and e.list == RG and e.op == 'append':
                    # find the matching RE append; nothing that reads the lists may run in between
                    key = site(e.fi, e.node, 'atomic-binding')
                    rec = sites.setdefault(key, {'ok': True, 'e': e, 'pa': pa, 'why': ''})
                    j = next((k for k in range(i + 1, len(evs)) if evs[k].kind == 'op' and evs[k].list == RE and evs[k].op == 'append'), None)
                    between = evs[i + 1:j] if j is not None else evs[i + 1:]
                    bad = [x for x in between if x.kind in ('call', 'yield', 'enter') and (x.kind != 'enter' or x.name in TRIGGERS or x.name.startswith('_do_reserve'))]
                    if (j is None or bad) and rec['ok']:
                        what = 'the binding is never recorded' if j is None else f'`{bad[0].d.get("name", "yield")}` runs at line {bad[0].line}'
                        rec.update(ok=False, pa=pa, e=e, why=f'between reservations_get.append and reserved_events.append {what}: '
                                                              f'the service loop can re-enter with |RG| ≠ |RE| and bind / pop the wrong entry')
                    # strict guard
                    key2 = site(e.fi, e.node, 'strict-get-guard')
                    rec2 = sites.setdefault(key2, {'ok': True, 'e': e, 'pa': pa, 'why': ''})
                    atoms = events_atoms(evs[:i])
                    before = dict(e.dl)
                    before[RG] = before.get(RG, 0) - 1
                    strict = ('<', lin.norm(lin.ladd(sum_lin([RG], e.g, before), sum_lin([s.avail], e.g, e.dl), -1)))
                    if not lin.implies(atoms, strict) and rec2['ok']:
                        rec2.update(ok=False, pa=pa, e=e, why=f'retrieval granted although `{lin.atom_show(strict)}` is not implied: a reservation without its own item')
            check_point(pa.st.gen, pa.st.delta, f'exit[{status_str(pa.status)}]', None)
    for key, rec in sorted(sites.items()):
        e = rec['e']
        fi = e.fi if e is not None else None
        f = src(fi.module) if fi else src(s.ci.module)
        line = e.line if e is not None else s.ci.node.lineno
        if rec['ok']:
            r.ok(rule, key, 'in step', f, line)
        else:
            r.fail(rule, key, rec['why'], f, line, rec['pa'].describe())


def check_index_agreement(ws, r):
    """R5: `L.pop(i)` / `L.insert(i, x)` / `del L[i]` with an index obtained by `M.index(y)` needs M is L (or its lock-step twin
    reserved_events / reserved_items): an index looked up in one list and applied to another removes an unrelated element."""
    r.rule('C02.R5', 'an index obtained from `M.index(x)` is only applied to M (or to the list kept in lock-step with it)', 8)
    sites = {}
    for w in ws:
        r.ctx = ctx_of(w)
        TWINS = {frozenset((RE, RI))}
        if not w.store.has_ri:
            TWINS.add(frozenset((RE, w.store.avail)))       # positional binding: reserved_events[k] owns <available list>[k]
        for root, ps in w.roots.items():
            for pa in ps:
                for e in pa.events:
                    if e.kind == 'op' and e.op in ('pop', 'insert') and e.idx is not None and e.idx[0] == 'index':
                        key = site(e.fi, e.node, f'index-agreement:{e.list}.{e.op}')
                        rec = sites.setdefault(key, {'ok': True, 'e': e, 'pa': pa, 'why': ''})
                        src_list = e.idx[1]
                        if src_list != e.list and frozenset((src_list, e.list)) not in TWINS and rec['ok']:
                            rec.update(ok=False, pa=pa, why=f'`{e.list}.{e.op}` uses an index that was looked up in `{src_list}`: the element at that position of '
                                                              f'`{e.list}` is unrelated (wrong item removed, or ValueError / IndexError)')
    for key, rec in sorted(sites.items()):
        e = rec['e']
        if rec['ok']:
            r.ok('C02.R5', key, 'index and operation refer to the same list', src(e.fi.module), e.line)
        else:
            r.fail('C02.R5', key, rec['why'], src(e.fi.module), e.line, rec['pa'].describe())
