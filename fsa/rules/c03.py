from ..model import AnalysisError
PROP = 'C03'
LEVEL = 'other'


def run(p, tier):
    raise AnalysisError('rule module for C03 not implemented yet (fail closed)')
