"""C03 - flow items are conserved across the whole factory (partial: the safety half).

  R1 ownership typestate over every node process: an item obtained from Item(...)/Pallet(...), an edge/store
     get, `pallet.items.pop`, or received as the parameter of a spawned worker/_push_item is *owned*; on every
     non-raising path to the loop back-edge or return it is transferred exactly once - edge.put(tok, item),
     hand-off to a spawned process, pallet.add_item(item), a counted discard or a counted sink reception;
  R2 counter pairing: creation ↔ num_item_generated, downstream push ↔ num_item_processed, sink get ↔
     num_item_received - once each, on the same path;
  R4 every spawned process that receives an item owns it at entry (hand-off matches the callee's parameter).
  (R3: store conservation is C02.R1/R2, edge delegation is C01.O7 - not re-checked here.)
"""
from __future__ import annotations

import ast

from .. import nodewalk, paths
from ..model import AnalysisError, Project, self_attr, walk_no_nested
from ..report import Result, ctx_of
from .common import site, src, status_str

PROP = 'C03'
LEVEL = 'other'

CTORS = ('Item', 'Pallet')


def is_item_source(e):
    if e.kind == 'xcall' and e.name in CTORS:
        return 'constructor'
    if e.kind == 'pcall' and e.name == 'get':
        return 'get'
    if e.kind == 'xcall' and e.name.endswith('.items.pop'):
        return 'pallet-pop'
    if e.kind == 'pcall' and e.name == 'remove_item':
        return 'pallet-pop'
    return None


def owned_params(ws):
    """(class name, root) -> set of parameter positions that receive an owned item at some spawn site."""
    out = {}
    for w in ws:
        r.ctx = ctx_of(w)
        for root, ps in w.roots.items():
            for pa in ps:
                owned = set()
                for e in pa.events:
                    if is_item_source(e):
                        owned.add(e.d.get('result'))
                    if e.kind == 'spawn' and e.func.startswith('self.'):
                        callee = e.func[5:]
                        for i, v in enumerate(e.args):
                            if v in owned or (v is not None and v[0] == 'param'):
                                if v[0] == 'param' and ('param', v[1]) not in {('param', x) for x in out.get((w.ci.name, root), {}).get('names', set())} and v not in owned:
                                    # a parameter of the spawner that is itself an owned item parameter is decided in a second pass
                                    continue
                                out.setdefault((w.ci.name, callee), {}).setdefault('pos', set()).add(i)
    return out


def run(p: Project, tier: str) -> Result:
    r = Result(PROP)
    r.explanation = ('Linear ownership typestate of flow items through every node process (obtained exactly once ⇒ disposed exactly once) '
                     'and pairing of the generated / processed / discarded / received counters with the transfers they count. '
                     'Decides the safety half (no loss, no duplication by a node); liveness and the per-instant census are not decided.')
    r.rule('C03.R1', 'every owned item is transferred exactly once on every non-raising path of every node process', 15)
    r.rule('C03.R2', 'generated / processed / received counters are incremented exactly once per creation / push / reception on the same path', 8)
    r.rule('C03.R4', 'every item handed to a spawned process is owned by that process at entry and disposed by it', 8)
    r.not_decided = ['liveness: "when nothing is blocked forever every item ends up received or discarded"',
                     'the instant-by-instant census generated = in edges + in nodes + packed + discarded + received',
                     'conservation inside stores (C02) and edges (C01.O7)']
    r.assumptions = ['items are identified by object identity of the values flowing through locals / self attributes']
    ws = nodewalk.walks(p)
    # pass 1: parameters of spawned roots that receive items
    own_pos = {}
    for _ in range(2):
        for w in ws:
            r.ctx = ctx_of(w)
            for root, ps in w.roots.items():
                fi = w.root_funcs[root]
                pnames = [a.arg for a in fi.node.args.args if a.arg != 'self']
                mine = {('param', pnames[i]) for i in own_pos.get((w.ci.name, root), set()) if i < len(pnames)}
                for pa in ps:
                    owned = set(mine)
                    for e in pa.events:
                        if is_item_source(e):
                            owned.add(e.d.get('result'))
                        if e.kind == 'spawn' and e.func.startswith('self.'):
                            for i, v in enumerate(e.args):
                                if v in owned:
                                    own_pos.setdefault((w.ci.name, e.func[5:]), set()).add(i)
    for w in ws:
        r.ctx = ctx_of(w)
        r.paths += w.npaths
        for root, ps in w.roots.items():
            fi = w.root_funcs[root]
            r.analysed_functions.add(fi.key)
            pnames = [a.arg for a in fi.node.args.args if a.arg != 'self']
            mine = [('param', pnames[i]) for i in sorted(own_pos.get((w.ci.name, root), set())) if i < len(pnames)]
            check_root(r, w, root, fi, ps, mine, own_pos)
    check_container_freshness(p, r)
    return r


MUTATING = {'append', 'pop', 'remove', 'insert', 'extend', 'clear', 'sort', 'reverse', 'update', 'add', 'discard', 'setdefault', 'popitem'}


def is_mutable_ctor(n):
    if isinstance(n, (ast.List, ast.Dict, ast.Set, ast.ListComp, ast.DictComp, ast.SetComp)):
        return True
    return isinstance(n, ast.Call) and isinstance(n.func, ast.Name) and n.func.id in ('list', 'dict', 'set', 'deque', 'defaultdict') and not n.args


def mutated_attrs(p):
    """attribute names that are mutated in place somewhere in the package (on any receiver)"""
    out = {}
    for fi in p.all_functions():
        for n in ast.walk(fi.node):
            if isinstance(n, ast.Call) and isinstance(n.func, ast.Attribute) and n.func.attr in MUTATING and isinstance(n.func.value, ast.Attribute):
                out.setdefault(n.func.value.attr, (fi, n.lineno))
            if isinstance(n, (ast.Assign, ast.AugAssign, ast.Delete)):
                for t in (n.targets if isinstance(n, (ast.Assign, ast.Delete)) else [n.target]):
                    if isinstance(t, ast.Subscript) and isinstance(t.value, ast.Attribute):
                        out.setdefault(t.value.attr, (fi, n.lineno))
    return out


def check_container_freshness(p, r):
    """R5: a container that is mutated in place must be created per instance: not a mutable default argument, not a class-level literal.
    (An item packed into one pallet / held by one node must not appear in another one through shared storage.)"""
    r.rule('C03.R5', 'containers that are mutated in place are per-instance (no mutable default argument or class-level literal behind them)', 8)
    mut = mutated_attrs(p)
    for ci in sorted(p.classes.values(), key=lambda c: (c.module, c.name)):
        init = ci.methods.get('__init__')
        # class-level mutable literals that are mutated through instances and never re-bound per instance
        inst_assigned = set(p.self_attr_sites(ci.key))
        for name, val in ci.class_attrs.items():
            if is_mutable_ctor(val) and name in mut and name not in inst_assigned:
                r.fail('C03.R5', f'{ci.label}::class-attribute({name})', f'`{name}` is a class-level mutable object that is mutated in place '
                                                                          f'({mut[name][0].key}): every instance shares it', src(ci.module), ci.node.lineno)
        if init is None:
            continue
        args = init.node.args
        pos = args.args
        defaults = [None] * (len(pos) - len(args.defaults)) + list(args.defaults)
        pairs = list(zip(pos, defaults)) + list(zip(args.kwonlyargs, args.kw_defaults))
        n_checked = 0
        for a, d in pairs:
            if d is None or not is_mutable_ctor(d):
                continue
            # where does the parameter go?
            for n in walk_no_nested(init.node):
                if isinstance(n, ast.Assign) and isinstance(n.value, ast.Name) and n.value.id == a.arg:
                    for t in n.targets:
                        at = self_attr(t)
                        if at is None:
                            continue
                        n_checked += 1
                        key = f'{init.key}::default({a.arg})→self.{at}'
                        if at in mut:
                            mf, ml = mut[at]
                            r.fail('C03.R5', key, f'`self.{at}` aliases the mutable default argument `{a.arg}={ast.unparse(d)}`, and `{at}` is mutated in place '
                                                  f'(e.g. {mf.key} line {ml}): all instances created without that argument share one container, so an item '
                                                  f'put into one of them appears in all of them', src(ci.module), n.lineno)
                        else:
                            r.ok('C03.R5', key, f'mutable default stored in self.{at}, which is never mutated in place (read-only configuration)',
                                 src(ci.module), n.lineno)
        # containers created in __init__ by a literal: fresh per instance
        for at, sites in p.self_attr_sites(ci.key).items():
            for fi_, v, line in sites:
                if fi_.name == '__init__' and fi_.cls == ci.name and v is not None and is_mutable_ctor(v) and at in mut:
                    r.ok('C03.R5', f'{init.key}::fresh(self.{at})', 'created by a literal in __init__', src(ci.module), line)


def check_root(r, w, root, fi, ps, mine, own_pos):
    cls = w.ci.name
    has_processed = any(e.kind == 'setitem' and 'num_item_processed' in e.target for ps2 in w.roots.values() for pa in ps2 for e in pa.events)
    src_sites = {}
    pair_sites = {}
    handoff_sites = {}
    for pa in ps:
        if pa.raises or pa.status == 'loopcut':
            continue
        owned = {}          # value -> record
        order = []

        def own(v, e, origin):
            if v is None or v in owned:
                return
            owned[v] = {'e': e, 'origin': origin, 'n': 0, 'how': []}
            order.append(v)
        for v in mine:
            own(v, None, f'parameter {v[1]}')
        anon = []
        n_ctor = n_gen = n_put = n_push_spawn = n_proc = n_get = n_recv = n_disc = 0
        for e in pa.events:
            k = e.kind
            s_ = is_item_source(e)
            if s_:
                own(e.d.get('result'), e, s_)
                if s_ == 'constructor':
                    n_ctor += 1
                if s_ == 'get':
                    n_get += 1
            if k == 'pcall' and e.name == 'put':
                n_put += 1
                v = e.args[1] if len(e.args) > 1 else None
                if v in owned:
                    owned[v]['n'] += 1
                    owned[v]['how'].append(f'put@{e.line}')
                else:
                    anon.append(('put of an item this process does not own', e))
            elif k == 'pcall' and e.name == 'add_item':
                v = e.args[0] if e.args else None
                if v in owned:
                    owned[v]['n'] += 1
                    owned[v]['how'].append(f'add_item@{e.line}')
            elif k == 'spawn' and e.func.startswith('self.'):
                callee = e.func[5:]
                if callee == '_push_item':
                    n_push_spawn += 1
                for i, v in enumerate(e.args):
                    if v in owned:
                        owned[v]['n'] += 1
                        owned[v]['how'].append(f'spawn {callee}@{e.line}')
                        hk = site(e.fi, e.node, f'handoff:{callee}')
                        ok = i in own_pos.get((cls, callee), set()) and callee in w.roots
                        rec = handoff_sites.setdefault(hk, {'ok': True, 'e': e, 'pa': pa})
                        if not ok:
                            rec.update(ok=False, pa=pa)
            elif k == 'setitem' and e.aug and e.aug[0] == 'Add':
                if 'num_item_generated' in e.target:
                    n_gen += 1
                elif 'num_item_processed' in e.target:
                    n_proc += 1
                elif 'num_item_discarded' in e.target:
                    n_disc += 1
                elif 'num_item_received' in e.target:
                    n_recv += 1
        # anonymous disposals (counted discard / counted reception) go to items not yet disposed, oldest first
        free = n_disc + n_recv
        for v in order:
            if owned[v]['n'] == 0 and free > 0:
                owned[v]['n'] += 1
                owned[v]['how'].append('counted discard/reception')
                free -= 1
        for v in order:
            rec0 = owned[v]
            e = rec0['e']
            if e is not None:
                key = site(e.fi, e.d.get('node'), f'item:{rec0["origin"]}')
                line, mod = e.line, e.fi.module
            else:
                key = f'{fi.key}::item:{rec0["origin"]}'
                line, mod = fi.node.lineno, fi.module
            rec = src_sites.setdefault(key, {'ok': True, 'pa': pa, 'msg': '', 'line': line, 'mod': mod})
            if rec0['n'] != 1 and rec['ok']:
                if rec0['n'] == 0:
                    msg = f'item obtained by {rec0["origin"]} is neither put, packed, handed to a spawned process, nor counted as discarded/received on this path (lost)'
                else:
                    msg = f'item obtained by {rec0["origin"]} is disposed {rec0["n"]} times ({", ".join(rec0["how"])}) (duplicated)'
                rec.update(ok=False, pa=pa, msg=msg)
        if free > 0:
            key = f'{fi.key}::discard-without-item'
            rec = src_sites.setdefault(key, {'ok': True, 'pa': pa, 'msg': '', 'line': fi.node.lineno, 'mod': fi.module})
            rec.update(ok=False, pa=pa, msg=f'{free} discard/reception count(s) on a path that holds no undisposed item (counter runs ahead of the items)')
        # R2 pairing
        checks = []
        if cls == 'Source' and root == 'behaviour':
            checks.append(('generated', n_ctor, n_gen, 'item creations', 'num_item_generated increments'))
        if has_processed and root != '_push_item' and root != '_pull_item':
            checks.append(('processed', n_put + n_push_spawn, n_proc, 'pushes (put / spawned _push_item)', 'num_item_processed increments'))
        if cls == 'Sink':
            checks.append(('received', n_get, n_recv, 'gets', 'num_item_received increments'))
        for name, a, b, an, bn in checks:
            key = f'{fi.key}::counter:{name}'
            rec = pair_sites.setdefault(key, {'ok': True, 'pa': pa, 'msg': '', 'n': 0})
            rec['n'] += 1
            if a != b and rec['ok']:
                rec.update(ok=False, pa=pa, msg=f'{a} {an} but {b} {bn} on one path')
    for key, rec in sorted(src_sites.items()):
        if rec['ok']:
            r.ok('C03.R1', key, 'disposed exactly once on every explored path', src(rec['mod']), rec['line'])
        else:
            r.fail('C03.R1', key, rec['msg'], src(rec['mod']), rec['line'], rec['pa'].describe())
    for key, rec in sorted(pair_sites.items()):
        if rec['ok']:
            r.ok('C03.R2', key, f'paired on {rec["n"]} path(s)', src(fi.module), fi.node.lineno)
        else:
            r.fail('C03.R2', key, rec['msg'], src(fi.module), fi.node.lineno, rec['pa'].describe())
    for key, rec in sorted(handoff_sites.items()):
        e = rec['e']
        if rec['ok']:
            r.ok('C03.R4', key, 'the spawned process owns the item at entry (and C03.R1 holds for it)', src(e.fi.module), e.line)
        else:
            r.fail('C03.R4', key, f'item handed to `{e.func}` but that process is not analysed as owning it', src(e.fi.module), e.line, rec['pa'].describe())
