from ..model import AnalysisError
PROP = 'C04'
LEVEL = 'other'


def run(p, tier):
    raise AnalysisError('rule module for C04 not implemented yet (fail closed)')
