"""C04 - no lost wake-up: a servable waiting reservation is granted at once.

Two potentials per store class, linear in the tracked lengths:
    Φ_put = cap − Σ_H|L| − |RP|   (free, unreserved space)      Φ_get = |A| − |RG|   (available, unreserved items)
The invariant behind the property is "queue non-empty ⇒ potential = 0"; it is preserved iff every *net*
rise of a potential inside an atomic segment is answered, afterwards and before the segment ends, by
the matching trigger call.
"""
from __future__ import annotations

import ast

from .. import lin, paths, storewalk, tables
from ..model import AnalysisError, Project, self_attr, walk_no_nested
from ..report import Result, ctx_of
from ..tables import RP, RG, QP, QG, TRIGGERS, MUT
from .common import events_atoms, site, src, sum_lin, status_str

PROP = 'C04'
LEVEL = 'other'

TP, TG = '_trigger_reserve_put', '_trigger_reserve_get'

# R4 frozen exceptions: grant predicates that legitimately carry an extra (non-length) conjunct.
R4_EXCEPTIONS = {
    ('base/belt_store.py', 'BeltStore', 'put'): 'belt spacing / accumulation gates (time-valued)',
    ('base/slotted_belt_store.py', 'BeltStore', 'put'): 'slot spacing / no-accumulation gate (time-valued)',
    ('edges/slotted_conveyor.py', 'BeltStore', 'put'): 'inherits the slotted store gate',
    ('base/reservable_priority_req_filter_store.py', 'ReservablePriorityReqFilterStore', 'get'): 'filter match on the request',
    ('base/slotted_belt_store.py', 'BeltStore', 'get'): 'no-accumulation bookkeeping flag (one_item_inserted) is written, not tested',
}


def run(p: Project, tier: str) -> Result:
    r = Result(PROP)
    r.explanation = ('Wake-up pairing: every net rise of free-unreserved space or of available-unreserved items inside an atomic '
                     'segment, every new pending request, and (where the grant reads the request) every removal of a pending request is '
                     'followed by the matching trigger before the segment ends; timed admission has a timer; service loop shape; '
                     'grant predicate equivalent to availability.')
    r.rule('C04.R1', 'every potential rise / new pending request is answered by the matching trigger before the next suspension', 60)
    r.rule('C04.R2', 'where the grant depends on time, each put arranges a trigger at that time (timer process / event callback)', 4)
    r.rule('C04.R3', 'service loop: starts at the head, grants queue[idx], pops iff triggered, |queue|-idx strictly decreases', 16)
    r.rule('C04.R4', 'grant predicate ≡ availability (no extra conjunct keeps a servable head pending)', 16)
    r.assumptions = ['cooperative scheduling', 'a trigger call serves the head of its queue (checked by R3)',
                     'I1 (C01) as inductive hypothesis at stable points']
    r.not_decided = ['belt stores: the gate flipping without any store call (time passing) - only the timer of R2 is checked',
                     'head-of-line blocking among filtered requests']
    ws = storewalk.walks(p, assume_inv=('I1',))
    for w in ws:
        r.ctx = ctx_of(w)
        r.paths += w.npaths
        max_g = grants_per_trigger(w)
        r.stats.setdefault('grants_per_trigger_call', {})[w.store.label] = max_g
        check_pairing(p, w, r, max_g)
        check_service_loop(p, w, r)
        check_grant_equiv(p, w, r)
        check_timers(p, w, r)
        check_grant_wakes(p, w, r)
    return r


def check_grant_wakes(p, w, r):
    """R5: recording a request as granted and waking its requester are one step - on every path, each event appended to reservations_put /
    reservations_get is succeeded exactly once in the same atomic segment, and no event is succeeded by a grant function without being recorded."""
    r.rule('C04.R5', 'every grant (append to reservations_put / reservations_get) succeeds that very event once, in the same atomic segment', 16)
    sites = {}
    for root, ps in w.roots.items():
        for pa in ps:
            if pa.raises:
                continue
            evs = pa.events
            for i, e in enumerate(evs):
                if e.kind == 'op' and e.list in (RP, RG) and e.op in ('append', 'insert') and e.val is not None:
                    key = site(e.fi, e.node, f'grant-wakes:{e.list}')
                    rec = sites.setdefault(key, {'ok': True, 'e': e, 'pa': pa, 'why': ''})
                    # the succeed of the same value inside the same atomic segment (between the surrounding yields)
                    lo = next((j for j in range(i, -1, -1) if evs[j].kind == 'yield'), -1)
                    hi = next((j for j in range(i, len(evs)) if evs[j].kind == 'yield'), len(evs))
                    n = sum(1 for x in evs[lo + 1:hi] if x.kind == 'succeed' and x.value == e.val)
                    if n != 1 and rec['ok']:
                        rec.update(ok=False, pa=pa, why=f'the request is recorded in {e.list} but its event is succeeded {n} time(s) in that step: '
                                                          + ('the requester is granted and never woken (it waits for ever while holding the reservation)' if n == 0
                                                             else 'succeed() on an already triggered event raises'))
    for key, rec in sorted(sites.items()):
        e = rec['e']
        r.analysed_functions.add(e.fi.key)
        if rec['ok']:
            r.ok('C04.R5', key, 'recorded and woken in one step on every path', src(e.fi.module), e.line)
        else:
            r.fail('C04.R5', key, rec['why'], src(e.fi.module), e.line, rec['pa'].describe())


def grants_per_trigger(w):
    """max number of grants one trigger call can perform (derived from the explored service loop)."""
    out = {}
    for t, L in ((TP, RP), (TG, RG)):
        m = 0
        for pa in w.roots[t]:
            if pa.raises:
                continue
            n = sum(1 for e in pa.events if e.kind == 'op' and e.list == L and e.op in ('append', 'insert'))
            # a path cut by the unrolling bound could continue granting
            if any(e.kind == 'loopcut' and e.fi is not None and e.fi.name == t for e in pa.events):
                n = max(n, 99)
            m = max(m, n)
        out[t] = m
    return out


def grant_reads_request(w, which) -> bool:
    fi = w.store.methods['_do_reserve_put' if which == 'put' else '_do_reserve_get']
    params = [a.arg for a in fi.node.args.args if a.arg != 'self']
    if not params:
        return False
    ev = params[0]
    for n in walk_no_nested(fi.node):
        if isinstance(n, ast.Attribute) and isinstance(n.value, ast.Name) and n.value.id == ev \
                and n.attr not in ('succeed', 'triggered', 'resourcename', 'requesting_process'):
            return True
    return False


def check_pairing(p, w, r, max_g):
    s = w.store
    H = set(s.holders)
    A = s.avail
    reads = {'put': grant_reads_request(w, 'put'), 'get': grant_reads_request(w, 'get')}
    sites = {}      # (root, which, site-key) -> record

    def record(root, which, e, ok, pa, why=''):
        key = site(e.fi, e.node, f'{which}-wake:{e.list}.{e.op}') + f'@{root}'
        rec = sites.setdefault(key, {'ok': True, 'e': e, 'pa': pa, 'why': ''})
        if not ok and rec['ok']:
            rec.update(ok=False, e=e, pa=pa, why=why)

    for root, ps in w.roots.items():
        if root in TRIGGERS:
            continue
        for pa in ps:
            if pa.raises:
                continue
            acc = {'put': 0, 'get': 0}
            last_rise = {'put': None, 'get': None}
            pend = {'put': None, 'get': None}      # queue event needing a trigger
            touched = {'put': [], 'get': []}

            def queue_known_empty(which, g, dl, upto):
                # a missing wake-up is harmless when the path conditions imply that nobody is waiting
                Q = QP if which == 'put' else QG
                atoms = events_atoms(pa.events[:upto])
                return lin.implies(atoms, ('==', lin.norm(sum_lin([Q], g, dl))))

            def close(where, g=None, dl=None, upto=None):
                g = pa.st.gen if g is None else g
                dl = pa.st.delta if dl is None else dl
                upto = len(pa.events) if upto is None else upto
                for which in ('put', 'get'):
                    if acc[which] > 0 and last_rise[which] is not None and queue_known_empty(which, g, dl, upto):
                        acc[which] = 0
                    if pend[which] is not None and pend[which].op != 'append' and queue_known_empty(which, g, dl, upto):
                        pend[which] = None
                for which in ('put', 'get'):
                    if acc[which] > 0 and last_rise[which] is not None:
                        record(root, which, last_rise[which], False, pa,
                               f'net rise of {"free space" if which == "put" else "available items"} by {acc[which]} '
                               f'not followed by {TP if which == "put" else TG}() before {where}')
                    if pend[which] is not None:
                        e = pend[which]
                        record(root, which, e, False, pa,
                               f'`{e.list}.{e.op}` (pending request {"added" if e.op == "append" else "removed"}) not followed by '
                               f'{TP if which == "put" else TG}() before {where}')
                    for e in touched[which]:
                        record(root, which, e, True, pa)
                    acc[which] = 0
                    last_rise[which] = None
                    pend[which] = None
                    touched[which] = []
            for e in pa.events:
                if e.kind == 'op':
                    d = MUT[e.op]
                    L = e.list
                    if L in H or L == RP:
                        acc['put'] -= d
                        if d < 0:
                            last_rise['put'] = e
                            touched['put'].append(e)
                    if L == A:
                        acc['get'] += d
                        if d > 0:
                            last_rise['get'] = e
                            touched['get'].append(e)
                    if L == RG:
                        acc['get'] -= d
                        if d < 0:
                            last_rise['get'] = e
                            touched['get'].append(e)
                    for which, Q in (('put', QP), ('get', QG)):
                        if L == Q:
                            if d > 0 or reads[which]:
                                pend[which] = e
                                touched[which].append(e)
                elif e.kind == 'call' and e.name in TRIGGERS:
                    which = 'put' if e.name == TP else 'get'
                    g = max_g[e.name]
                    acc[which] = max(acc[which] - g, 0) if g < 99 else 0
                    if acc[which] <= 0:
                        last_rise[which] = None if acc[which] <= 0 else last_rise[which]
                    pend[which] = None
                elif e.kind == 'yield':
                    close(f'the yield at line {e.line}', e.g, e.dl, pa.events.index(e))
            if pa.status == 'loopcut':
                # cut by the unrolling bound, not an end of the segment: the same prefix is continued by the paths on which the loop runs out
                acc = {'put': 0, 'get': 0}
                pend = {'put': None, 'get': None}
            close(f'the end of {root} ({status_str(pa.status)})')
    for key, rec in sorted(sites.items()):
        e = rec['e']
        if rec['ok']:
            r.ok('C04.R1', key, 'answered by the matching trigger on every path', src(e.fi.module), e.line)
        else:
            r.fail('C04.R1', key, rec['why'], src(e.fi.module), e.line, rec['pa'].describe())


def check_service_loop(p, w, r, wakeup=True):
    s = w.store
    for t, Q, grant in ((TP, QP, '_do_reserve_put'), (TG, QG, '_do_reserve_get')):
        fi = s.methods[t]
        r.analysed_functions.add(fi.key)
        key = f'{s.ci.label}.{t}::service-loop'
        bad = None
        n_iter = 0
        for pa in w.roots[t]:
            heads = [e for e in pa.events if e.kind == 'loophead' and e.fi.key == fi.key and len(frames_of(e)) == 0]
            # variant |Q| - idx at successive loop heads
            prev = None
            for h in heads:
                idxs = {k: v for k, v in h.locals.items()}
                n_iter += 1
                # the index variable is the one compared in the while test
                idxname = loop_index_name(fi, Q)
                if idxname is None or idxname not in idxs:
                    bad = (pa, 'cannot identify the loop index compared with len(queue)')
                    break
                iv = idxs[idxname]
                il = lin.lconst(iv[1]) if iv[0] == 'const' else dict(iv[1])
                var = lin.ladd(sum_lin([Q], h.g, h.dl), il, -1)
                if prev is not None:
                    diff = lin.ladd(prev, var, -1)      # prev - cur must be >= 1
                    if not (all(k == '1' for k in diff) and diff.get('1', 0) >= 1):
                        bad = (pa, f'|{Q}| − {idxname} does not strictly decrease between iterations ({lin.show(prev)} → {lin.show(var)})')
                prev = var
            # head-first and pop-iff-triggered
            first_grant = True
            cur_elem = None
            for e in pa.events:
                if e.kind == 'enter' and e.name == grant:
                    pass
                if e.kind == 'lookup':
                    pass
            grants = [e for e in pa.events if e.kind == 'enter' and e.name == grant]
            # argument of the first grant call must be queue[0]
            for i, e in enumerate(pa.events):
                if e.kind == 'enter' and e.name == grant:
                    argv = first_arg_value(pa, i)
                    if first_grant:
                        first_grant = False
                        if not (argv and argv[0] == 'elem' and argv[1] == Q and argv[2] == ('const', 0)):
                            bad = (pa, f'first request served is not {Q}[0] (got {argv})')
                    cur_elem = argv
                if e.kind == 'op' and e.list == Q and e.op == 'pop':
                    res = e.result
                    if cur_elem is None or res[:3] != cur_elem[:3]:
                        bad = (pa, f'{Q}.pop removes {res[2] if res else "?"} but the request just served was {cur_elem[2] if cur_elem else "?"}')
                    elif cur_elem not in pa_triggered_before(pa, i) and not tested_triggered(pa, i):
                        bad = (pa, f'{Q}.pop executed although the served request did not trigger')
                if e.kind == 'op' and e.list == Q and e.op not in ('pop',):
                    bad = (pa, f'unexpected `{Q}.{e.op}` inside the service loop')
        if n_iter == 0:
            bad = (w.roots[t][0], 'no service-loop iteration found')
        # the trigger serves whoever calls it and whatever it is called with (None, the request just queued, the timer event of a callback):
        # every completing path reaches the loop test, unless the conditions it has passed say that the queue is empty
        for pa in (w.roots[t] if wakeup else ()):
            if pa.raises or pa.status in ('loopcut', 'backedge'):
                continue
            reached = any(e.kind in ('loophead', 'loopexit', 'loopcut') and e.fi.key == fi.key and len(frames_of(e)) == 0 for e in pa.events)
            if not reached:
                # no list operation can precede the early exit unnoticed: the queue length is the entry generation of Q
                mutated = any(e.kind == 'op' and e.list == Q for e in pa.events)
                empty = (not mutated) and lin.unsat(events_atoms(pa.events) + [('<', lin.norm({Q: -1}))])      # |Q| > 0 contradicts the path
                if not empty and bad is None:
                    bad = (pa, f'{t} returns without looking at {Q} although it may hold a servable request '
                               f'(the wake-up is lost for every caller that does not satisfy the early-exit test, e.g. a timer callback)')
        if bad:
            r.fail('C04.R3', key, bad[1], src(fi.module), fi.node.lineno, bad[0].describe())
        else:
            r.ok('C04.R3', key, f'head-first, pop iff triggered, variant decreases ({n_iter} iterations examined)', src(fi.module), fi.node.lineno)


def frames_of(e):
    return []


def loop_index_name(fi, Q):
    # the index is the local the queue is subscripted with inside the service loop (`queue[idx]`, `queue.pop(idx)`), however the loop test is spelled
    for n in walk_no_nested(fi.node):
        if isinstance(n, ast.Subscript) and self_attr(n.value) == Q and isinstance(n.slice, ast.Name):
            return n.slice.id
        if isinstance(n, ast.Call) and isinstance(n.func, ast.Attribute) and n.func.attr == 'pop' and self_attr(n.func.value) == Q and n.args \
                and isinstance(n.args[0], ast.Name):
            return n.args[0].id
    for n in walk_no_nested(fi.node):
        if isinstance(n, ast.While) and isinstance(n.test, ast.Compare) and isinstance(n.test.left, ast.Name):
            c = n.test.comparators[0]
            if isinstance(c, ast.Call) and isinstance(c.func, ast.Name) and c.func.id == 'len' and self_attr(c.args[0]) == Q:
                return n.test.left.id
    return None


def first_arg_value(pa, i):
    """value bound to the first parameter of the inlined call entered at event index i (from the callee's first use)."""
    e = pa.events[i]
    return e.d.get('arg0')


def tested_triggered(pa, i) -> bool:
    """the pop at event index i is control dependent on a true `<request>.triggered` test of the same iteration"""
    for e in reversed(pa.events[:i]):
        if e.kind == 'loophead':
            return False
        if e.kind == 'cond' and not e.d.get('synthetic') and e.text.endswith('.triggered') and e.polarity:
            return True
        if e.kind == 'cond' and not e.d.get('synthetic') and e.polarity and any(isinstance(v, tuple) and len(v) == 3 and v[0] == 'attr' and v[2] == 'triggered'
                                                                                for v in (e.d.get('reads') or ())):
            return True         # the test reads `<request>.triggered` through a local
    return False


def pa_triggered_before(pa, i):
    out = set()
    for e in pa.events[:i]:
        if e.kind == 'succeed':
            out.add(e.value)
    return out


def check_grant_equiv(p, w, r):
    s = w.store
    for which, gname, L in (('put', '_do_reserve_put', RP), ('get', '_do_reserve_get', RG)):
        fi = s.methods[gname]
        key = f'{s.ci.label}.{gname}::grant≡availability'
        exc = R4_EXCEPTIONS.get((s.ci.module, s.ci.name, which))
        ex = paths.Explorer(p, s.ci.key, tracked=set(s.lists), atomic={tables.LEVEL_UPDATER, *TRIGGERS}, assume=w.assume, unroll=1)
        ps = ex.paths(fi)
        r.paths += len(ps)
        r.analysed_functions.add(fi.key)
        bad = None
        n_grant = 0
        for pa in ps:
            if pa.raises:
                continue
            granted = any(e.kind == 'op' and e.list == L and e.op in ('append', 'insert') for e in pa.events)
            if granted:
                n_grant += 1
                continue
            atoms = events_atoms(pa.events)
            st0 = {}
            if which == 'put':
                phi = lin.ladd({'cap': 1}, sum_lin(list(s.holders) + [RP], {}, {}), -1)
            else:
                phi = lin.ladd(sum_lin([s.avail], {}, {}), sum_lin([RG], {}, {}), -1)
            avail = ('<', lin.norm(lin.lneg(phi)))      # Φ > 0
            if not lin.unsat(atoms + [avail]):
                nonlin = [e.text for e in pa.events if e.kind == 'cond' and not e.d.get('synthetic') and not e.atoms]
                bad = (pa, nonlin)
        if n_grant == 0:
            r.fail('C04.R4', key, 'no granting path found in the grant function', src(fi.module), fi.node.lineno)
        elif bad and not exc:
            r.fail('C04.R4', key, f'a request stays pending although {"space" if which == "put" else "an item"} is available: '
                                  f'the grant carries an extra condition {bad[1][:3]}', src(fi.module), fi.node.lineno, bad[0].describe())
        elif bad and exc:
            r.ok('C04.R4', key, f'frozen exception: {exc}', src(fi.module), fi.node.lineno)
        else:
            r.ok('C04.R4', key, 'every non-granting path is infeasible when the potential is positive', src(fi.module), fi.node.lineno)


def mentions_now(fi, methods=None, _seen=None) -> bool:
    """the function, or a same-class method it calls or hands out as a value, reads the clock"""
    _seen = _seen if _seen is not None else set()
    if fi.key in _seen:
        return False
    _seen.add(fi.key)
    for n in ast.walk(fi.node):
        if isinstance(n, ast.Attribute) and n.attr == 'now':
            return True
        if methods and isinstance(n, ast.Attribute) and isinstance(n.value, ast.Name) and n.value.id == 'self' and n.attr in methods \
                and not n.attr.startswith(('_trigger', 'reserve_', 'put', 'get')) and mentions_now(methods[n.attr], methods, _seen):
            return True
    return False


def check_timers(p, w, r):
    """R2: a time-dependent grant needs a timer that re-runs the trigger."""
    s = w.store
    needs = []
    if mentions_now(s.methods['_do_reserve_put'], s.methods):
        needs.append(('put', TP))
    if mentions_now(s.methods['_do_reserve_get'], s.methods) or (grant_reads_request(w, 'get') and mentions_now(s.methods['reserve_get'], s.methods)):
        needs.append(('get', TG))
    for which, trig in needs:
        key = f'{s.ci.label}.put::timer→{trig}'
        # processes spawned on successful put paths
        ok_any = False
        why = 'no process spawned by put() re-runs the trigger after a timed wait'
        spawned = set()
        for pa in w.roots['put']:
            if pa.raises:
                continue
            sp = [e for e in pa.events if e.kind == 'spawn' and e.func.startswith('self.')]
            spawned_here = {e.func[5:] for e in sp}
            spawned |= spawned_here
        cands = [n for n in spawned if n in w.roots]
        good_proc = None
        for name in cands:
            allok = True
            nfull = 0
            for pa in w.roots[name]:
                if pa.raises or pa.status == 'loopcut':
                    continue
                # "complete" paths: those that do not bail out before the first timed wait
                evs = pa.events
                timed = [i for i, e in enumerate(evs) if e.kind == 'yield' and e.cls == 'timeout']
                if not timed:
                    continue
                # first timed wait that completes normally (not cut short by an Interrupt handler edge)
                first_done = None
                for i in timed:
                    nxt = next((x for x in evs[i + 1:] if x.kind not in ('cond', 'implicit-raise')), None)
                    if nxt is not None and nxt.kind == 'except' and 'Interrupt' in nxt.exc:
                        continue
                    first_done = i
                    break
                if first_done is None:
                    continue
                nfull += 1
                fired = False
                cb_events = set()
                for i, e in enumerate(evs):
                    if e.kind == 'xcall' and e.name.endswith('.callbacks.append') and e.args and e.args[0] == ('self', trig):
                        cb_events.add(e.name[:-len('.callbacks.append')])
                        if e.d.get('root_val') is not None:
                            cb_events.add(e.root_val)
                    if i > first_done:
                        if e.kind == 'yield':
                            break          # the trigger must run in the segment that follows the completed wait
                        if e.kind == 'call' and e.name == trig:
                            fired = True
                        if e.kind == 'succeed' and (e.target in cb_events or e.value in cb_events):
                            fired = True
                # a path interrupted for good (outer handler) never resumes: exempt if it ends through an Interrupt handler
                if not fired and not ended_by_interrupt(pa):
                    allok = False
                    why = f'process {name} has a completing path that passes its timed wait without re-running {trig}'
                    badpath = pa
            if allok and nfull > 0:
                good_proc = name
        fi = s.methods['put']
        if good_proc:
            # every accepted put arms its own timer: a put path that skips the spawn (a "one pending timer is enough" shortcut) leaves the item it
            # stores without a wake-up at *its* maturity instant
            unarmed = [pa for pa in w.roots['put'] if not pa.raises and pa.status != 'loopcut'
                       and any(e.kind == 'op' and e.list in s.holders and e.op in ('append', 'insert') for e in pa.events)
                       and not any(e.kind == 'spawn' and e.func == 'self.' + good_proc for e in pa.events)]
            if unarmed:
                r.fail('C04.R2', key, f'a path of put() stores the item without starting {good_proc}: nothing re-runs {trig} when that item becomes '
                                      f'servable (a timer armed for an earlier item fires too early for it)', src(fi.module), fi.node.lineno, unarmed[0].describe())
                continue
        if good_proc:
            r.ok('C04.R2', key, f'process {good_proc} fires {trig} after its timed wait on every completing path', src(fi.module), fi.node.lineno)
        else:
            r.fail('C04.R2', key, why, src(fi.module), fi.node.lineno)


def ended_by_interrupt(pa) -> bool:
    """the path's last exception handler entered was for simpy.Interrupt and no yield followed it"""
    last = None
    for e in pa.events:
        if e.kind == 'except':
            last = e
        elif e.kind == 'yield':
            last = None
    return last is not None and 'Interrupt' in last.exc
