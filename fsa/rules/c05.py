from ..model import AnalysisError
PROP = 'C05'
LEVEL = 'other'


def run(p, tier):
    raise AnalysisError('rule module for C05 not implemented yet (fail closed)')
