"""C05 - requests are served by priority, first-come-first-served among equals.

  R1 reserve_X(priority) stores the parameter in one event attribute, appends the event to its queue, then sorts
     that queue with a key reading exactly that attribute (no reverse); stores without priorities only append;
  R2 the only other queue mutations are pop(idx) in the service loop and remove(event) in the cancellations;
  R3 the service loop is head-first and the grant function does not read the request (frozen exception: filter);
  R4 PriorityReqStore: key = (priority, time) is set before the base constructor enqueues the request and
     SortedQueue.append appends, then stable-sorts on .key; the store installs SortedQueue for both queues;
  R5 library code passes no priorities, so edge-level order is arrival order.
With list.sort stability these imply the property.
"""
from __future__ import annotations

import ast

from .. import lin, paths, storewalk, tables
from ..model import AnalysisError, Project, self_attr, walk_no_nested
from ..report import Result, ctx_of
from ..tables import QP, QG, RP, RG
from .common import events_atoms, site, src
from . import c04

PROP = 'C05'
LEVEL = 'proof'

R3_EXCEPTIONS = {('base/reservable_priority_req_filter_store.py', 'ReservablePriorityReqFilterStore', 'get'):
                 'the filter of the request decides which item it may take (C06.R3)'}


def run(p: Project, tier: str) -> Result:
    r = Result(PROP)
    r.explanation = ('Queue discipline shape: append → stable ascending sort on the request\'s own priority → head-first service → '
                     'order-preserving removal; with list.sort stability this implies priority-then-FCFS for every history.')
    r.rule('C05.R1', 'enqueue = append (+ stable ascending sort on the priority attribute assigned from the parameter)', 16)
    r.rule('C05.R2', 'no other mutation of the request queues than service-loop pop and cancellation remove', 30)
    r.rule('C05.R3', 'head-first service; the grant does not depend on the request', 16)
    r.rule('C05.R4', 'PriorityReqStore: key=(priority,time) before enqueue; SortedQueue.append = append + stable sort on key', 4)
    r.rule('C05.R5', 'library code passes no priorities to reserve_put / reserve_get', 20)
    r.assumptions = ['list.sort is stable (language guarantee)', 'simpy BaseResource enqueues the request inside Put/Get.__init__ via queue.append']
    ws = storewalk.walks(p, assume_inv=('I1',))
    for w in ws:
        r.ctx = ctx_of(w)
        r.paths += w.npaths
        check_enqueue(p, w, r)
        check_queue_mutations(p, w, r)
        check_service(p, w, r)
    check_priority_req_store(p, r)
    check_callers(p, r)
    check_requests_compare_by_identity(p, r)
    return r


def check_requests_compare_by_identity(p, r):
    """R6: SimPy withdraws a request with `queue.remove(request)` and the stores with `reserve_*_queue.remove(event)` / `.index(event)`: the first element
    that compares EQUAL goes.  Requests and events therefore compare by identity; a __eq__ on the key (priority, time) makes the cancellation of a
    later request remove an earlier one of the same priority issued in the same instant."""
    from .common import value_equality_classes, class_family
    r.rule('C05.R6', 'requests / events compare by identity (no __eq__ in their class family)', 0)
    n = 0
    for rel, c, how, line in value_equality_classes(p):
        fam = class_family(p, rel, c)
        users = [x for m in p.raw().modules.values() for x in ast.walk(m.tree) if isinstance(x, ast.ClassDef) and c.name in class_family(p, rel, x)]
        if any(f in ('Get', 'Put', 'Event', 'StoreGet', 'StorePut', 'Request', 'Process', 'Timeout') for u in users for f in class_family(p, rel, u)) or rel.startswith('base/'):
            n += 1
            r.fail('C05.R6', f'{rel}::{c.name}::value-equality', f'{c.name} {how}: requests are taken out of the queues with list.remove(), which removes the first '
                                                                f'EQUAL element - cancelling a later request drops an earlier one with the same key and leaves the '
                                                                f'cancelled one to be served', src(rel), line)
    r.ok('C05.R6', 'package::R6-scan', f'{n} request class(es) with value equality', '', 0)
    canary = ast.parse('class _K:\n    def __eq__(self, o):\n        return self.key == o.key\nclass Req(_K, Get):\n    pass\n')
    r.canaries['C05.R6'] = any(isinstance(f, ast.FunctionDef) and f.name == '__eq__' for c_ in ast.walk(canary) if isinstance(c_, ast.ClassDef) for f in c_.body)


def check_enqueue(p, w, r):
    s = w.store
    for name, Q in (('reserve_put', QP), ('reserve_get', QG)):
        fi = s.methods[name]
        r.analysed_functions.add(fi.key)
        params = [a.arg for a in fi.node.args.args if a.arg != 'self']
        has_prio = 'priority' in params
        key = f'{s.ci.label}.{name}::enqueue'
        bad = None
        for pa in w.roots[name]:
            if pa.raises or pa.status == 'loopcut':
                continue
            evs = pa.events
            appends = [e for e in evs if e.kind == 'op' and e.list == Q]
            sorts = [e for e in evs if e.kind == 'sort' and e.d.get('list') == Q]
            if not appends:
                # served on the spot, without queueing: nobody is overtaken iff nobody waits - the conditions of the path say the queue is empty -
                # and the request served is the one handed back to the caller
                L = RP if name == 'reserve_put' else RG
                grants = [e for e in evs if e.kind == 'op' and e.list == L and e.op in ('append', 'insert')]
                ret = [e for e in evs if e.kind == 'return']
                if len(grants) == 1 and ret and ret[-1].value == grants[0].val and lin.unsat(events_atoms(evs) + [('<', lin.norm({Q: -1}))]):
                    continue
            if len(appends) != 1 or appends[0].op != 'append':
                bad = (pa, f'expected exactly one `{Q}.append`, found {[(e.op) for e in appends]}')
                continue
            ap = appends[0]
            ret = [e for e in evs if e.kind == 'return']
            if not ret or ret[-1].value != ap.val:
                bad = (pa, 'the event appended to the queue is not the event returned to the caller')
            if has_prio:
                prio_sets = [e for e in evs if e.kind == 'setattr' and e.value == ('param', 'priority')]
                if len(prio_sets) != 1:
                    bad = (pa, f'priority parameter stored in {len(prio_sets)} attribute(s) (expected 1)')
                    continue
                attr = prio_sets[0].attr
                if len(sorts) != 1:
                    bad = (pa, f'{len(sorts)} sorts of {Q} (expected 1)')
                    continue
                so = sorts[0]
                call = so.node
                kws = {k.arg: k.value for k in call.keywords}
                if call.args or set(kws) - {'key'} or 'key' not in kws:
                    bad = (pa, f'sort must use only key= (found args={len(call.args)}, keywords={sorted(kws)})')
                    continue
                lam = kws['key']
                good_key, why_key = key_ok(p, s, fi, lam, attr)
                if not good_key:
                    bad = (pa, f'sort key `{ast.unparse(lam)}` {why_key}')
                    continue
                order = [evs.index(prio_sets[0]), evs.index(ap), evs.index(so)]
                if order != sorted(order):
                    bad = (pa, 'order must be: store priority → append → sort')
                # the sort must precede the trigger call
                trig = [i for i, e in enumerate(evs) if e.kind == 'call' and e.name in tables.TRIGGERS]
                if trig and trig[0] < evs.index(so):
                    bad = (pa, 'the queue is sorted after the service loop already ran')
            else:
                if sorts:
                    bad = (pa, f'{Q} is sorted although the store takes no priority')
        if bad:
            r.fail('C05.R1', key, bad[1], src(fi.module), fi.node.lineno, bad[0].describe())
        else:
            r.ok('C05.R1', key, 'append + stable ascending sort on the own priority' if has_prio else 'append only (FCFS)', src(fi.module), fi.node.lineno)


def key_ok(p, s, fi, lam, attr):
    """key = lambda e: e.<attr>   or   lambda e: (e.<attr>, e.<t1>, ...) where every tie-break t_i is non-decreasing in arrival order"""
    if not (isinstance(lam, ast.Lambda) and len(lam.args.args) == 1):
        return False, 'is not a one-argument lambda'
    v = lam.args.args[0].arg

    def is_attr(n, name=None):
        return isinstance(n, ast.Attribute) and isinstance(n.value, ast.Name) and n.value.id == v and (name is None or n.attr == name)
    body = lam.body
    if is_attr(body, attr):
        return True, ''
    if isinstance(body, ast.Tuple) and body.elts and is_attr(body.elts[0], attr):
        for el in body.elts[1:]:
            if not is_attr(el):
                return False, f'has the tie-break `{ast.unparse(el)}`, which is not an attribute of the request'
            ok, why = arrival_monotone(p, s, fi, el.attr)
            if not ok:
                return False, f'breaks ties with `{el.attr}`, {why}: a later request can overtake an earlier one of the same priority'
        return True, ''
    return False, f'does not order by the attribute `{attr}` assigned from the priority parameter (first)'


def arrival_monotone(p, s, fi, name):
    """the request attribute `name` is assigned, in the enqueue function, a value that never decreases from one arrival to the next"""
    assigns = [n for n in walk_no_nested(fi.node) if isinstance(n, ast.Assign) and any(isinstance(t, ast.Attribute) and t.attr == name for t in n.targets)]
    if len(assigns) != 1:
        return False, f'which is assigned {len(assigns)} time(s) in {fi.name}'
    val = assigns[0].value
    if isinstance(val, ast.Attribute) and val.attr == 'now':
        return True, ''
    c = self_attr(val)
    if c is not None:
        writes = p.self_attr_sites(s.ci.key).get(c, [])
        good = bool(writes)
        for wfi, wv, line in writes:
            node = next((n for n in walk_no_nested(wfi.node) if getattr(n, 'lineno', 0) == line and isinstance(n, (ast.Assign, ast.AugAssign))), None)
            if isinstance(node, ast.AugAssign):
                if not (isinstance(node.op, ast.Add) and isinstance(node.value, ast.Constant) and isinstance(node.value.value, (int, float)) and node.value.value > 0):
                    good = False
            elif not (wfi.name == '__init__' and isinstance(wv, ast.Constant)):
                good = False
        if good:
            return True, ''
        return False, f'a counter (self.{c}) that is not only ever increased'
    return False, f'which is `{ast.unparse(val)}` (not the clock and not an ever-increasing counter)'


ALLOWED = {('reserve_put', QP, 'append'), ('reserve_put', QP, 'sort'), ('reserve_get', QG, 'append'), ('reserve_get', QG, 'sort'),
           ('_trigger_reserve_put', QP, 'pop'), ('_trigger_reserve_get', QG, 'pop'),
           ('reserve_put_cancel', QP, 'remove'), ('reserve_get_cancel', QG, 'remove')}


def entry_functions(p, cls_key, name):
    """the methods of the class hierarchy from which `name` is (transitively) called and that are not themselves called by a sibling:
    a private helper that only its designated function calls is part of that function"""
    meths = p.methods(cls_key)
    callers = {}
    for fi in meths.values():
        for n in walk_no_nested(fi.node):
            if isinstance(n, ast.Attribute) and isinstance(n.value, ast.Name) and n.value.id == 'self' and n.attr in meths and n.attr != fi.name:
                callers.setdefault(n.attr, set()).add(fi.name)
    out, seen, work = set(), set(), [name]
    while work:
        f = work.pop()
        if f in seen:
            continue
        seen.add(f)
        cs = callers.get(f, set()) if (f.startswith('_') and not f.startswith(('_trigger', '_do_'))) or f == name else set()
        if f != name and not (f.startswith('_') and not f.startswith(('_trigger', '_do_'))):
            out.add(f)
            continue
        if not cs:
            out.add(f)
        work.extend(cs)
    return out


def check_queue_mutations(p, w, r):
    s = w.store
    reach = w.reachable_methods()
    for ci in p.mro(s.ci.key):
        for fi in ci.methods.values():
            if fi.name == '__init__':
                continue
            for n in walk_no_nested(fi.node):
                Q = None
                op = None
                if isinstance(n, ast.Call) and isinstance(n.func, ast.Attribute) and self_attr(n.func.value) in (QP, QG):
                    Q, op = self_attr(n.func.value), n.func.attr
                    if op in ('index', 'count', 'copy', '__len__'):
                        continue
                elif isinstance(n, (ast.Assign, ast.AugAssign, ast.Delete)):
                    for t in (n.targets if isinstance(n, (ast.Assign, ast.Delete)) else [n.target]):
                        base = t.value if isinstance(t, ast.Subscript) else t
                        if self_attr(base) in (QP, QG):
                            Q, op = self_attr(base), ('setitem' if isinstance(t, ast.Subscript) else 'rebind')
                if Q is None:
                    continue
                key = f'{fi.key}::{Q}.{op}'
                head_pop = op == 'pop' and isinstance(n, ast.Call) and len(n.args) == 1 and isinstance(n.args[0], ast.Constant) and n.args[0].value == 0
                if head_pop:
                    r.ok('C05.R2', key, 'removal of the head: the relative order of the remaining requests is unchanged', src(fi.module), n.lineno)
                elif (fi.name, Q, op) in ALLOWED or (fi.name.startswith('_') and all((e, Q, op) in ALLOWED for e in entry_functions(p, s.ci.key, fi.name))):
                    r.ok('C05.R2', key, 'order-preserving queue operation in its designated function', src(fi.module), n.lineno)
                elif fi.key not in reach:
                    r.ok('C05.R2', key, 'in a method unreachable from the store API (excluded)', src(fi.module), n.lineno)
                else:
                    r.fail('C05.R2', key, f'`{Q}.{op}` in {fi.name}: the relative order of waiting requests can change outside '
                                          f'enqueue / head service / cancellation', src(fi.module), n.lineno)
    # no code outside the store classes touches the queues
    storekeys = set()
    for s2 in tables.discover_stores(p):
        for ci in p.mro(s2.ci.key):
            storekeys.add(ci.key)
    if w is storewalk.walks(p, assume_inv=('I1',))[0]:
        for fi in p.all_functions():
            if fi.cls and (fi.module, fi.cls) in storekeys:
                continue
            for n in walk_no_nested(fi.node):
                if isinstance(n, ast.Attribute) and n.attr in (QP, QG):
                    r.fail('C05.R2', f'{fi.key}::foreign-access({n.attr})', f'`{ast.unparse(n)}` accessed outside the store classes',
                           src(fi.module), n.lineno)


def check_service(p, w, r):
    s = w.store
    for which, grant in (('put', '_do_reserve_put'), ('get', '_do_reserve_get')):
        fi = s.methods[grant]
        key = f'{s.ci.label}.{grant}::request-independent'
        exc = R3_EXCEPTIONS.get((s.ci.module, s.ci.name, which))
        reads = c04.grant_reads_request(w, which)
        if reads and not exc:
            r.fail('C05.R3', key, 'the grant function reads attributes of the request: a later request can overtake the head', src(fi.module), fi.node.lineno)
        elif reads:
            r.ok('C05.R3', key, f'frozen exception: {exc}', src(fi.module), fi.node.lineno)
        else:
            r.ok('C05.R3', key, 'grant decided from the store state only; head-first loop checked by C04.R3', src(fi.module), fi.node.lineno)
    # head-first: reuse the C04.R3 walk
    sub = Result('C05')
    c04.check_service_loop(p, w, sub, wakeup=False)      # the order of service, not whether every call serves (that is C04)
    for o in sub.obligations:
        k = o.construct.replace('::service-loop', '::head-first')
        if o.ok:
            r.ok('C05.R3', k, o.detail, o.file, o.line)
    for f in sub.findings:
        r.fail('C05.R3', f.construct.replace('::service-loop', '::head-first'), f.message, f.file, f.line, f.path)


def check_priority_req_store(p, r):
    rel = 'base/priority_req_store.py'
    if rel not in p.modules:
        raise AnalysisError('anchor vanished: base/priority_req_store.py')
    sq = p.cls(rel, 'SortedQueue')
    ap = sq.methods.get('append')
    key = f'{rel}::SortedQueue.append::append-then-stable-sort'
    ok = False
    why = 'SortedQueue.append missing'
    if ap:
        r.analysed_functions.add(ap.key)
        calls = [n for n in walk_no_nested(ap.node) if isinstance(n, ast.Call) and isinstance(n.func, ast.Attribute)
                 and isinstance(n.func.value, ast.Call) and ast.unparse(n.func.value.func) == 'super']
        calls.sort(key=lambda n: n.lineno)
        names = [c.func.attr for c in calls]
        why = f'expected super().append(item) then super().sort(key=lambda e: e.key), found {names}'
        if names and set(names) <= {'append', 'insert'} and 'insert' in names:
            # binary-search insertion into the (already sorted) queue: stable iff the newcomer goes *after* every waiting request with an equal key
            ins = [c for c in calls if c.func.attr == 'insert'][0]
            pos = ins.args[0] if ins.args else None
            if isinstance(pos, ast.Name):
                asg = [n for n in walk_no_nested(ap.node) if isinstance(n, ast.Assign) and any(isinstance(t, ast.Name) and t.id == pos.id for t in n.targets)]
                pos = asg[-1].value if len(asg) == 1 else None
            fn_name = (pos.func.id if isinstance(pos.func, ast.Name) else pos.func.attr) if isinstance(pos, ast.Call) and isinstance(pos.func, (ast.Name, ast.Attribute)) else None
            itemp = [a.arg for a in ap.node.args.args if a.arg != 'self'][0]
            if fn_name in ('bisect_left', 'insort_left'):
                why = (f'the insertion point is {fn_name}(keys, {itemp}.key): a new request is placed *before* every waiting request with the same key - '
                       f'first-come-first-served among equals is reversed')
            elif fn_name in ('bisect_right', 'bisect') and len(pos.args) >= 2 and ast.unparse(pos.args[1]) == f'{itemp}.key' \
                    and len(ins.args) == 2 and ast.unparse(ins.args[1]) == itemp:
                fast = [c for c in calls if c.func.attr == 'append']
                ok = all(c.args and ast.unparse(c.args[0]) == itemp for c in fast)
                why = 'a fast path appends something other than the item' if not ok else ''
            else:
                why = f'insertion position `{ast.unparse(ins.args[0]) if ins.args else "?"}` is not a recognised stable insertion point (bisect_right on the keys)'
        if names == ['append', 'sort']:
            so = calls[1]
            kws = {k.arg: k.value for k in so.keywords}
            lam = kws.get('key')
            if not so.args and set(kws) == {'key'} and isinstance(lam, ast.Lambda) and isinstance(lam.body, ast.Attribute) \
                    and lam.body.attr == 'key' and isinstance(lam.body.value, ast.Name) and lam.body.value.id == lam.args.args[0].arg:
                itemp = [a.arg for a in ap.node.args.args if a.arg != 'self'][0]
                if calls[0].args and isinstance(calls[0].args[0], ast.Name) and calls[0].args[0].id == itemp:
                    ok = True
                else:
                    why = 'super().append does not append the item'
            else:
                why = f'sort call `{ast.unparse(so)}` is not a plain ascending sort on .key'
    (r.ok if ok else r.fail)('C05.R4', key, 'stable insertion by .key (append + stable sort, or bisect_right)' if ok else why, src(rel), ap.node.lineno if ap else 0)
    for cname in ('PriorityGet', 'PriorityPut'):
        ci = p.cls(rel, cname)
        init = ci.methods.get('__init__')
        key = f'{rel}::{cname}.__init__::key-before-enqueue'
        if init is None:
            r.fail('C05.R4', key, '__init__ missing', src(rel), ci.node.lineno)
            continue
        r.analysed_functions.add(init.key)
        key_assign = None
        sup = None
        for n in walk_no_nested(init.node):
            if isinstance(n, ast.Assign) and any(self_attr(t) == 'key' for t in n.targets):
                key_assign = n
            if isinstance(n, ast.Call) and isinstance(n.func, ast.Attribute) and n.func.attr == '__init__' \
                    and isinstance(n.func.value, ast.Call) and ast.unparse(n.func.value.func) == 'super':
                sup = n
        good = False
        why = ''
        if key_assign is None or sup is None:
            why = 'self.key assignment or super().__init__ call not found'
        elif key_assign.lineno > sup.lineno:
            why = 'self.key is assigned after super().__init__ enqueued the request'
        else:
            v = key_assign.value
            # what each component *is*, through the locals and attributes assigned before it (not how it is spelled)
            binds = {}
            for n in sorted([x for x in walk_no_nested(init.node) if isinstance(x, ast.Assign) and x.lineno < key_assign.lineno], key=lambda x: x.lineno):
                for t in n.targets:
                    if isinstance(t, ast.Name) or self_attr(t) is not None:
                        binds[ast.unparse(t)] = n.value

            def resolve(e, depth=0):
                t = ast.unparse(e)
                if t in binds and depth < 5:
                    return resolve(binds[t], depth + 1)
                return t
            params = [a_.arg for a_ in init.node.args.args]
            if isinstance(v, ast.Tuple) and len(v.elts) == 2:
                r0, r1 = resolve(v.elts[0]), resolve(v.elts[1])
                if r0 in params and r0 == 'priority' and r1.endswith('.now'):
                    good = True
                else:
                    why = f'key is ({r0}, {r1}): expected (the priority parameter, the clock at request time)'
            else:
                why = f'key is `{ast.unparse(v)}`, expected (priority, time)'
        (r.ok if good else r.fail)('C05.R4', key, 'key = (priority, time) assigned before super().__init__' if good else why, src(rel), init.node.lineno)
    st = p.cls(rel, 'PriorityReqStore')
    key = f'{rel}::PriorityReqStore::queues'
    ca = st.class_attrs
    good = all(isinstance(ca.get(q), ast.Name) and ca[q].id == 'SortedQueue' for q in ('GetQueue', 'PutQueue')) \
        and all(isinstance(ca.get(m), ast.Call) and ast.unparse(ca[m].func) == 'BoundClass' and ca[m].args
                and ast.unparse(ca[m].args[0]) == c for m, c in (('get', 'PriorityGet'), ('put', 'PriorityPut')))
    (r.ok if good else r.fail)('C05.R4', key, 'GetQueue = PutQueue = SortedQueue; get/put bound to PriorityGet/PriorityPut' if good else
                               'PriorityReqStore no longer installs SortedQueue / the priority request classes', src(rel), st.node.lineno)


def check_callers(p, r):
    n = 0
    for fi in p.all_functions():
        for c in walk_no_nested(fi.node):
            if isinstance(c, ast.Call) and isinstance(c.func, ast.Attribute) and c.func.attr in ('reserve_put', 'reserve_get'):
                n += 1
                key = site(fi, c, 'call')
                if c.args or c.keywords:
                    r.fail('C05.R5', key, f'`{ast.unparse(c)}` passes a priority: edge-level service order is no longer arrival order',
                           src(fi.module), c.lineno)
                else:
                    r.ok('C05.R5', key, 'no priority argument', src(fi.module), c.lineno)
