"""C06 - FIFO, LIFO and filter retrieval discipline holds, also after cancellation (partial).

  R1 the binder takes the first unreserved item in availability order (FIFO) / the last (LIFO), and arrivals
     keep the availability order (append behind, never into the reserved block);
  R2 a cancellation puts the released item *first among the unreserved* without permuting the others
     (one removal + one re-insertion of that very item at |RE|_after resp. |A|−|RE|_after);
  R3 in the filter store the item bound to the token is the item for which the filter returned true;
  R4 nodes with several edges create their tokens in edge order, choose the first triggered in that order
     and cancel all the others.
"""
from __future__ import annotations

import ast

from .. import lin, nodewalk, paths, storewalk, tables, typestate
from ..model import AnalysisError, Project, self_attr, walk_no_nested
from ..report import Result, ctx_of
from ..tables import RG, RE, RI, TRIGGERS
from .common import check_ctor_wiring, site, src
from . import c02, c04

PROP = 'C06'
LEVEL = 'other'


def run(p: Project, tier: str) -> Result:
    r = Result(PROP)
    r.explanation = ('Ordering reading of the binding algebra: which item a granted retrieval owns (first / last unreserved), where a released '
                     'item returns to, that a filtered retrieval owns the item its filter matched, and that nodes keep exactly the first '
                     'triggered of the tokens created in edge order. The order in which items *become* available (timers) is not decided.')
    r.rule('C06.R1', 'binder picks the first (FIFO) / last (LIFO) unreserved item; arrivals never enter the reserved block', 16)
    r.rule('C06.R2', 'cancellation re-inserts the released item first among the unreserved, others keep their order', 8)
    r.rule('C06.R3', 'filter store: the bound item is the item the filter matched', 1)
    r.rule('C06.R4', 'nodes: tokens in edge order, first triggered chosen, all others cancelled', 8)
    r.not_decided = ['order of becoming available (per-item timers)', 'same-instant ordering of token triggers']
    ws = storewalk.walks(p, assume_inv=('I1',))
    for w in ws:
        r.ctx = ctx_of(w)
        r.paths += w.npaths
        c02.binding_checks(p, w, r, 'C06.R1', which=('binder', 'arrival', 'get'))
        c02.binding_checks(p, w, r, 'C06.R2', which=('cancel',))
        check_filter(p, w, r)
    check_nodes(p, r)
    r.ctx = ''
    r.rule('C06.R5', 'the Buffer hands its configured mode unchanged to its store', 1)
    for ci in tables.edge_classes(p):
        attr, skeys = tables.edge_store_attr(p, ci)
        if ci.name == 'Buffer':
            check_ctor_wiring(p, r, 'C06.R5', ci, attr, {'mode': 'mode'}, 'FIFO / LIFO is decided by the store, from the mode it was built with')
    return r


def check_filter(p, w, r):
    s = w.store
    if not c04.grant_reads_request(w, 'get'):
        return
    fi = s.methods['_do_reserve_get']
    r.analysed_functions.add(fi.key)
    key = f'{s.ci.label}._do_reserve_get::filter-binds-matched-item'
    ex = paths.Explorer(p, s.ci.key, tracked=set(s.lists), atomic={tables.LEVEL_UPDATER, *TRIGGERS}, unroll=2)
    bad = None
    n = 0
    for pa in ex.paths(fi):
        if pa.raises:
            continue
        evs = pa.events
        gi = next((i for i, e in enumerate(evs) if e.kind == 'op' and e.list == RG and e.op == 'append'), None)
        if gi is None:
            continue
        n += 1
        # the value the filter was applied to on this (matching) iteration
        matched = None
        for e in reversed(evs[:gi]):
            if e.kind == 'xcall' and e.name.endswith('.filter') and e.args:
                matched = e.args[0]
                break
        if matched is None:
            bad = (pa, 'the grant is not control dependent on a filter call')
            continue
        # how is the binding recorded?  (a) reserved_items.append(matched)   (b) the matched item is moved to position |RE|
        ri = [e for e in evs[gi:] if e.kind == 'op' and e.list == RI and e.op == 'append']
        moved = [e for e in evs[gi:] if e.kind == 'op' and e.list == s.avail and e.op == 'insert' and e.val == matched]
        if ri and ri[0].val == matched:
            continue
        if moved:
            continue
        bad = (pa, ('the token is bound by position (reserved_events[k] ↔ items[k], k = |RE|) but the item that satisfied the filter is the loop '
                    'variable of the scan: the bound position does not depend on it, so get() can return an item that does not satisfy the filter'))
    if n == 0:
        r.fail('C06.R3', key, 'no granting path in the filter binder', src(fi.module), fi.node.lineno)
    elif bad:
        r.fail('C06.R3', key, bad[1], src(fi.module), fi.node.lineno, bad[0].describe())
    else:
        r.ok('C06.R3', key, 'bound item = matched item', src(fi.module), fi.node.lineno)


def check_nodes(p: Project, r: Result):
    for w in nodewalk.walks(p):
        r.ctx = ctx_of(w)
        r.paths += w.npaths
        for root, ps in w.roots.items():
            fi = w.root_funcs[root]
            sites = {}
            for pa in ps:
                if pa.raises or pa.status == 'loopcut':
                    continue
                rep = typestate.analyse_tokens(pa)
                for t in rep.toks:
                    if not t.is_list:
                        continue
                    e = t.ev
                    key = site(e.fi, e.node, f'first-triggered:{e.name}')
                    rec = sites.setdefault(key, {'ok': True, 'e': e, 'pa': pa, 'why': ''})
                    why = None
                    if e.over not in ('self.in_edges', 'self.out_edges'):
                        why = f'tokens are created over `{e.over}`, not over the node\'s edge list in edge order'
                    elif t.chosen is None:
                        why = 'no token is chosen on this path'
                    else:
                        pred = getattr(t, 'pred', '')
                        if pred.replace(' ', '') not in ('event.triggered', 'e.triggered', 't.triggered', 'ev.triggered') and not pred.endswith('.triggered'):
                            why = f'the chosen token is selected by `{pred}`, not by "first triggered"'
                        elif not t.rest_cancelled:
                            why = 'the tokens not chosen are not all cancelled'
                        elif t.used != 1:
                            why = f'the chosen token is used {t.used} times'
                    if why and rec['ok']:
                        rec.update(ok=False, pa=pa, why=why)
            # every selection among reservation tokens in a node process (also the combiner's counted drain over a local token list) picks by `.triggered`:
            # `.processed` lags behind `.triggered` within an instant, `.ok` / `.value` mean something else
            for pa in ps:
                if pa.raises or pa.status == 'loopcut':
                    continue
                for e in pa.events:
                    if e.kind != 'lookup' or not e.d.get('var'):
                        continue
                    pred = (e.pred or '').replace(' ', '')
                    var = e.var
                    if f'{var}.' not in pred or 'requesting_process' in pred:
                        continue            # not a selection by event state (e.g. a store-side validation look-up)
                    key = site(e.fi, e.node, 'selects-by-triggered', same=lambda n: isinstance(n, ast.Call) and isinstance(n.func, ast.Name) and n.func.id == 'next')
                    rec = sites.setdefault(key, {'ok': True, 'e': e, 'pa': pa, 'why': ''})
                    if pred != f'{var}.triggered' and rec['ok']:
                        rec.update(ok=False, pa=pa, why=f'a reservation token is selected by `{e.pred}`, not by `{var}.triggered`: a token granted in the same instant but not '
                                                        f'yet processed by the kernel is overlooked (the wait set is not re-armed for it) or a wrong token is taken')
            for key, rec in sorted(sites.items()):
                e = rec['e']
                r.analysed_functions.add(e.fi.key)
                if rec['ok']:
                    r.ok('C06.R4', key, 'edge order, first triggered, rest cancelled', src(e.fi.module), e.line)
                else:
                    r.fail('C06.R4', key, rec['why'], src(e.fi.module), e.line, rec['pa'].describe())
