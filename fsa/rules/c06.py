from ..model import AnalysisError
PROP = 'C06'
LEVEL = 'other'


def run(p, tier):
    raise AnalysisError('rule module for C06 not implemented yet (fail closed)')
