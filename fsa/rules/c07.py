from ..model import AnalysisError
PROP = 'C07'
LEVEL = 'other'


def run(p, tier):
    raise AnalysisError('rule module for C07 not implemented yet (fail closed)')
