"""C07 - protocol enforced: no put/get without a valid reservation of one's own.

For put, get and both cancellations of every store class:
  R1 the reservation is looked up among the granted reservations with a predicate containing both
     `e == token` and `e.requesting_process == <env>.active_process` (cancellations: membership test);
  R2 a failed look-up / an empty granted list ends in `raise RuntimeError`;
  R3 every mutation on any path is preceded by a successful validation (a rejected call is effect free);
  R4 the cancellations raise RuntimeError exactly when the token is in neither list;
  R5 the success path removes the token from the list it was validated in (reuse / use-after-cancel fail R1).
"""
from __future__ import annotations

import ast

from .. import paths, storewalk, tables
from ..model import AnalysisError, Project, self_attr
from ..report import Result, ctx_of
from ..tables import RP, RG, QP, QG, TRIGGERS, LEVEL_UPDATER
from .common import site, src, status_str

PROP = 'C07'
LEVEL = 'proof'

ENTRY = {'put': (RP, None), 'get': (RG, None), 'reserve_put_cancel': (RP, QP), 'reserve_get_cancel': (RG, QG)}
MUT_KINDS = {'op', 'spawn', 'succeed', 'sort', 'listcall', 'rebind', 'interrupt', 'pcall', 'delete'}


def is_mutation(e) -> bool:
    if e.kind in MUT_KINDS:
        return True
    if e.kind == 'setattr' and e.on_self:
        return True
    if e.kind == 'setitem' and e.base.startswith('self'):
        return True
    if e.kind == 'call':
        return True        # any un-inlined self-method call (triggers, level updater, unknown) may mutate
    if e.kind == 'xcall':
        return False       # calls on foreign objects with opaque effect are not store mutations
    return False


def pred_ok(e, token_param: str) -> (bool, str):
    """The look-up predicate contains `var == token` and `var.requesting_process == <...>.active_process`, conjoined."""
    var = e.var
    has_tok = False
    has_proc = False
    for c in e.pred_nodes:
        for x in ast.walk(c):
            if isinstance(x, ast.BoolOp) and isinstance(x.op, ast.Or):
                return False, 'predicate contains `or`'
            if isinstance(x, ast.Compare) and len(x.ops) == 1 and isinstance(x.ops[0], (ast.Eq, ast.Is)):
                l, r = x.left, x.comparators[0]
                for a, b in ((l, r), (r, l)):
                    if isinstance(a, ast.Name) and a.id == var and isinstance(b, ast.Name) and b.id == token_param:
                        has_tok = True
                    if isinstance(a, ast.Attribute) and a.attr == 'requesting_process' and isinstance(a.value, ast.Name) \
                            and a.value.id == var and isinstance(b, ast.Attribute) and b.attr == 'active_process':
                        has_proc = True
    if not has_tok:
        return False, 'predicate does not compare the reservation with the token'
    if not has_proc:
        return False, 'predicate does not compare requesting_process with the active process'
    return True, ''


def membership(e, token_param):
    """(list, polarity) if the cond event is `token in self.L`."""
    n = e.d.get('node')
    if e.kind != 'cond' or e.d.get('synthetic') or n is None:
        return None
    if isinstance(n, ast.Compare) and len(n.ops) == 1 and isinstance(n.ops[0], (ast.In, ast.NotIn)) \
            and isinstance(n.left, ast.Name) and n.left.id == token_param:
        L = self_attr(n.comparators[0])
        if L:
            pol = e.polarity if isinstance(n.ops[0], ast.In) else (not e.polarity)
            return L, pol
    return None


def owner_cond(e) -> bool:
    """cond event `<x>.requesting_process == <env>.active_process` decided True (either operand order)"""
    n = e.d.get('node')
    if e.kind != 'cond' or e.d.get('synthetic') or n is None or e.polarity is not True:
        return False
    if isinstance(n, ast.Compare) and len(n.ops) == 1 and isinstance(n.ops[0], (ast.Eq, ast.Is)):
        for a, b in ((n.left, n.comparators[0]), (n.comparators[0], n.left)):
            if isinstance(a, ast.Attribute) and a.attr == 'requesting_process' and isinstance(b, ast.Attribute) and b.attr == 'active_process':
                return True
    return False


def member_any(e):
    """(list, polarity) for `<name> in self.L` whatever the name (inside inlined frames the token has the callee's parameter name)"""
    n = e.d.get('node')
    if e.kind != 'cond' or e.d.get('synthetic') or n is None:
        return None
    if isinstance(n, ast.Compare) and len(n.ops) == 1 and isinstance(n.ops[0], (ast.In, ast.NotIn)) and isinstance(n.left, ast.Name):
        L = self_attr(n.comparators[0])
        if L:
            return L, (e.polarity if isinstance(n.ops[0], ast.In) else not e.polarity)
    return None


def run(p: Project, tier: str) -> Result:
    r = Result(PROP)
    r.explanation = ('validate(token ∧ process) dominates every mutation; failure ⇒ RuntimeError with no prior effect; '
                     'success consumes the token - for put/get/cancel of all store classes (32 entry points).')
    r.rule('C07.R1', 'put/get look the reservation up among the granted ones by (token, active process)', 16)
    r.rule('C07.R2', 'every failing validation path ends in raise RuntimeError', 32)
    r.rule('C07.R3', 'no mutation before a successful validation on any path', 32)
    r.rule('C07.R4', 'cancellations raise RuntimeError exactly when the token is in neither list', 16)
    r.rule('C07.R5', 'the success path removes the token from the list it was validated in', 32)
    r.assumptions = ['tokens are compared by identity/equality of simpy.Event objects', 'env.active_process identifies the caller']
    ws = storewalk.walks(p, assume_inv=('I1',))
    for w in ws:
        r.ctx = ctx_of(w)
        s = w.store
        for entry, (granted, queue) in ENTRY.items():
            fi = w.root_funcs[entry]
            r.analysed_functions.add(fi.key)
            params = [a.arg for a in fi.node.args.args if a.arg != 'self']
            if not params:
                raise AnalysisError(f'{fi.key}: no token parameter')
            tok = params[0]
            ps = w.roots[entry]
            r.paths += len(ps)
            check_entry(r, s, entry, fi, tok, granted, queue, ps)
        check_token_tags(r, w)
        check_result_contract(r, w)
    r.ctx = ''
    check_errors_reach_the_caller(p, r)
    return r


def check_result_contract(r, w):
    """R8: what put / reserve_*_cancel hand back on success is the constant True, on every completing path.  The callers are written against that:
    nodes raise when a cancel reports a falsy result (`if not event_cancelled: raise ValueError`), and a blocking Source suspends on whatever a put
    returns that is a Process - a store that starts handing back its mover process keeps the Source BLOCKED for the whole transit delay."""
    r.rule('C07.R8', 'put and the two cancellations return the constant True on every completing path', 24)
    s = w.store
    for entry in ('put', 'reserve_put_cancel', 'reserve_get_cancel'):
        ps = w.roots.get(entry)
        fi = s.methods.get(entry)
        if not ps or fi is None:
            continue
        key = f'{s.ci.label}.{entry}::reports-success-with-True'
        bad = None
        n = 0
        for pa in ps:
            if pa.raises or pa.status in ('loopcut', 'backedge'):
                continue
            n += 1
            if pa.st.ret != ('const', True):
                bad = pa
        if bad is not None:
            r.fail('C07.R8', key, f'{entry} completes with the result `{bad.st.ret!r:.60}` on one path: ' +
                   ('a successful cancellation reported as failed makes the node raise ValueError out of run()' if 'cancel' in entry else
                    'the callers test it for truth and a blocking Source waits on it when it is a process'), src(fi.module), fi.node.lineno, bad.describe())
        elif n:
            r.ok('C07.R8', key, f'True on {n} completing path(s)', src(fi.module), fi.node.lineno)


PROTOCOL_CALLS = ('put', 'get', 'reserve_put', 'reserve_get', 'reserve_put_cancel', 'reserve_get_cancel', '_trigger_put', '_trigger_get', '_do_put', '_do_get')
_R7_CANARY = '''
def wrapper(store, ev, item):
    ok = False
    try:
        ok = store.put(ev, item)
    finally:
        return ok
def wrapper2(store, ev):
    try:
        return store.get(ev)
    except Exception:
        return None
'''


def swallow_sites(tree):
    """constructs between a protocol call and its caller that make a raised RuntimeError disappear: (a) `return` / `break` / `continue` inside a
    `finally` block (the in-flight exception is discarded); (b) a handler for RuntimeError / Exception / BaseException / everything around a protocol
    call that neither re-raises nor raises something else"""
    out = []
    for n in ast.walk(tree):
        if isinstance(n, ast.Try):
            for st in n.finalbody:
                for x in ast.walk(st):
                    if isinstance(x, (ast.FunctionDef, ast.Lambda)):
                        break
                    if isinstance(x, (ast.Return, ast.Break, ast.Continue)):
                        out.append((x.lineno, 'finally', f'`{type(x).__name__.lower()}` inside `finally` discards an exception in flight'))
            calls = [c for st in n.body for c in ast.walk(st) if isinstance(c, ast.Call) and isinstance(c.func, ast.Attribute) and c.func.attr in PROTOCOL_CALLS]
            if not calls:
                continue
            for h in n.handlers:
                names = []
                t = h.type
                if t is None:
                    names = ['<everything>']
                else:
                    for e in (t.elts if isinstance(t, ast.Tuple) else [t]):
                        names.append(ast.unparse(e).split('.')[-1])
                if not any(x in ('<everything>', 'RuntimeError', 'Exception', 'BaseException') for x in names):
                    continue
                if any(isinstance(x, ast.Raise) for st in h.body for x in ast.walk(st)):
                    continue
                out.append((h.lineno, 'handler', f'`except {", ".join(names)}` around `{ast.unparse(calls[0].func)}(...)` does not re-raise: a rejected call looks like a '
                                                 f'successful (or merely falsy) one to the caller'))
    return out


def check_errors_reach_the_caller(p, r):
    r.rule('C07.R7', 'a RuntimeError raised by the protocol reaches the caller: no return/break/continue in finally, no swallowing handler around a protocol call', 0)
    n = 0
    for rel, m in sorted(p.raw().modules.items()):
        for fn in [x for x in ast.walk(m.tree) if isinstance(x, ast.FunctionDef)]:
            for line, kind, msg in swallow_sites(fn):
                n += 1
                r.fail('C07.R7', f'{rel}::{fn.name}::swallows({kind})', msg + ' (ill-formed put / get / cancel must fail with RuntimeError at every level of the API)',
                       src(rel), line)
    r.ok('C07.R7', 'package::R7-scan', f'{len(p.raw().modules)} modules scanned, {n} swallowing construct(s)', '', 0)
    kinds = {k for _, k, _ in swallow_sites(ast.parse(_R7_CANARY))}
    r.canaries['C07.R7'] = kinds == {'finally', 'handler'}


def check_token_tags(r, w):
    """R6: the ownership check of put/get/cancel compares `token.requesting_process` with the caller, and the nodes cancel through
    `token.resourcename`: every reservation token a store hands out must carry both, on every path of reserve_put / reserve_get."""
    r.rule('C07.R6', 'reserve_put / reserve_get tag the token they return with requesting_process = the caller and resourcename = the store', 16)
    for entry in ('reserve_put', 'reserve_get'):
        fi = w.root_funcs.get(entry)
        if fi is None:
            continue
        key = f'{w.store.label}.{entry}::token-tags'
        why = bad = None
        n = 0
        for pa in w.roots[entry]:
            if pa.raises or pa.status == 'loopcut':
                continue
            n += 1
            ret = next((e.value for e in reversed(pa.events) if e.kind == 'return' and e.fi is fi), None)
            if ret is None or ret[0] != 'newevent':
                why, bad = 'the request does not return a fresh event', pa
                continue
            tags = {e.attr: e.value for e in pa.events if e.kind == 'setattr' and e.d.get('obj_val') == ret}
            rp = tags.get('requesting_process')
            if rp is None or not (rp[0] == 'attr' and rp[2] == 'active_process'):
                why, bad = 'the token is handed out without `requesting_process = env.active_process`: no put / get / cancel with it can pass the ownership check', pa
            elif tags.get('resourcename') not in (('name', 'self'), ('param', 'self')):
                why, bad = 'the token is handed out without `resourcename = self`: nodes cancel and use reservations through token.resourcename', pa
        if n == 0:
            why = 'no completing path'
        if why:
            r.fail('C07.R6', key, why, src(fi.module), fi.node.lineno, bad.describe() if bad else None)
        else:
            r.ok('C07.R6', key, 'requesting_process and resourcename set on the returned token on every path', src(fi.module), fi.node.lineno)


def check_entry(r: Result, s, entry, fi, tok, granted, queue, ps):
    base = f'{s.ci.label}.{entry}'
    r1_bad = r2_bad = r3_bad = r4_bad = r5_bad = None
    n_ok_paths = 0
    for pa in ps:
        validated = None       # list in which the token was validated
        first_mut_before = None
        removed_from = set()
        lookups = []
        member = {}
        alt = {}
        for e in pa.events:
            if e.fi is not None:
                r.analysed_functions.add(e.fi.key)
            if e.kind == 'lookup' and e.srclist == granted:
                lookups.append(e)
                if e.outcome == 'found':
                    # token parameter as seen inside the frame where the lookup happens
                    okp, why = pred_ok(e, e.eq[0] if e.eq else '?')
                    # the compared name must carry the entry point's token
                    v = e.value
                    carries = v[0] == 'found' and v[3] == ('param', tok)
                    if not okp or not carries:
                        r1_bad = (e, pa, why or 'the compared name is not the token parameter of the entry point')
                    else:
                        validated = granted
                continue
            m = membership(e, tok)
            if m is not None:
                member[m[0]] = m[1]
                if m[1] and m[0] in (granted, queue) and queue is not None:
                    validated = m[0]
                if queue is None and m[1] and m[0] == granted:
                    alt['member'] = True
                    if alt.get('owner'):
                        validated = granted
                continue
            # alternative validation idiom for put/get: `tok in self.<granted>` and `tok.requesting_process == active_process`, both true
            if queue is None:
                ma = member_any(e)
                if ma is not None and ma[0] == granted and ma[1]:
                    alt['member'] = True
                    if alt.get('owner'):
                        validated = granted
                    continue
                if owner_cond(e):
                    alt['owner'] = True
                    if alt.get('member'):
                        validated = granted
                    continue
            if e.kind == 'op' and e.op in ('remove', 'pop'):
                v = e.val
                if v == ('param', tok) or (v is not None and v[0] == 'found' and v[3] == ('param', tok)):
                    removed_from.add(e.list)
                # L.pop(L.index(token)) removes the token just as L.remove(token) does
                ix = e.d.get('idx')
                if e.op == 'pop' and ix is not None and ix[0] == 'index' and ix[1] == e.list and ix[2] == ('param', tok):
                    removed_from.add(e.list)
            if is_mutation(e) and validated is None and first_mut_before is None:
                first_mut_before = e
        if first_mut_before is not None:
            r3_bad = (first_mut_before, pa)
        if pa.raises:
            exc = pa.status[1]
            failed_validation = validated is None
            if failed_validation and exc != 'RuntimeError':
                r2_bad = (pa, exc)
            continue
        if pa.status in ('loopcut',):
            continue
        n_ok_paths += 1
        if validated is None:
            # a non-raising path without validation: the call was accepted without a reservation
            if queue is None:
                r2_bad = (pa, 'no exception')
            else:
                r4_bad = (pa, 'returns although the token was found in neither list')
        else:
            if validated not in removed_from:
                r5_bad = (pa, validated)
        if queue is not None:
            # cancellations: exactly-when
            pass
    # cancellation: the path with both memberships False must exist and raise RuntimeError
    if queue is not None:
        neither = [pa for pa in ps if paths_member(pa, tok, granted) is False and paths_member(pa, tok, queue) is False]
        if not neither:
            r4_bad = (ps[0], 'no path on which the token is in neither list (membership tests missing)')
        for pa in neither:
            if not (pa.raises and pa.status[1] == 'RuntimeError'):
                r4_bad = (pa, f'token in neither list but the call ends with {status_str(pa.status)}')
    line = fi.node.lineno
    f = src(fi.module)
    if queue is None:
        if r1_bad:
            e, pa, why = r1_bad
            r.fail('C07.R1', f'{base}::lookup', f'reservation look-up is too weak: {why}', f, e.line, pa.describe())
        elif n_ok_paths == 0:
            r.fail('C07.R1', f'{base}::lookup', 'no successful path found', f, line)
        else:
            r.ok('C07.R1', f'{base}::lookup', f'look-up in {granted} by (token, active process)', f, line)
    if r2_bad:
        pa, exc = r2_bad
        r.fail('C07.R2', f'{base}::failure-exit', f'a call without a valid reservation ends with {exc} instead of RuntimeError', f, line, pa.describe())
    else:
        r.ok('C07.R2', f'{base}::failure-exit', 'every path without successful validation raises RuntimeError', f, line)
    if r3_bad:
        e, pa = r3_bad
        r.fail('C07.R3', f'{base}::effect-before-validation',
               f'`{e.kind}` at line {e.line} ({e.d.get("list") or e.d.get("name") or e.d.get("target") or ""}) happens before the reservation is validated: '
               f'a rejected call is not side-effect free', f, e.line, pa.describe())
    else:
        r.ok('C07.R3', f'{base}::effect-before-validation', 'no mutation precedes validation on any path', f, line)
    if queue is not None:
        if r4_bad:
            pa, why = r4_bad
            r.fail('C07.R4', f'{base}::unknown-token', why, f, line, pa.describe())
        else:
            r.ok('C07.R4', f'{base}::unknown-token', 'RuntimeError exactly when the token is in neither list', f, line)
    if r5_bad:
        pa, L = r5_bad
        r.fail('C07.R5', f'{base}::consume', f'success path does not remove the token from `{L}`: the reservation can be used again', f, line, pa.describe())
    else:
        r.ok('C07.R5', f'{base}::consume', 'token removed from the validating list on every success path', f, line)


def paths_member(pa, tok, L):
    for e in pa.events:
        m = membership(e, tok)
        if m is not None and m[0] == L:
            return m[1]
    return None
