"""C08 - machine holds <= work_capacity items, each for exactly its processing delay (partial).

  R1 (Machine, Splitter) a yielded worker-slot request dominates every in-edge get of the same iteration, one
     request per pulled unit;
  R2 the request token handed to the worker is released exactly once on every non-raising exit, after the
     unit of work was disposed of (3 workers);
  R3 the simpy.Resource capacity is the constructor's work_capacity (1 for Splitter / Combiner);
  R4 exactly one get_delay(self.processing_delay) per pulled unit, and that value - unchanged - is the argument
     of exactly one timeout (followed across the spawn);
  R5 between the pull and the first push attempt the only suspension is that timeout.
"""
from __future__ import annotations

import ast

from .. import nodewalk, paths
from ..model import AnalysisError, Project, self_attr, walk_no_nested
from ..report import Result
from .common import site, src

PROP = 'C08'
LEVEL = 'other'

WORK_NODES = ('Machine', 'Splitter', 'Combiner')
SLOT_BEFORE_PULL = ('Machine', 'Splitter')


def run(p: Project, tier: str) -> Result:
    r = Result(PROP)
    r.explanation = ('Worker-slot typestate (requested before the pull, released after the push, on every exit), capacity wiring, and the '
                     'data flow of the drawn processing delay into exactly one timeout. Exact residence times and same-instant orderings are not decided.')
    r.rule('C08.R1', 'slot request yielded before every pull of the iteration (Machine, Splitter)', 4)
    r.rule('C08.R2', 'worker releases the slot token it was given exactly once, after disposing of its unit', 3)
    r.rule('C08.R3', 'Resource capacity = work_capacity (constructor argument; 1 for Splitter/Combiner)', 3)
    r.rule('C08.R4', 'one processing delay drawn per unit; it reaches exactly one timeout unchanged', 3)
    r.rule('C08.R5', 'no other suspension between pull and first push attempt', 3)
    r.not_decided = ['exact residence time (real-valued kernel times)', 'simultaneous arrivals on several in-edges',
                     "the Combiner gathers its ingredients before it asks for the slot (the statement does not bound this phase)"]
    ws = {w.ci.name: w for w in nodewalk.walks(p)}
    for name in WORK_NODES:
        if name not in ws:
            raise AnalysisError(f'anchor vanished: node class {name}')
        w = ws[name]
        r.paths += w.npaths
        check_capacity(p, w, r)
        if name in SLOT_BEFORE_PULL:
            check_slot_before_pull(w, r)
        check_release(w, r)
        check_delay(w, r)
    return r


def check_capacity(p, w, r):
    ci = w.ci
    init = ci.methods.get('__init__')
    key = f'{ci.label}.__init__::resource-capacity'
    if init is None:
        r.fail('C08.R3', key, '__init__ missing', src(ci.module), ci.node.lineno)
        return
    r.analysed_functions.add(init.key)
    res = None
    wc = []
    for n in walk_no_nested(init.node):
        if isinstance(n, ast.Assign) and any(self_attr(t) == 'worker_thread' for t in n.targets) and isinstance(n.value, ast.Call):
            res = n.value
        if isinstance(n, ast.Assign) and any(self_attr(t) == 'work_capacity' for t in n.targets):
            wc.append(n.value)
    if res is None or not ast.unparse(res.func).endswith('Resource'):
        r.fail('C08.R3', key, 'self.worker_thread is not a simpy.Resource', src(ci.module), init.node.lineno)
        return
    cap = None
    for k in res.keywords:
        if k.arg == 'capacity':
            cap = k.value
    if cap is None and len(res.args) > 1:
        cap = res.args[1]
    params = [a.arg for a in init.node.args.args]
    want = 'work_capacity' if 'work_capacity' in params else '1'
    captxt = ast.unparse(cap) if cap is not None else '(default 1)'
    ok = False
    if captxt in ('self.work_capacity',) and len(wc) == 1 and ast.unparse(wc[0]) == want:
        ok = True
    elif captxt == want:
        ok = True
    # work_capacity is not reassigned elsewhere
    others = [fi for fi, v, _ in p.self_attr_sites(ci.key).get('work_capacity', []) if fi.name != '__init__']
    if others:
        ok = False
    if ok:
        r.ok('C08.R3', key, f'Resource(capacity={captxt}) with work_capacity = {want}', src(ci.module), init.node.lineno)
    else:
        r.fail('C08.R3', key, f'worker Resource has capacity `{captxt}` (self.work_capacity = {[ast.unparse(x) for x in wc]}), expected `{want}`',
               src(ci.module), init.node.lineno)


def check_slot_before_pull(w, r):
    fi = w.root_funcs['behaviour']
    r.analysed_functions.add(fi.key)
    sites = {}
    for pa in w.roots['behaviour']:
        if pa.raises:
            continue
        slots = 0
        reqvals = set()
        for e in pa.events:
            if e.kind == 'pcall' and e.name == 'request' and e.recv == 'self.worker_thread':
                reqvals.add(e.result)
            elif e.kind == 'yield' and e.value in reqvals:
                slots += 1
            elif e.kind == 'pcall' and e.name == 'get':
                key = site(e.fi, e.node, 'pull')
                rec = sites.setdefault(key, {'ok': True, 'e': e, 'pa': pa})
                if slots < 1 and rec['ok']:
                    rec.update(ok=False, pa=pa)
                slots -= 1
    for key, rec in sorted(sites.items()):
        e = rec['e']
        if rec['ok']:
            r.ok('C08.R1', key, 'a granted slot request precedes the pull on every path', src(e.fi.module), e.line)
        else:
            r.fail('C08.R1', key, 'item pulled from the in-edge without a worker slot granted in this iteration: the node can hold more than '
                                  'work_capacity items', src(e.fi.module), e.line, rec['pa'].describe())


DISPOSE = ('put',)


def check_release(w, r):
    if 'worker' not in w.roots:
        raise AnalysisError(f'{w.ci.label}: worker root missing')
    fi = w.root_funcs['worker']
    r.analysed_functions.add(fi.key)
    params = [a.arg for a in fi.node.args.args if a.arg != 'self']
    # which parameter receives the request token: read it off the spawn site in behaviour
    tokpos = None
    for pa in w.roots['behaviour']:
        reqvals = {e.result for e in pa.events if e.kind == 'pcall' and e.name == 'request'}
        for e in pa.events:
            if e.kind == 'spawn' and e.func == 'self.worker':
                for i, v in enumerate(e.args):
                    if v in reqvals:
                        tokpos = i
    key = f'{fi.key}::release'
    if tokpos is None or tokpos >= len(params):
        r.fail('C08.R2', key, 'behaviour does not hand the granted slot request to the worker it spawns', src(fi.module), fi.node.lineno)
        return
    tok = ('param', params[tokpos])
    bad = None
    n = 0
    for pa in w.roots['worker']:
        if pa.raises or pa.status == 'loopcut':
            continue
        n += 1
        rel = [i for i, e in enumerate(pa.events) if e.kind == 'pcall' and e.name == 'release' and e.args and e.args[0] == tok]
        if len(rel) != 1:
            bad = (pa, f'the slot token is released {len(rel)} time(s) on this exit (expected exactly 1)')
            continue
        later = [e for e in pa.events[rel[0]:] if (e.kind == 'pcall' and e.name in ('put', 'reserve_put', 'can_put')) or
                 (e.kind == 'spawn') or e.kind == 'first_available']
        if later:
            bad = (pa, f'the slot is released before the unit of work is disposed of (`{later[0].d.get("name", later[0].kind)}` at line {later[0].line} follows)')
        yielded = any(e.kind == 'yield' and e.cls == 'release' for e in pa.events[rel[0]:rel[0] + 2])
    if n == 0:
        r.fail('C08.R2', key, 'no complete worker path', src(fi.module), fi.node.lineno)
    elif bad:
        r.fail('C08.R2', key, bad[1], src(fi.module), fi.node.lineno, bad[0].describe())
    else:
        r.ok('C08.R2', key, f'released once, last, on {n} path(s)', src(fi.module), fi.node.lineno)


def timeout_arg(pa, y):
    for x in pa.events:
        if x.kind == 'xcall' and x.d.get('result') == y.value:
            return x.args[0] if x.args else None
    return None


def check_delay(w, r):
    bfi = w.root_funcs['behaviour']
    wfi = w.root_funcs['worker']
    key4 = f'{w.ci.label}::processing-delay'
    key5 = f'{w.ci.label}::no-stray-wait-before-push'
    bad4 = bad5 = None
    delaypos = None
    n = 0
    for pa in w.roots['behaviour']:
        if pa.raises or pa.status == 'loopcut':
            continue
        gets = [i for i, e in enumerate(pa.events) if e.kind == 'pcall' and e.name == 'get']
        if not gets:
            continue
        n += 1
        draws = [e for e in pa.events if e.kind == 'call' and e.name == 'get_delay']
        if len(draws) != 1:
            bad4 = (pa, f'{len(draws)} processing delays drawn for one unit of work (expected exactly 1)')
            continue
        if draws[0].args != (('self', 'processing_delay'),):
            bad4 = (pa, f'the delay is drawn from {draws[0].args}, not from self.processing_delay')
        di = pa.events.index(draws[0])
        # its value: first fresh symbol 'call:get_delay' appearing afterwards as an argument
        dval = None
        for e in pa.events[di:]:
            for v in list(e.d.get('args', ())) + [e.d.get('value')]:
                if isinstance(v, tuple) and v[:2] == ('sym', 'call:get_delay'):
                    dval = v
                    break
            if dval:
                break
        touts_here = [e for e in pa.events if e.kind == 'yield' and e.cls == 'timeout' and timeout_arg(pa, e) == dval]
        spawns = [e for e in pa.events if e.kind == 'spawn' and e.func == 'self.worker']
        handed = [i for e in spawns for i, v in enumerate(e.args) if v == dval]
        if len(touts_here) + len(handed) != 1:
            bad4 = (pa, f'the drawn delay reaches {len(touts_here)} timeout(s) here and is handed to the worker {len(handed)} time(s) (expected exactly one use)')
        if handed:
            delaypos = handed[0]
        # R5 in behaviour: no yields between the last get and the spawn, except the processing timeout itself / the slot request (Combiner)
        last_get = gets[-1]
        for e in pa.events[last_get:]:
            if e.kind == 'spawn' and e.func == 'self.worker':
                break
            if e.kind == 'yield':
                if e in touts_here:
                    continue
                if w.ci.name == 'Combiner' and (e.cls in ('request',) or (e.value and e.value[0] == 'presult' and e.value[1] == 'request')):
                    continue
                if w.ci.name == 'Combiner' and e.value and e.value[0] == 'callres' and e.value[1].endswith('any_of'):
                    continue     # waiting for ingredient tokens is part of gathering, not of processing (not bounded by the statement)
                if w.ci.name == 'Splitter' and (e.value and e.value[0] == 'presult' and e.value[1] == 'request'):
                    continue     # the splitter asks for its (single) slot right after choosing the edge, before the get
                bad5 = (pa, f'behaviour suspends on `{e.text}` between the pull and the start of processing')
    if n == 0:
        bad4 = (w.roots['behaviour'][0], 'no pulling path found')
    # worker side
    params = [a.arg for a in wfi.node.args.args if a.arg != 'self']
    if delaypos is not None:
        if delaypos >= len(params):
            bad4 = bad4 or (w.roots['worker'][0], 'worker has no parameter for the delay')
        else:
            dpar = ('param', params[delaypos])
            for pa in w.roots['worker']:
                if pa.raises or pa.status == 'loopcut':
                    continue
                touts = [e for e in pa.events if e.kind == 'yield' and e.cls == 'timeout']
                mine = [e for e in touts if timeout_arg(pa, e) == dpar]
                if len(mine) != 1:
                    bad4 = (pa, f'the worker waits {len(mine)} time(s) on the delay it was given (expected exactly once)')
                other = [e for e in touts if e not in mine]
                if other:
                    bad4 = (pa, f'the worker has an additional timed wait `{other[0].text}`: the unit is held longer than its processing delay')
                # R5: before the first push attempt only that timeout
                first_push = next((i for i, e in enumerate(pa.events) if (e.kind == 'pcall' and e.name in ('reserve_put', 'can_put'))
                                   or e.kind == 'first_available' or (e.kind == 'setitem' and 'num_item_discarded' in e.target)), len(pa.events))
                for e in pa.events[:first_push]:
                    if e.kind == 'yield' and e not in mine:
                        bad5 = (pa, f'the worker suspends on `{e.text}` before its first push attempt')
    r.analysed_functions.add(bfi.key)
    r.analysed_functions.add(wfi.key)
    if bad4:
        r.fail('C08.R4', key4, bad4[1], src(bfi.module), bfi.node.lineno, bad4[0].describe())
    else:
        r.ok('C08.R4', key4, 'drawn once from self.processing_delay, used by exactly one timeout', src(bfi.module), bfi.node.lineno)
    if bad5:
        r.fail('C08.R5', key5, bad5[1], src(bfi.module), bfi.node.lineno, bad5[0].describe())
    else:
        r.ok('C08.R5', key5, 'only the processing timeout between pull and push', src(bfi.module), bfi.node.lineno)
