from ..model import AnalysisError
PROP = 'C08'
LEVEL = 'other'


def run(p, tier):
    raise AnalysisError('rule module for C08 not implemented yet (fail closed)')
