"""C09 - blocking nodes never discard; non-blocking nodes never wait (partial).

Paths of every pushing process (Source.behaviour, the three workers) are partitioned by the polarity of the
`self.blocking` test.
  R1 no discard on a blocking path;
  R2 on a non-blocking path an item is only pushed (spawned _push_item) to an edge for which `can_put()` was
     just true, with no suspension in between, and the process itself never reserves;
  R3 a refusing probe is followed by exactly one discard count and no suspension on the way to it;
  R4 the decision variable tested after the first-available scan is (re)initialised in the same iteration;
  R5 can_put exists on every Edge subclass and reads only attributes that exist;
  R6 under FIRST_AVAILABLE an item is dropped only after *every* out-edge refused: a scan loop that is left by `break` (or return) on a refusing
     probe drops items although a later edge has room.
"""
from __future__ import annotations

import ast

from .. import nodewalk, paths, tables
from ..model import AnalysisError, Project, self_attr, walk_no_nested
from ..report import Result, ctx_of
from .common import site, src

PROP = 'C09'
LEVEL = 'other'


def blocking_polarity(pa):
    for e in pa.events:
        if e.kind == 'cond' and not e.d.get('synthetic') and e.text == 'self.blocking':
            return e.polarity
        if e.kind == 'cond' and not e.d.get('synthetic') and e.text == 'not self.blocking':
            return not e.polarity
    return None


def run(p: Project, tier: str) -> Result:
    r = Result(PROP)
    r.explanation = ('Control-flow partition on the blocking flag: the blocking region contains no discard, the non-blocking region never '
                     'reserves by itself and pushes only after a true can_put on the same edge; exactly one discard count per refusal. '
                     'Who wins a same-instant race for the last slot is not decided.')
    r.rule('C09.R1', 'no discard count on a blocking path', 4)
    r.rule('C09.R2', 'non-blocking push only after a true can_put() of the same edge, no suspension in between, no own reservation', 6)
    r.rule('C09.R3', 'a refused item is counted as discarded exactly once, without waiting', 6)
    r.rule('C09.R4', 'the first-available decision variable is initialised in the same iteration', 4)
    r.rule('C09.R6', 'first-available: a discard is reached only by exhausting the scan over the out-edges', 3)
    r.rule('C09.R5', 'can_put is implemented by every Edge subclass and reads only existing attributes', 4)
    r.not_decided = ['same-instant race between can_put() and the reservation inside the spawned _push_item',
                     'that can_put is exact (C11.R1 for Buffer/Fleet)']
    pushers = []
    for w in nodewalk.walks(p):
        r.ctx = ctx_of(w)
        r.paths += w.npaths
        for root, ps in w.roots.items():
            fi = w.root_funcs[root]
            if not any(e.kind == 'cond' and e.d.get('text') == 'self.blocking' for pa in ps for e in pa.events):
                continue
            r.analysed_functions.add(fi.key)
            check_root(r, w, root, fi, ps)
    check_can_put(p, r)
    check_blocking_flag_tests(p, r)
    return r


def check_blocking_flag_tests(p, r):
    """R7 (sibling agreement): every branch on the blocking mode tests the flag for truth (`if self.blocking`, `not self.blocking`, `== True / False`).
    An identity test (`self.blocking is True`) in ONE of the branches sends every truthy value that is not the singleton True (1, numpy.bool_) into the
    non-blocking code of that branch only: a machine configured as blocking then discards in front of a full out-edge under one routing policy and
    waits under the others."""
    r.rule('C09.R7', 'the blocking flag is tested for truth, never for identity, in every branch', 8)
    n = 0
    raw = p.raw()        # the source as written: the normaliser treats `X is True` and `X == True` alike for the flags it knows
    for ci in tables.node_classes(raw):
        for fi in ci.methods.values():
            for c in walk_no_nested(fi.node):
                if isinstance(c, ast.Compare) and len(c.ops) == 1:
                    l, rgt = c.left, c.comparators[0]
                    sides = [l, rgt]
                    if any(self_attr(x) == 'blocking' for x in sides):
                        n += 1
                        key = site(fi, c, 'blocking-test')
                        if isinstance(c.ops[0], (ast.Is, ast.IsNot)) and any(isinstance(x, ast.Constant) and isinstance(x.value, bool) for x in sides):
                            r.fail('C09.R7', key, f'`{ast.unparse(c)}` is an identity test: a truthy flag that is not the singleton True (1, numpy.bool_(True)) takes '
                                                  f'the non-blocking branch here and the blocking branch everywhere else', src(fi.module), c.lineno)
                        else:
                            r.ok('C09.R7', key, 'value comparison', src(fi.module), c.lineno)
                elif isinstance(c, (ast.If, ast.While, ast.IfExp)):
                    for x in ast.walk(c.test):
                        if self_attr(x) == 'blocking' and not any(isinstance(y, ast.Compare) and x in (y.left, *y.comparators) for y in ast.walk(c.test)):
                            n += 1
                            r.ok('C09.R7', site(fi, c, 'blocking-test'), 'truth test', src(fi.module), c.lineno)
    if n < 8:
        raise AnalysisError(f'C09.R7: only {n} tests of the blocking flag found in the node classes')


def check_root(r, w, root, fi, ps):
    k1 = f'{fi.key}::blocking-never-discards'
    bad1 = None
    n_block = n_non = 0
    push_sites = {}
    refuse_sites = {}
    init_sites = {}
    own_reserve = None
    for pa in ps:
        if pa.raises or pa.status == 'loopcut':
            continue
        pol = blocking_polarity(pa)
        if pol is None:
            continue
        evs = pa.events
        if pol:
            n_block += 1
            d = [e for e in evs if e.kind == 'setitem' and 'num_item_discarded' in e.target]
            if d:
                bad1 = (pa, d[0])
            continue
        n_non += 1
        can = {}            # edge value -> index of a true can_put probe still valid (no yield since)
        for i, e in enumerate(evs):
            if e.kind == 'yield':
                can = {}
            if e.kind == 'pcall' and e.name == 'can_put':
                # the verdict is the polarity of the cond event that follows
                nxt = next((x for x in evs[i + 1:i + 3] if x.kind == 'cond' and not x.d.get('synthetic')), None)
                if nxt is not None and 'can_put' in nxt.text:
                    if nxt.polarity:
                        can[e.recv_val] = i
                    else:
                        key = site(e.fi, e.node, 'refusal')
                        refuse_sites.setdefault(key, {'ok': True, 'e': e, 'pa': pa, 'why': ''})
                        judge_refusal(evs, i, key, refuse_sites, pa)
            if e.kind == 'first_available':
                key4 = site(e.fi, e.node, f'decision-var:{e.var}', same=lambda n: isinstance(n, ast.For))
                rec4 = init_sites.setdefault(key4, {'ok': True, 'e': e, 'pa': pa})
                # (when the decision variable is the loop variable itself and the "nobody has room" case is the loop's else-branch,
                #  the variable is rebound by every scan: nothing stale can survive)
                if e.prior != ('const', None) and rec4['ok'] and not e.d.get('loopvar_else'):
                    rec4.update(ok=False, pa=pa)
                if e.outcome == 'found':
                    can[e.value] = i
                else:
                    key = site(e.fi, e.node, 'refusal', same=lambda n: isinstance(n, ast.For))
                    refuse_sites.setdefault(key, {'ok': True, 'e': e, 'pa': pa, 'why': ''})
                    judge_refusal(evs, i, key, refuse_sites, pa)
            if e.kind == 'spawn' and e.func == 'self._push_item':
                key = site(e.fi, e.node, 'nonblocking-push')
                rec = push_sites.setdefault(key, {'ok': True, 'e': e, 'pa': pa, 'why': ''})
                edge = e.args[1] if len(e.args) > 1 else None
                if edge not in can and rec['ok']:
                    rec.update(ok=False, pa=pa, why='item pushed on a non-blocking path without a true can_put() of that edge in the same atomic segment: '
                                                     'the push can wait for space')
            if e.kind == 'pcall' and e.name == 'reserve_put' and e.fi.name == root:
                own_reserve = (e, pa)
    # R6: generic scan loops (`for e in self.out_edges: if e.can_put(): ...`) that were not summarised as a first-available idiom
    scan_sites = {}
    for pa in ps:
        if pa.raises or pa.status == 'loopcut' or blocking_polarity(pa) is not False:
            continue
        evs = pa.events
        for i, e in enumerate(evs):
            if not (e.kind == 'setitem' and 'num_item_discarded' in e.target):
                continue
            # the last probe before this discard, and the loop it sits in
            j = next((k for k in range(i - 1, -1, -1) if evs[k].kind in ('pcall', 'first_available', 'yield') and
                      (evs[k].kind != 'pcall' or evs[k].name == 'can_put')), None)
            if j is not None and evs[j].kind == 'first_available':
                fa = evs[j]
                key = site(fa.fi, fa.node, 'scan-exhausted', same=lambda n: isinstance(n, ast.For))
                rec = scan_sites.setdefault(key, {'ok': True, 'e': fa, 'pa': pa, 'why': ''})
                if fa.outcome == 'found' and rec['ok']:
                    rec.update(ok=False, pa=pa, why='an item is counted as discarded although the first-available scan found an edge with room')
                continue
            if j is None or evs[j].kind != 'pcall':
                continue
            verdict = next((x for x in evs[j + 1:j + 3] if x.kind == 'cond' and not x.d.get('synthetic') and 'can_put' in x.text), None)
            if verdict is None or verdict.polarity:
                continue                # the last edge asked did not refuse: whatever follows is not a refusal followed by a drop
            heads = [k for k in range(j - 1, -1, -1) if evs[k].kind == 'foriter']
            if not heads:
                continue
            fo = evs[heads[0]]
            if 'out_edges' not in fo.iter:
                continue
            key = site(fo.fi, fo.node, 'scan-exhausted', same=lambda n: isinstance(n, ast.For))
            rec = scan_sites.setdefault(key, {'ok': True, 'e': fo, 'pa': pa, 'why': ''})
            exits = [x for x in evs[j:i] if x.kind == 'loopexit' and x.loop_line == fo.node.lineno]
            if rec['ok'] and (not exits or exits[0].how != 'exhausted'):
                rec.update(ok=False, pa=pa, why=f'the scan over `{fo.iter}` is left {"by `break`" if exits else "early"} after an edge refused (line {evs[j].line}) and the item is '
                                                f'counted as discarded: a later out-edge with room is never asked')
    for key, rec in sorted(scan_sites.items()):
        e = rec['e']
        (r.ok if rec['ok'] else r.fail)('C09.R6', key, 'the discard is reached only when the loop over the out-edges is exhausted' if rec['ok'] else rec['why'],
                                        src(e.fi.module), e.line, *([] if rec['ok'] else [rec['pa'].describe()]))
    if n_block:
        if bad1:
            pa, e = bad1
            r.fail('C09.R1', k1, f'a blocking node counts a discard (line {e.line}): blocking nodes must wait, never drop', src(fi.module), e.line, pa.describe())
        else:
            r.ok('C09.R1', k1, f'no discard on {n_block} blocking path(s)', src(fi.module), fi.node.lineno)
    if n_non:
        k2 = f'{fi.key}::nonblocking-never-reserves'
        if own_reserve:
            e, pa = own_reserve
            r.fail('C09.R2', k2, 'a non-blocking path reserves space itself and waits for the grant', src(fi.module), e.line, pa.describe())
        else:
            r.ok('C09.R2', k2, f'no own reservation on {n_non} non-blocking path(s)', src(fi.module), fi.node.lineno)
    for key, rec in sorted(push_sites.items()):
        e = rec['e']
        (r.ok if rec['ok'] else r.fail)('C09.R2', key, 'dominated by a true can_put() of the same edge' if rec['ok'] else rec['why'],
                                        src(e.fi.module), e.line, *([] if rec['ok'] else [rec['pa'].describe()]))
    for key, rec in sorted(refuse_sites.items()):
        e = rec['e']
        (r.ok if rec['ok'] else r.fail)('C09.R3', key, 'one discard count, no wait' if rec['ok'] else rec['why'],
                                        src(e.fi.module), e.line, *([] if rec['ok'] else [rec['pa'].describe()]))
    for key, rec in sorted(init_sites.items()):
        e = rec['e']
        if rec['ok']:
            r.ok('C09.R4', key, f'`{e.var} = None` precedes the scan in the same iteration', src(e.fi.module), e.line)
        else:
            r.fail('C09.R4', key, f'`{e.var}` is not reset to None before the first-available scan of this iteration: after one successful push the '
                                  f'stale edge is used for ever (never discards, waits instead), or the name is unbound for the first item',
                   src(e.fi.module), e.line, rec['pa'].describe())


def judge_refusal(evs, i, key, sites, pa):
    """after a refusing probe at index i: exactly one discard count before the next probe / item, no yield before it."""
    rec = sites[key]
    n = 0
    waited = None
    for e in evs[i + 1:]:
        if e.kind in ('first_available',) or (e.kind == 'pcall' and e.name in ('can_put',)):
            break
        if e.kind == 'loophead' or e.kind == 'backedge':
            break
        if e.kind == 'setitem' and 'num_item_discarded' in e.target:
            n += 1
        if e.kind == 'yield' and n == 0:
            waited = e
        if e.kind == 'spawn' and e.func == 'self._push_item':
            waited = e
    if rec['ok']:
        if waited is not None:
            rec.update(ok=False, pa=pa, why=f'after can_put() refused, the process suspends / pushes (`{waited.d.get("text", waited.kind)}` at line {waited.line}) before counting the discard')
        elif n != 1:
            rec.update(ok=False, pa=pa, why=f'a refused item is counted as discarded {n} time(s) (expected exactly once)')


def check_can_put(p: Project, r: Result):
    base = tables.find_base(p, 'Edge', 'edges/edge.py')
    for ci in tables.edge_classes(p):
        fi = ci.methods.get('can_put')
        key = f'{ci.label}.can_put::implemented'
        if fi is None:
            r.fail('C09.R5', key, 'can_put is not overridden: Edge.can_put raises NotImplementedError', src(ci.module), ci.node.lineno)
            continue
        r.analysed_functions.add(fi.key)
        missing = []
        for n in walk_no_nested(fi.node):
            a = self_attr(n)
            if a is not None and isinstance(n.ctx, ast.Load) and not p.has_member(ci.key, a):
                missing.append((a, n.lineno))
        if missing:
            a, line = missing[0]
            r.fail('C09.R5', key, f'can_put reads `self.{a}`, which is never assigned in {ci.name} or its bases: every non-blocking node in front of '
                                  f'this edge dies with AttributeError', src(fi.module), line)
        else:
            r.ok('C09.R5', key, 'all attributes it reads exist', src(fi.module), fi.node.lineno)
