from ..model import AnalysisError
PROP = 'C09'
LEVEL = 'other'


def run(p, tier):
    raise AnalysisError('rule module for C09 not implemented yet (fail closed)')
