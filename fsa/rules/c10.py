from ..model import AnalysisError
PROP = 'C10'
LEVEL = 'other'


def run(p, tier):
    raise AnalysisError('rule module for C10 not implemented yet (fail closed)')
