"""C10 - work is never stranded: nodes take input and deliver output without delay (partial).

  R1 reservation-token typestate: every token a node process creates is used or cancelled exactly once
     on every non-raising path (to the loop back-edge / return);
  R2 cancel loops are complete: `for t in L: [if t is not chosen:] store.reserve_X_cancel(t)`;
  R3 the only timed waits of a node process are its set-up time, its inter-arrival / processing delay;
     every other suspension is a slot request/release, a token wait, or waiting for its own push process;
  R4 the Sink waits only on its in-edge tokens.
"""
from __future__ import annotations

import ast

from .. import nodewalk, paths, tables, typestate
from ..model import AnalysisError, Project, walk_no_nested
from ..report import Result, ctx_of
from .common import site, src, status_str

PROP = 'C10'
LEVEL = 'other'


def run(p: Project, tier: str) -> Result:
    r = Result(PROP)
    r.explanation = ('Reservation-token typestate over every node process: used xor cancelled exactly once on every path; cancel '
                     'loops complete; no stray timed waits. The instant-by-instant "could have acted" observer is not decided.')
    r.rule('C10.R1', 'every reservation token is used or cancelled exactly once on every non-raising path', 20)
    r.rule('C10.R2', 'every cancel loop cancels all tokens but the chosen one', 8)
    r.rule('C10.R3', 'timed waits in node processes are only set-up / inter-arrival / processing delays; other suspensions are token, slot or push waits', 30)
    r.rule('C10.R4', 'the Sink suspends only on its in-edge reservation tokens', 1)
    r.not_decided = ['the per-instant observer "a node that could act did act" (needs every same-instant ordering)',
                     'store-side wake-ups are C04']
    r.assumptions = ['attribute-held token lists (self.in_edge_events ...) are written only by the process that reads them']
    ws = nodewalk.walks(p)
    for w in ws:
        r.ctx = ctx_of(w)
        r.paths += w.npaths
        for root, ps in w.roots.items():
            fi = w.root_funcs[root]
            r.analysed_functions.add(fi.key)
            check_tokens(r, w, root, fi, ps)
            check_waits(r, w, root, fi, ps)
    check_transfers_go_through_the_edge(p, r)
    return r


STORE_HANDLES = ('resourcename', 'inbuiltstore', 'belt')


def check_transfers_go_through_the_edge(p, r):
    """R5 (who-may-call): a node takes and delivers items through the Edge object - `edge.get(token)` / `edge.put(token, item)` - never through the
    store behind it (`token.resourcename.get(...)`, `edge.inbuiltstore.put(...)`).  The edge-level call is more than a delegation: `ConveyorBelt.get`
    / `.put` fire the events that wake the belt's own process (without them a stalled belt never resumes and the items behind are stranded), and
    the edges refresh their statistics there.  Frozen exception: `Sink.behaviour` collects from the store (recorded for conveyors as D7 under C20)."""
    r.rule('C10.R5', 'nodes transfer items through edge.get / edge.put, not through the store handle of the token or edge', 6)
    n = 0
    for ci in tables.node_classes(p):
        for fi in ci.methods.values():
            for c in walk_no_nested(fi.node):
                if not (isinstance(c, ast.Call) and isinstance(c.func, ast.Attribute) and c.func.attr in ('get', 'put') and c.args):
                    continue
                recv = c.func.value
                txt = ast.unparse(recv)
                if isinstance(recv, ast.Attribute) and recv.attr in STORE_HANDLES:
                    key = f'{fi.key}::transfer-through-edge({txt}.{c.func.attr})'
                    if ci.name == 'Sink':
                        r.ok('C10.R5', key, 'frozen exception: the Sink collects from the store (Buffer / Fleet only; conveyors: D7)', src(fi.module), c.lineno)
                    else:
                        r.fail('C10.R5', key, f'`{txt}.{c.func.attr}(...)` by-passes the edge: for a conveyor the belt process is never told that an item was '
                                              f'{"taken" if c.func.attr == "get" else "put"} (a stalled belt does not resume, the items behind are stranded), and the '
                                              f'edge statistics miss the transfer', src(fi.module), c.lineno)
                    n += 1
                elif ('edge' in txt or 'store' in txt) and 'stats' not in txt:
                    r.ok('C10.R5', f'{fi.key}::transfer-through-edge({txt}.{c.func.attr})', 'edge-level transfer', src(fi.module), c.lineno)
                    n += 1
    if n < 6:
        raise AnalysisError(f'C10.R5: only {n} get / put transfer sites found in the node classes')


EDGE_CLASS_NAMES = ('Buffer', 'Fleet', 'ConveyorBelt')


def edge_class_tag(pa, ev) -> str:
    """the edge class(es) the path has established for the edge at hand when `ev` happens (`x.__class__.__name__ == 'ConveyorBelt'`,
    `... in ('Buffer', 'Fleet')`, isinstance tests), whatever the spelling or the order of the branches; '' when there is no such dispatch"""
    allowed = set(EDGE_CLASS_NAMES)
    seen = False
    for e in pa.events:
        if e is ev:
            break
        if e.kind != 'cond' or e.d.get('synthetic'):
            continue
        ops = e.d.get('operands')
        if not ops:
            continue
        if '__name__' not in e.text and not any(isinstance(v, tuple) and len(v) == 3 and v[0] == 'attr' and v[2] == '__name__' for v in (ops[1], ops[2]) if v):
            continue            # (the class name may have been put in a local first)
        names = None
        for side in (ops[1], ops[2]):
            if side is None:
                continue
            if side[0] == 'const' and side[1] in EDGE_CLASS_NAMES:
                names = {side[1]}
            elif side[0] in ('tuple', 'list') and all(x[0] == 'const' for x in side[1]):
                names = {x[1] for x in side[1]} & set(EDGE_CLASS_NAMES)
        if not names:
            continue
        positive = ops[0] in ('Eq', 'In', 'Is')
        seen = True
        if positive == bool(e.polarity):
            allowed &= names
        else:
            allowed -= names
    return '|'.join(sorted(allowed)) if seen and allowed else ''


def check_tokens(r, w, root, fi, ps):
    tok_sites = {}
    loop_sites = {}
    for pa in ps:
        if pa.raises or pa.status == 'loopcut':
            continue
        rep = typestate.analyse_tokens(pa)
        issues = typestate.token_end_issues(rep)
        bad_events = {}
        for ev, msg in issues:
            bad_events.setdefault(id(ev), (ev, msg))
        for t in rep.toks:
            e = t.ev
            # (only in the single-reservation helpers _push_item / _pull_item, where the whole path is about one edge: the class the path has
            #  established by its end names the case, wherever the dispatch stands relative to the reservation)
            tag = edge_class_tag(pa, None) if len(rep.toks) == 1 and root.startswith(('_push', '_pull')) else ''
            if tag and not t.is_list:
                # a reservation made under a dispatch on the edge class is named after that class, not after its position in the source:
                # swapping the branches of the dispatch must not turn one site into another
                key = f'{e.fi.key}::token:{e.name}[{tag}]'
            else:
                key = site(e.fi, e.node, f'token-list:{e.name}' if t.is_list else f'token:{e.name}',
                           same=lambda n, nm=e.name: isinstance(n, ast.Call) and isinstance(n.func, ast.Attribute) and n.func.attr == nm)
            rec = tok_sites.setdefault(key, {'ok': True, 'e': e, 'pa': pa, 'msg': ''})
            if id(e) in bad_events and rec['ok']:
                rec.update(ok=False, pa=pa, msg=bad_events[id(e)][1])
        for ev, msg in issues:
            if ev.kind in ('pcall',) and ev.name in ('reserve_put', 'reserve_get'):
                continue
            # problems attached to other events (use with a yield value, wrong pop, ...)
            key = site(ev.fi, ev.d.get('node'), f'token-use:{ev.kind}') if ev.d.get('node') is not None else f'{ev.fi.key}::token-use@{ev.kind}'
            rec = tok_sites.setdefault(key, {'ok': True, 'e': ev, 'pa': pa, 'msg': ''})
            if rec['ok']:
                rec.update(ok=False, pa=pa, msg=msg)
        for e in pa.events:
            if e.kind == 'cancel_loop':
                key = site(e.fi, e.node, 'cancel-loop', same=lambda n: isinstance(n, ast.For))
                rec = loop_sites.setdefault(key, {'ok': True, 'e': e, 'pa': pa, 'msg': ''})
                good = e.guard == 'except' or (e.guard == 'all')
                if e.guard == 'all':
                    # acceptable only if the chosen token was removed from the list before (or nothing was chosen)
                    removed = any(x.kind == 'lop' and x.d.get('listval') == e.iter_val and
                                  (x.op == 'remove' or (x.op == 'pop' and x.args and x.args[0][0] == 'lindex' and x.result == x.args[0][2]))
                                  for x in pa.events[:pa.events.index(e)])
                    chosen = any(x.kind == 'lookup' and x.outcome == 'found' and x.d.get('src_val') == e.iter_val for x in pa.events[:pa.events.index(e)])
                    good = removed or not chosen
                if not good and rec['ok']:
                    rec.update(ok=False, pa=pa, msg=f'cancel loop over `{e.iter}` has guard kind `{e.guard}`: it does not cancel exactly the tokens not chosen')
                if e.d.get('mutates_iter') and rec['ok']:
                    rec.update(ok=False, pa=pa, msg=f'the cancel loop over `{e.iter}` changes that list while walking it (`{e.iter}.{e.d["mutates_iter"]}`): the iterator '
                                                    f'skips the element after every removal, so with three or more requests some are never withdrawn')
                if e.d.get('raises_on') == 'success' and rec['ok']:
                    rec.update(ok=False, pa=pa, msg=f'the cancel loop over `{e.iter}` raises when a cancellation *succeeds* (the check of the result is inverted): '
                                                    f'the node crashes the first time it has a second reservation to withdraw')
                if not e.recv.endswith('.resourcename') and rec['ok']:
                    rec.update(ok=False, pa=pa, msg=f'cancellation goes to `{e.recv}`, not to the store that issued the token (`<token>.resourcename`)')
    for key, rec in sorted(tok_sites.items()):
        e = rec['e']
        if rec['ok']:
            r.ok('C10.R1', key, 'used or cancelled exactly once on every explored path', src(e.fi.module), e.line)
        else:
            r.fail('C10.R1', key, rec['msg'], src(e.fi.module), e.line, rec['pa'].describe())
    for key, rec in sorted(loop_sites.items()):
        e = rec['e']
        if rec['ok']:
            r.ok('C10.R2', key, f'cancels every token except the chosen one (guard: {e.guard})', src(e.fi.module), e.line)
        else:
            r.fail('C10.R2', key, rec['msg'], src(e.fi.module), e.line, rec['pa'].describe())


ALLOWED_TIMEOUT_SELF = {'node_setup_time'}


def timeout_arg_ok(pa, e, fi) -> (bool, str):
    """argument of the timeout behind a `yield timeout(...)` event"""
    v = e.value
    arg = None
    for x in pa.events:
        if x.kind == 'xcall' and x.d.get('result') == v:
            arg = x.args[0] if x.args else None
    if arg is None:
        return False, 'timeout argument unknown'
    if arg[0] == 'self' and arg[1] in ALLOWED_TIMEOUT_SELF:
        return True, 'set-up time'
    if arg[0] == 'param':
        return True, f'delay handed over by the spawner ({arg[1]})'
    if arg[0] == 'sym' and arg[1].startswith('call:get_delay'):
        return True, 'drawn delay'
    return False, f'timed wait on {arg}'


def check_waits(r, w, root, fi, ps):
    sites = {}
    is_sink = w.ci.name == 'Sink'
    sink_bad = None
    for pa in ps:
        if pa.raises:
            continue
        rep = typestate.analyse_tokens(pa)
        tokvals = {t.value for t in rep.toks}
        for e in pa.events:
            if e.kind != 'yield':
                continue
            node = e.d.get('node')
            key = site(e.fi, node, 'yield', same=lambda n: isinstance(n, (ast.Yield, ast.YieldFrom)))
            ok, why = classify_wait(pa, e, fi, tokvals)
            rec = sites.setdefault(key, {'ok': True, 'e': e, 'pa': pa, 'why': why})
            if not ok and rec['ok']:
                rec.update(ok=False, pa=pa, why=why)
            if is_sink and ok and not why.startswith(('token', 'result of the get')):
                sink_bad = (e, pa, why)
    for key, rec in sorted(sites.items()):
        e = rec['e']
        if rec['ok']:
            r.ok('C10.R3', key, rec['why'], src(e.fi.module), e.line)
        else:
            r.fail('C10.R3', key, f'node process suspends on something that is neither a token, a slot, its push process nor its own delay: {rec["why"]}',
                   src(e.fi.module), e.line, rec['pa'].describe())
    if is_sink and root == 'behaviour':
        key = f'{fi.key}::sink-waits'
        if sink_bad:
            e, pa, why = sink_bad
            r.fail('C10.R4', key, f'the Sink waits on `{e.text}` ({why}) instead of taking the available item at once', src(fi.module), e.line, pa.describe())
        else:
            r.ok('C10.R4', key, 'only in-edge token waits', src(fi.module), fi.node.lineno)


def classify_wait(pa, e, fi, tokvals):
    c = e.cls
    v = e.value
    if c == 'timeout':
        return timeout_arg_ok(pa, e, fi)
    if c in ('request', 'release'):
        return True, f'worker slot {c}'
    if c == 'process':
        return True, 'waits for its own push process'
    if v in tokvals:
        return True, 'token wait'
    if v is not None and v[0] == 'presult' and v[1] in ('request', 'release'):
        return True, f'worker slot {v[1]}'
    if v is not None and v[0] == 'presult' and v[1] in ('put', 'get'):
        return True, 'result of the get/put call (legacy Process branch)'
    if v is not None and v[0] == 'callres' and v[1].endswith('any_of'):
        # any_of over a token list / local token list
        for x in pa.events:
            if x.kind == 'xcall' and x.d.get('result') == v and x.args:
                a = x.args[0]
                if a in tokvals or a[0] in ('locallist', 'tokenlist'):
                    return True, 'token wait (any_of)'
        return False, 'any_of over something that is not a token list'
    if v is not None and v[0] == 'proc':
        return True, 'waits for its own push process'
    return False, f'`{e.text}`'
