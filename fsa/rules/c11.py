from ..model import AnalysisError
PROP = 'C11'
LEVEL = 'other'


def run(p, tier):
    raise AnalysisError('rule module for C11 not implemented yet (fail closed)')
