"""C11 - buffer delay and the can_put / can_get queries are exact (partial).

  R1 can_put() of Buffer and Fleet is *equivalent* to the store's put-grant predicate (under len >= 0);
  R2 can_get() is equivalent to the store's get-grant predicate |RG| < |A|;
  R3 the occupancy accessor of every edge equals Σ_H|L| (in-transit + ready);
  R4 every append to the available list of BufferStore is dominated by `yield timeout(d)` where d is the
     delay component stored with *that* item; the only other insertion is a cancellation re-inserting an
     already available item;
  R5 Buffer.put draws the delay by exactly one get_delay call and stores that value as component 1 of the
     tuple it hands to the store; get_delay dispatches generator / callable / constant and checks val >= 0.
"""
from __future__ import annotations

import ast

from .. import lin, paths, storewalk, tables
from ..model import AnalysisError, Project, self_attr, walk_no_nested
from ..report import Result, ctx_of
from ..tables import RP, RG, RI
from .common import events_atoms, site, src, sum_lin

PROP = 'C11'
LEVEL = 'other'

QUERY_EDGES = ('Buffer', 'Fleet')


def grant_dnf(p, w, which):
    """conjunctions of atoms under which the grant function grants (paths reaching the append)."""
    s = w.store
    fi = s.methods['_do_reserve_put' if which == 'put' else '_do_reserve_get']
    L = RP if which == 'put' else RG
    ex = paths.Explorer(p, s.ci.key, tracked=set(s.lists), atomic={tables.LEVEL_UPDATER, *tables.TRIGGERS}, unroll=1)
    out = []
    nonlin = []
    for pa in ex.paths(fi):
        if pa.raises:
            continue
        idx = next((i for i, e in enumerate(pa.events) if e.kind == 'op' and e.list == L and e.op in ('append', 'insert')), None)
        if idx is not None:
            conds = [e for e in pa.events[:idx] if e.kind == 'cond' and not e.d.get('synthetic')]
            nonlin += [('' if e.polarity else 'not ') + f'({e.text})' for e in conds if not e.atoms]
            conj = tuple(sorted(set(events_atoms(conds))))
            if conj not in out:
                out.append(conj)
    return [list(c) for c in out], nonlin


def run(p: Project, tier: str) -> Result:
    r = Result(PROP)
    r.explanation = ('can_put / can_get / occupancy are compared, as linear normal forms, with the predicates of the store they describe '
                     '(equivalence, not implication); the ready list of BufferStore only receives an item after the timer of that item; '
                     'the delay is drawn once per put and travels with the item.')
    r.rule('C11.R1', 'can_put() ≡ store put-grant predicate', 2)
    r.rule('C11.R2', 'can_get() ≡ store get-grant predicate', 2)
    r.rule('C11.R3', 'occupancy accessor ≡ Σ held (in transit + ready)', 3)
    r.rule('C11.R4', 'append to BufferStore.ready_items is dominated by the delay timer of that very item', 2)
    r.rule('C11.R5', 'Buffer.put draws the delay once and stores it with the item; get_delay dispatch + non-negativity', 3)
    r.not_decided = ['that the kernel fires the timer exactly at t+d (SimPy guarantee)']
    r.assumptions = ['Edge.capacity equals the store capacity (C01.O6)']
    ws = {w.store.ci.key: w for w in storewalk.walks(p, assume_inv=('I1',))}
    for ci in tables.edge_classes(p):
        attr, skeys = tables.edge_store_attr(p, ci)
        w = ws[skeys[0]]
        s = w.store
        recv = f'self.{attr}'
        if ci.name in QUERY_EDGES:
            for which, rule, mname in (('put', 'C11.R1', 'can_put'), ('get', 'C11.R2', 'can_get')):
                fi = ci.methods.get(mname)
                key = f'{ci.label}.{mname}::≡grant'
                if fi is None:
                    r.fail(rule, key, f'{mname} missing', src(ci.module), ci.node.lineno)
                    continue
                r.analysed_functions.add(fi.key)
                G, nonlin = grant_dnf(p, w, which)
                if nonlin and len(G) == 1:
                    # the grant depends on something that is not a length of the store (a flag, a clock): a query that only compares lengths cannot
                    # agree with it -- unless the query tests something else too, in which case this rule cannot decide the equivalence
                    qtests = [n for n in walk_no_nested(fi.node) if isinstance(n, (ast.If, ast.IfExp, ast.Return))]
                    extra = sorted({a.attr for t in qtests for a in ast.walk(t) if isinstance(a, ast.Attribute)} - set(s.lists)
                                   - {'capacity', attr, 'env', 'now'})
                    if not extra:
                        r.fail(rule, key, f'the store grants a {which} reservation only under {sorted(set(nonlin))}, which is not a length of the store; '
                                          f'{mname}() compares lengths only, so it answers True while a reservation issued now is left waiting',
                               src(fi.module), fi.node.lineno)
                        continue
                if len(G) != 1 or nonlin:
                    raise AnalysisError(f'{s.label}: {which}-grant predicate is not a single linear conjunction ({len(G)} granting paths)')
                g = G[0]
                ex = paths.Explorer(p, ci.key, tracked=set(s.lists), atomic=set(), recv=recv, split_bool_returns=True, unroll=1)
                ps = ex.paths(fi)
                r.paths += len(ps)
                bad = None
                for pa in ps:
                    if pa.raises:
                        continue
                    if pa.status != 'return' or pa.st.ret[0] != 'const' or not isinstance(pa.st.ret[1], bool):
                        bad = (pa, f'a path of {mname} does not return a boolean decided from the store lengths')
                        continue
                    atoms = events_atoms(pa.events)
                    nl = [e.text for e in pa.events if e.kind == 'cond' and not e.d.get('synthetic') and not e.atoms]
                    if nl:
                        bad = (pa, f'{mname} tests something that is not a length predicate of its store: {nl[:2]}')
                        continue
                    if pa.st.ret[1] is True:
                        if not lin.implies_all(atoms, g):
                            bad = (pa, f'{mname}() can return True although a reservation issued now would not be granted '
                                       f'(grant needs {" ∧ ".join(lin.atom_show(a) for a in g)})')
                    else:
                        if not lin.unsat(atoms + list(g)):
                            bad = (pa, f'{mname}() can return False although a reservation issued now would be granted at once')
                if bad:
                    r.fail(rule, key, bad[1], src(fi.module), fi.node.lineno, bad[0].describe())
                else:
                    r.ok(rule, key, f'≡ {" ∧ ".join(lin.atom_show(a) for a in g)} on {len(ps)} path(s)', src(fi.module), fi.node.lineno)
        # R3 occupancy
        for mname, fi in ci.methods.items():
            if 'occupancy' not in mname:
                continue
            r.analysed_functions.add(fi.key)
            key = f'{fi.key}::≡Σheld'
            rets = [n for n in walk_no_nested(fi.node) if isinstance(n, ast.Return) and n.value is not None]
            want = lin.norm(sum_lin(s.holders, {}, {}))
            ok = bool(rets)
            why = 'no return value'
            for rt in rets:
                try:
                    got = lin.norm(lin.linexpr(rt.value, {}, recv))
                except lin.NonLinear as e:
                    ok, why = False, f'return value is not a sum of store lengths ({e})'
                    break
                if got != want:
                    ok, why = False, f'returns {lin.show(dict(got))}, the store holds {lin.show(dict(want))}'
            (r.ok if ok else r.fail)('C11.R3', key, f'= {lin.show(dict(want))}' if ok else why, src(fi.module), fi.node.lineno)
    check_ready_append(p, ws, r)
    check_delay_draw(p, r)
    return r


def check_ready_append(p, ws, r):
    for w in ws.values():
        r.ctx = ctx_of(w)
        s = w.store
        if s.ci.name != 'BufferStore':
            continue
        A = s.avail
        sites = {}
        for root, ps in w.roots.items():
            for pa in ps:
                if pa.raises:
                    continue
                evs = pa.events
                for i, e in enumerate(evs):
                    if e.kind == 'op' and e.list == A and e.op in ('append', 'insert'):
                        key = site(e.fi, e.node, f'ready:{A}.{e.op}') + f'@{root}'
                        rec = sites.setdefault(key, {'ok': True, 'e': e, 'pa': pa, 'why': ''})
                        ok, why = judge_ready_insert(evs, i, e, s, root)
                        if not ok and rec['ok']:
                            rec.update(ok=False, pa=pa, why=why)
                        elif ok and not rec['why']:
                            rec['why'] = why
        for key, rec in sorted(sites.items()):
            e = rec['e']
            if rec['ok']:
                r.ok('C11.R4', key, rec['why'], src(e.fi.module), e.line)
            else:
                r.fail('C11.R4', key, rec['why'], src(e.fi.module), e.line, rec['pa'].describe())
        # _do_put spawns the timer process for the very item it stored
        key = f'{s.ci.label}._do_put::spawns-timer-for-stored-item'
        ok = False
        for pa in w.roots['put']:
            if pa.raises:
                continue
            app = [e for e in pa.events if e.kind == 'op' and e.list == 'items' and e.op == 'append']
            sp = [e for e in pa.events if e.kind == 'spawn' and e.func == 'self.move_to_ready_items']
            ok = len(app) == 1 and len(sp) == 1 and sp[0].args and sp[0].args[0] == app[0].val
            if not ok:
                break
        fi = s.methods['_do_put']
        (r.ok if ok else r.fail)('C11.R4', key, 'exactly one move_to_ready_items(item) per stored item' if ok else
                                 'put does not start exactly one timer process for the item it stored', src(fi.module), fi.node.lineno)


def judge_ready_insert(evs, i, e, s, root):
    v = e.val
    # (a) cancellation: re-insertion of an item taken from reserved_items / the ready list itself
    if v is not None and v[0] == 'elem' and v[1] in (RI, s.avail):
        return True, 're-insertion of an already available item (cancellation)'
    # (b) timer path: value is component 0 of the element popped from items at index(items, <param>)
    if v is not None and v[0] == 'sub' and v[2] == ('const', 0) and v[1][0] == 'elem' and v[1][1] == 'items':
        idx = v[1][2]
        if idx is not None and idx[0] == 'index' and idx[1] == 'items' and idx[2] is not None and idx[2][0] == 'param':
            par = idx[2]
            # a preceding `yield timeout(par[1])`
            for j in range(i - 1, -1, -1):
                y = evs[j]
                if y.kind == 'yield' and y.cls == 'timeout':
                    arg = None
                    for x in evs[:j]:
                        if x.kind == 'xcall' and x.d.get('result') == y.value:
                            arg = x.args[0] if x.args else None
                    if arg == ('sub', par, ('const', 1)):
                        return True, f'after `yield timeout({par[1]}[1])` of the same item'
                    return False, f'the timed wait before the append is on {arg}, not on the delay stored with the item ({par[1]}[1])'
            return False, 'item becomes ready without waiting for its delay'
    return False, f'ready list receives {v}: not the delayed item of this timer and not a cancellation re-insertion'


def check_delay_draw(p, r):
    buf = p.cls('edges/buffer.py', 'Buffer')
    fi = buf.methods.get('put')
    if fi is None:
        raise AnalysisError('Buffer.put missing')
    r.analysed_functions.add(fi.key)
    ex = paths.Explorer(p, buf.key, tracked=set(), atomic=set(p.methods(buf.key)), proto={'put'}, unroll=1)
    key = f'{fi.key}::delay-drawn-once-and-stored'
    bad = None
    ps = ex.paths(fi)
    r.paths += len(ps)
    for pa in ps:
        if pa.raises:
            continue
        draws = [e for e in pa.events if e.kind == 'call' and e.name == 'get_delay']
        puts = [e for e in pa.events if e.kind == 'pcall' and e.name == 'put' and e.recv == 'self.inbuiltstore']
        if len(draws) != 1:
            bad = (pa, f'{len(draws)} get_delay calls per put (expected 1)')
            continue
        if draws[0].args != (('self', 'delay'),):
            bad = (pa, f'get_delay is applied to {draws[0].args}, not to self.delay')
        if len(puts) != 1:
            bad = (pa, f'{len(puts)} store puts')
            continue
        a = puts[0].args
        item_par = [x.arg for x in fi.node.args.args if x.arg != 'self'][1]
        drawn = None
        # the value of the get_delay call is the fresh symbol created right after the call event
        ok = len(a) > 1 and a[1][0] == 'tuple' and len(a[1][1]) == 2 and a[1][1][0] == ('param', item_par) \
            and a[1][1][1][0] == 'sym' and a[1][1][1][1] == 'call:get_delay'
        if not ok:
            bad = (pa, f'the store does not receive (item, drawn delay): got {a[1] if len(a) > 1 else a}')
    (r.ok if not bad else r.fail)('C11.R5', key, 'one get_delay(self.delay); store receives (item, that value)' if not bad else bad[1],
                                  src(fi.module), fi.node.lineno, *( [bad[0].describe()] if bad else []))
    for rel, cname in (('edges/edge.py', 'Edge'), ('nodes/node.py', 'Node')):
        ci = p.cls(rel, cname)
        gd = ci.methods.get('get_delay')
        key = f'{rel}::{cname}.get_delay::dispatch'
        if gd is None:
            r.fail('C11.R5', key, 'get_delay missing', src(rel), ci.node.lineno)
            continue
        r.analysed_functions.add(gd.key)
        ok, why = get_delay_shape(gd, p, ci.key)
        (r.ok if ok else r.fail)('C11.R5', key, 'generator → next(), callable → call, else constant; asserts val >= 0' if ok else why,
                                 src(rel), gd.node.lineno)


def get_delay_shape(fi, p=None, cls_key=None):
    """Path rule: a generator is advanced exactly once and its value returned, a callable is called exactly once and its value returned, anything
    else is returned as it is; on every completing path the returned value was checked to be >= 0 (assert, or a raise on `< 0`)."""
    par = [a.arg for a in fi.node.args.args if a.arg != 'self']
    if not par:
        return False, 'no delay parameter'
    d = par[0]
    D = ('param', d)
    ex = paths.Explorer(p, cls_key, tracked=set(), atomic=set(), unroll=1, interrupt_edges=False)
    kinds = set()
    n = 0
    for pa in ex.paths(fi):
        if pa.raises:
            continue
        n += 1
        evs = pa.events
        ret = next((e.value for e in reversed(evs) if e.kind == 'return'), None)
        tests = {}
        for e in evs:
            if e.kind == 'cond' and not e.d.get('synthetic'):
                t = e.text.replace(' ', '')
                if t.startswith('hasattr(') and '__next__' in t:
                    tests['gen'] = e.polarity
                elif t.startswith('callable('):
                    tests['call'] = e.polarity
        nexts = [e for e in evs if e.kind == 'xcall' and e.name == 'next' and e.args and e.args[0] == D]
        calls = [e for e in evs if e.kind == 'xcall' and e.name == d]
        if tests.get('gen'):
            kinds.add('gen')
            if len(nexts) != 1 or calls:
                return False, f'generator branch takes next(delay) {len(nexts)} time(s)'
            if ret != nexts[0].result:
                return False, 'generator branch does not return the value it drew'
        elif tests.get('call'):
            kinds.add('call')
            if len(calls) != 1 or nexts:
                return False, f'callable branch calls delay() {len(calls)} time(s)'
            if ret != calls[0].result:
                return False, 'callable branch does not return the value it drew'
        elif tests.get('gen') is False and tests.get('call') is False:
            kinds.add('const')
            if nexts or calls:
                return False, 'constant branch consults the delay as if it were a generator / callable'
            if ret != D:
                return False, 'constant branch does not return the constant'
        else:
            if not nexts and not calls and ret != D:
                return False, ('a completing path returns a value without consulting the delay source on this call (a remembered value): the source is '
                               'not drawn once per request - two items pulled in the same instant share one draw and every later draw is shifted')
            return False, 'no dispatch on generator / callable / constant'
        checked = False
        for e in evs:
            ops = e.d.get('operands')
            if not ops:
                continue
            op, lv, rv = ops
            nonneg = (op == 'GtE' and lv == ret and rv == ('const', 0)) or (op == 'LtE' and lv == ('const', 0) and rv == ret)
            neg = (op == 'Lt' and lv == ret and rv == ('const', 0)) or (op == 'Gt' and lv == ('const', 0) and rv == ret)
            if e.kind == 'assert' and nonneg:
                checked = True
            if e.kind == 'cond' and ((nonneg and e.polarity) or (neg and e.polarity is False)):
                checked = True
        if not checked:
            return False, 'the drawn delay is returned without the check that it is non-negative'
    if n == 0:
        return False, 'no completing path'
    if kinds != {'gen', 'call', 'const'}:
        return False, f'dispatch covers {sorted(kinds)}, expected generator / callable / constant'
    return True, ''


