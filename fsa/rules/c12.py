"""C12 - conveyors preserve order, spacing, capacity and minimum travel time (partial: the structural clauses only).

Order of exit, spacing and travel *times* are relations between real-valued instants produced by per-item timers,
interrupts and the kernel heap and are not decided.  Three mechanisms the property names have a structural form:
  R1 admission spacing: on a non-empty belt the put-grant is control dependent on a test of the time since the *last
     entered* item (items[-1]) against one item length of travel (length/speed, resp. the slot delay);
     on an empty belt at most one entry is admitted per instant (no other granted reservation outstanding);
  R2 travel time: ConveyorBelt.put hands the store delay = item_length·capacity/speed (continuous) resp.
     capacity·delay (slotted) as component 1 of the stored tuple, stamps conveyor_entry_time = now before the put,
     and the move process waits phase 1 + phase 2 = that delay in full before the item becomes ready;
  R3 the travel time does not depend on the individual item (equal for all items of a belt: necessary for order).
Capacity is C01, FIFO binding is C06 (not re-checked).
"""
from __future__ import annotations

import ast

from .. import paths, storewalk, tables
from ..model import AnalysisError, Project, self_attr, walk_no_nested
from ..report import Result
from ..tables import RP
from .common import site, src
from .c13 import belt_store_classes

PROP = 'C12'
LEVEL = 'other'


def run(p: Project, tier: str) -> Result:
    r = Result(PROP)
    r.explanation = ('Only the structural clauses: the spacing gate exists and refers to the last entered item, the travel delay is computed by the '
                     'documented formula, stamped and waited in full, and is the same for every item. Order of exit, real spacing and travel times '
                     'under interrupts are timer arithmetic and are NOT decided by this check.')
    r.rule('C12.R1', 'put-grant gated by the spacing test against the last entered item (non-empty belt) / single admission per instant (empty belt)', 4)
    r.rule('C12.R2', 'delay formula, entry stamp, and two-phase wait summing to the delay', 4)
    r.rule('C12.R3', 'travel delay independent of the individual item', 2)
    r.not_decided = ['order of exit under interrupts / resumption', 'actual spacing when a reservation is used later than it was granted',
                     'exact travel time = length / speed when the destination never blocks', 'capacity (C01) and FIFO binding (C06) are decided there']
    check_spacing(p, r)
    check_delay(p, r)
    return r


def check_spacing(p, r):
    seen = set()
    for s in belt_store_classes(p):
        fi = s.methods['_do_reserve_put']
        if fi.key in seen:
            continue
        seen.add(fi.key)
        r.analysed_functions.add(fi.key)
        ex = paths.Explorer(p, s.ci.key, tracked=set(s.lists), atomic=set(), unroll=1)
        bad_ne = bad_e = None
        n_ne = n_e = 0
        for pa in ex.paths(fi):
            if pa.raises:
                continue
            evs = pa.events
            gi = next((i for i, e in enumerate(evs) if e.kind == 'op' and e.list == RP and e.op == 'append'), None)
            if gi is None:
                continue
            r.paths += 1
            conds = [e for e in evs[:gi] if e.kind == 'cond' and not e.d.get('synthetic')]
            nonempty = any(c.text == 'self.items' and c.polarity for c in conds)
            if nonempty:
                n_ne += 1
                ok = False
                for c in conds:
                    t = c.text.replace(' ', '')
                    if 'self.items[-1][0].conveyor_entry_time' in t and c.polarity and ('self.delay' in t or 'length/self.speed' in t):
                        ok = True
                    # continuous belt: time_on_belt is computed from items[-1] and compared with length/speed
                    if ('time_on_belt' in t and 'self.items[-1][0].length/self.speed' in t and c.polarity):
                        ok = True
                if not ok:
                    bad_ne = pa
            else:
                n_e += 1
                # at most one admission per instant on an empty belt: the grant must require that no granted reservation is outstanding
                ok = False
                for c in conds:
                    t = c.text.replace(' ', '')
                    if (t in ('len(self.reservations_put)==0', 'notself.reservations_put') and c.polarity) or (t == 'self.reservations_put' and not c.polarity):
                        ok = True
                if not ok:
                    bad_e = pa
        k1 = f'{fi.key}::spacing-gate[non-empty belt]'
        k2 = f'{fi.key}::spacing-gate[empty belt]'
        if n_ne == 0:
            r.fail('C12.R1', k1, 'no granting path for a non-empty belt', src(fi.module), fi.node.lineno)
        elif bad_ne:
            r.fail('C12.R1', k1, 'on a non-empty belt a space reservation is granted on a path that does not test the time since the last entered item '
                                 '(items[-1]) against one item length of travel: items can enter closer than one item length apart',
                   src(fi.module), fi.node.lineno, bad_ne.describe())
        else:
            r.ok('C12.R1', k1, f'spacing test against items[-1] on {n_ne} granting path(s)', src(fi.module), fi.node.lineno)
        if n_e == 0:
            r.fail('C12.R1', k2, 'no granting path for an empty belt', src(fi.module), fi.node.lineno)
        elif bad_e:
            r.fail('C12.R1', k2, 'on an empty belt every request is granted while capacity lasts, with no spacing between them: several reservations issued in '
                                 'one instant are all granted and their items enter at the same instant', src(fi.module), fi.node.lineno, bad_e.describe())
        else:
            r.ok('C12.R1', k2, 'one admission per instant', src(fi.module), fi.node.lineno)


def norm_product(n):
    """(numerator factors, denominator factors) of a product/quotient expression, as sorted text lists"""
    if isinstance(n, ast.BinOp) and isinstance(n.op, ast.Mult):
        a, b = norm_product(n.left), norm_product(n.right)
        return sorted(a[0] + b[0]), sorted(a[1] + b[1])
    if isinstance(n, ast.BinOp) and isinstance(n.op, ast.Div):
        a, b = norm_product(n.left), norm_product(n.right)
        return sorted(a[0] + b[1]), sorted(a[1] + b[0])
    return [ast.unparse(n)], []


def check_delay(p, r):
    for ci in tables.edge_classes(p):
        if ci.name != 'ConveyorBelt':
            continue
        fi = ci.methods.get('put')
        key = f'{fi.key}::delay-formula-and-stamp' if fi else f'{ci.label}.put'
        if fi is None:
            r.fail('C12.R2', key, 'put missing', src(ci.module), ci.node.lineno)
            continue
        r.analysed_functions.add(fi.key)
        continuous = 'speed' in [a.arg for a in ci.methods['__init__'].node.args.args]
        want = (['self.capacity', 'self.length'], ['self.speed']) if continuous else (['self.capacity', 'self.delay'], [])
        delay_assign = None
        stamp = None
        tup = None
        putcall = None
        item_par = [a.arg for a in fi.node.args.args if a.arg != 'self'][1]
        for n in walk_no_nested(fi.node):
            if isinstance(n, ast.Assign) and len(n.targets) == 1:
                t = ast.unparse(n.targets[0])
                if t == 'delay':
                    delay_assign = n
                if t == f'{item_par}.conveyor_entry_time':
                    stamp = n
                if isinstance(n.value, ast.Tuple) and len(n.value.elts) == 2:
                    tup = n
            if isinstance(n, ast.Call) and ast.unparse(n.func) == 'self.belt.put':
                putcall = n
        why = None
        if delay_assign is None:
            why = 'no `delay = ...` in put'
        else:
            got = norm_product(delay_assign.value)
            if (got[0], got[1]) != (sorted(want[0]), sorted(want[1])):
                why = f'travel delay is `{ast.unparse(delay_assign.value)}`, expected ' + ('item_length·capacity/speed' if continuous else 'capacity·slot delay')
        if stamp is None or ast.unparse(stamp.value) != 'self.env.now':
            why = why or 'conveyor_entry_time is not stamped with env.now in put'
        if putcall is None:
            why = why or 'the item is not handed to the belt store'
        else:
            arg = putcall.args[1] if len(putcall.args) > 1 else None
            elts = None
            if isinstance(arg, ast.Tuple):
                elts = arg.elts
            elif isinstance(arg, ast.Name) and tup is not None and ast.unparse(tup.targets[0]) == arg.id:
                elts = tup.value.elts
            if not (elts and ast.unparse(elts[0]) == item_par and ast.unparse(elts[1]) == 'delay'):
                why = why or 'the store does not receive (item, delay)'
            if stamp is not None and stamp.lineno > putcall.lineno:
                why = why or 'the entry time is stamped after the item was handed to the belt'
        (r.ok if not why else r.fail)('C12.R2', key, 'delay by the documented formula, entry stamped, (item, delay) stored' if not why else why,
                                      src(fi.module), fi.node.lineno)
        # R3 independence of the item: the delay expression mentions only attributes of the edge
        k3 = f'{fi.key}::delay-independent-of-item'
        if delay_assign is not None:
            uses_item = any(isinstance(x, ast.Name) and x.id == item_par for x in ast.walk(delay_assign.value))
            (r.ok if not uses_item else r.fail)('C12.R3', k3, 'same travel delay for every item of the belt' if not uses_item else
                                                'the travel delay depends on the individual item: a later, faster item can overtake an earlier one',
                                                src(fi.module), delay_assign.lineno)
    # two-phase wait sums to the delay and is waited in full
    seen = set()
    for s in belt_store_classes(p):
        fi = s.methods['move_to_ready_items']
        if fi.key in seen:
            continue
        seen.add(fi.key)
        r.analysed_functions.add(fi.key)
        key = f'{fi.key}::two-phase-travel-sums-to-delay'
        par = [a.arg for a in fi.node.args.args if a.arg != 'self'][0]
        txt = {ast.unparse(n.targets[0]): ast.unparse(n.value).replace(' ', '') for n in walk_no_nested(fi.node)
               if isinstance(n, ast.Assign) and len(n.targets) == 1 and isinstance(n.targets[0], ast.Name)}
        why = None
        p1, p2 = txt.get('phase1_time'), txt.get('phase2_time')
        if p1 is None or p2 is None:
            why = 'phase1_time / phase2_time not found'
        else:
            if p2 != f'{par}[1]-phase1_time':
                why = f'phase 2 is `{p2}`, expected {par}[1] − phase1_time (the two phases must add up to the stored delay)'
            if p1 not in (f'{par}[0].length/self.speed', 'self.delay'):
                why = why or f'phase 1 is `{p1}`, expected one item length of travel'
            if txt.get('remaining_phase1_time') is None or txt.get('remaining_phase2_time') is None:
                why = why or 'the remaining-time variables of the two phases are missing'
        # each phase is waited in a `while remaining > 0` loop on `timeout(remaining)`, starting from the phase time
        for k in ('1', '2'):
            rem = f'remaining_phase{k}_time'
            if txt.get(rem) is not None and txt.get(rem) not in (f'phase{k}_time',) and txt.get(rem) != '0':
                pass
            inits = [n for n in walk_no_nested(fi.node) if isinstance(n, ast.Assign) and len(n.targets) == 1 and ast.unparse(n.targets[0]) == rem
                     and ast.unparse(n.value) == f'phase{k}_time']
            loops = [n for n in walk_no_nested(fi.node) if isinstance(n, ast.While) and ast.unparse(n.test).replace(' ', '') == f'{rem}>0']
            waits = [y for lp in loops for y in ast.walk(lp) if isinstance(y, ast.Yield) and y.value is not None
                     and ast.unparse(y.value).replace(' ', '') == f'self.env.timeout({rem})']
            if not inits or not loops or not waits:
                why = why or f'phase {k} is not waited in full (`{rem} = phase{k}_time; while {rem} > 0: yield timeout({rem})` not found)'
        (r.ok if not why else r.fail)('C12.R2', key, 'phase 1 = one item length, phase 2 = delay − phase 1, both waited' if not why else why,
                                      src(fi.module), fi.node.lineno)
