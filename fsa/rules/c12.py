"""C12 - conveyors preserve order, spacing, capacity and minimum travel time (partial: the structural clauses only).

Order of exit, spacing and travel *times* are relations between real-valued instants produced by per-item timers,
interrupts and the kernel heap and are not decided.  Three mechanisms the property names have a structural form:
  R1 admission spacing: on a non-empty belt the put-grant is control dependent on a test of the time since the *last
     entered* item (items[-1]) against one item length of travel (length/speed, resp. the slot delay);
     on an empty belt at most one entry is admitted per instant (no other granted reservation outstanding);
  R2 travel time: ConveyorBelt.put hands the store delay = item_length·capacity/speed (continuous) resp.
     capacity·delay (slotted) as component 1 of the stored tuple, stamps conveyor_entry_time = now before the put,
     and the move process waits phase 1 + phase 2 = that delay in full before the item becomes ready;
  R3 the travel time does not depend on the individual item (equal for all items of a belt: necessary for order).
Capacity is C01, FIFO binding is C06 (not re-checked).
"""
from __future__ import annotations

import ast

from .. import paths, storewalk, tables
from ..model import AnalysisError, Project, self_attr, walk_no_nested
from ..report import Result, ctx_of
from ..tables import RP
from .common import check_ctor_wiring, ctor_wiring, site, src
from .c13 import belt_store_classes

PROP = 'C12'
LEVEL = 'other'


def run(p: Project, tier: str) -> Result:
    r = Result(PROP)
    r.explanation = ('Only the structural clauses: the spacing gate exists and refers to the last entered item, the travel delay is computed by the '
                     'documented formula, stamped and waited in full, and is the same for every item. Order of exit, real spacing and travel times '
                     'under interrupts are timer arithmetic and are NOT decided by this check.')
    r.rule('C12.R1', 'put-grant gated by the spacing test against the last entered item (non-empty belt) / single admission per instant (empty belt)', 4)
    r.rule('C12.R2', 'delay formula, entry stamp, and two-phase wait summing to the delay', 4)
    r.rule('C12.R3', 'travel delay independent of the individual item', 2)
    r.not_decided = ['order of exit under interrupts / resumption', 'actual spacing when a reservation is used later than it was granted',
                     'exact travel time = length / speed when the destination never blocks', 'capacity (C01) and FIFO binding (C06) are decided there']
    check_spacing(p, r)
    check_one_grant_per_sweep(p, r)
    check_delay(p, r)
    r.ctx = ''
    check_item_length_reaches_the_item(p, r)
    r.rule('C12.R4', 'each conveyor hands its configured speed / slot delay unchanged to its belt store', 2)
    for ci in tables.edge_classes(p):
        if ci.name != 'ConveyorBelt':
            continue
        attr, skeys = tables.edge_store_attr(p, ci)
        _call, got = ctor_wiring(p, ci, attr)
        want = {k: k for k in ('speed', 'delay') if k in got} or {'speed': 'speed'}
        check_ctor_wiring(p, r, 'C12.R4', ci, attr, want, 'travel time and spacing are computed by the store from this value')
    return r


def check_spacing(p, r):
    seen = set()
    for s in belt_store_classes(p):
        r.ctx = ctx_of(s)
        fi = s.methods['_do_reserve_put']
        if fi.key in seen:
            continue
        seen.add(fi.key)
        r.analysed_functions.add(fi.key)
        ex = paths.Explorer(p, s.ci.key, tracked=set(s.lists), atomic=set(), unroll=1, split_bool_returns=True)
        bad_ne = bad_e = None
        n_ne = n_e = 0
        # a store whose move process books the time an item stood still (item.total_interruption_time) measures spacing in *moving* time
        tracks_stall = any(isinstance(n, ast.Attribute) and n.attr == 'total_interruption_time' and isinstance(n.ctx, ast.Store)
                           for c in p.mro(s.ci.key) for m in c.methods.values() for n in ast.walk(m.node))
        bad_stall = None
        for pa in ex.paths(fi):
            if pa.raises:
                continue
            evs = pa.events
            gi = next((i for i, e in enumerate(evs) if e.kind == 'op' and e.list == RP and e.op == 'append'), None)
            if gi is None:
                continue
            r.paths += 1
            conds = [e for e in evs[:gi] if e.kind == 'cond' and not e.d.get('synthetic')]
            nonempty = any(c.text == 'self.items' and c.polarity for c in conds)
            if nonempty:
                n_ne += 1
                # the grant is control dependent on a test that reads the entry time of the *last entered* item (items[-1]) and
                # the travel time of one item length (speed / slot delay) - whatever locals, helpers or spelling the test goes through
                ok = False
                for c in conds:
                    atoms = []
                    for v in c.d.get('reads') or ():
                        atoms.extend(ex.dep_closure(v))
                    last_entry = any(a[0] == 'attr' and a[2] == 'conveyor_entry_time' and mentions(a[1], ('const', -1)) and mentions(a[1], 'items') for a in atoms)
                    last_len = any(a[0] == 'attr' and a[2] == 'length' and mentions(a[1], ('const', -1)) and mentions(a[1], 'items') for a in atoms)
                    pace = (('self', 'delay') in atoms) or ((('self', 'speed') in atoms) and last_len)
                    if last_entry and pace:         # (the clock cancels out while the last item is interrupted: not required)
                        ok = True
                        stalled = any(a[0] == 'attr' and a[2] == 'total_interruption_time' and mentions(a[1], ('const', -1)) and mentions(a[1], 'items') for a in atoms)
                        if tracks_stall and not stalled:
                            bad_stall = pa
                if not ok:
                    bad_ne = pa
            else:
                n_e += 1
                # at most one admission per instant on an empty belt: the grant must require that no granted reservation is outstanding
                ok = False
                for c in conds:
                    t = c.text.replace(' ', '')
                    if (t in ('len(self.reservations_put)==0', 'notself.reservations_put') and c.polarity) or (t == 'self.reservations_put' and not c.polarity):
                        ok = True
                if not ok:
                    bad_e = pa
        k1 = f'{fi.key}::spacing-gate[non-empty belt]'
        k2 = f'{fi.key}::spacing-gate[empty belt]'
        if n_ne == 0:
            r.fail('C12.R1', k1, 'no granting path for a non-empty belt', src(fi.module), fi.node.lineno)
        elif bad_ne:
            r.fail('C12.R1', k1, 'on a non-empty belt a space reservation is granted on a path that does not test the time since the last entered item '
                                 '(items[-1]) against one item length of travel: items can enter closer than one item length apart',
                   src(fi.module), fi.node.lineno, bad_ne.describe())
        else:
            r.ok('C12.R1', k1, f'spacing test against items[-1] on {n_ne} granting path(s)', src(fi.module), fi.node.lineno)
        if tracks_stall and n_ne:
            k3 = f'{fi.key}::spacing-gate[moving time]'
            if bad_stall is not None and not bad_ne:
                r.fail('C12.R1', k3, 'the spacing test measures the time since the last item entered without taking off the time that item stood still '
                                     '(its total_interruption_time): after a stall is released the belt has carried it less than one item length, yet the next '
                                     'item is admitted - two items closer than one item length', src(fi.module), fi.node.lineno, bad_stall.describe())
            elif not bad_ne:
                r.ok('C12.R1', k3, 'time since entry minus the completed and the current interruption of items[-1]', src(fi.module), fi.node.lineno)
        if n_e == 0:
            r.fail('C12.R1', k2, 'no granting path for an empty belt', src(fi.module), fi.node.lineno)
        elif bad_e:
            r.fail('C12.R1', k2, 'on an empty belt every request is granted while capacity lasts, with no spacing between them: several reservations issued in '
                                 'one instant are all granted and their items enter at the same instant', src(fi.module), fi.node.lineno, bad_e.describe())
        else:
            r.ok('C12.R1', k2, 'one admission per instant', src(fi.module), fi.node.lineno)


def _ctor_param_stored_as(p, cname, attr, depth=0):
    """index (among the non-self parameters) and name of the constructor parameter of class `cname` whose value ends up in `self.<attr>` - directly, or
    handed on to the base-class constructor that stores it; None when the class (chain) does not store such a parameter"""
    cls = next((c for c in p.raw_classes() if c.name == cname), None) if hasattr(p, 'raw_classes') else None
    if cls is None:
        for m in p.raw().modules.values():
            for n in ast.walk(m.tree):
                if isinstance(n, ast.ClassDef) and n.name == cname:
                    cls = n
    if cls is None or depth > 4:
        return None
    init = next((f for f in cls.body if isinstance(f, ast.FunctionDef) and f.name == '__init__'), None)
    if init is None:
        for b in cls.bases:
            got = _ctor_param_stored_as(p, ast.unparse(b).split('.')[-1], attr, depth + 1)
            if got is not None:
                return got
        return None
    params = [a.arg for a in init.args.args][1:]
    for n in ast.walk(init):
        if isinstance(n, ast.Assign) and len(n.targets) == 1 and self_attr(n.targets[0]) == attr and isinstance(n.value, ast.Name) and n.value.id in params:
            return params.index(n.value.id), n.value.id
    for n in ast.walk(init):
        if isinstance(n, ast.Call) and isinstance(n.func, ast.Attribute) and n.func.attr == '__init__' and isinstance(n.func.value, ast.Call) \
                and ast.unparse(n.func.value.func) == 'super':
            for b in cls.bases:
                got = _ctor_param_stored_as(p, ast.unparse(b).split('.')[-1], attr, depth + 1)
                if got is None:
                    continue
                bi, bname = got
                actual = n.args[bi] if bi < len(n.args) else next((k.value for k in n.keywords if k.arg == bname), None)
                if isinstance(actual, ast.Name) and actual.id in params:
                    return params.index(actual.id), actual.id
    return None


def check_item_length_reaches_the_item(p, r):
    """R5: the belt store reads `item.length` for the admission spacing and for the entering phase of the travel; the Source promises that it is its
    `item_length`.  Path rule on the Source process (helpers inlined): every flow item created on a path (`Item(...)` / `Pallet(...)`) is, later on
    that path, assigned `length = self.item_length` - or the constructor argument that receives `self.item_length` is the parameter the class chain
    stores in `self.length`."""
    from .. import nodewalk
    r.rule('C12.R5', 'every flow item a Source creates carries length = the Source\'s item_length', 2)
    w = next((x for x in nodewalk.walks(p) if x.ci.name == 'Source'), None)
    if w is None:
        raise AnalysisError('anchor vanished: Source')
    state = {}
    for root, ps in w.roots.items():
        for pa in ps:
            if pa.raises:
                continue
            evs = pa.events
            for i, e in enumerate(evs):
                if e.kind == 'xcall' and e.name in ('Item', 'Pallet') and e.d.get('result') is not None:
                    key = f'{w.root_funcs[root].key}::item-length({e.name})'
                    later = any(x.kind == 'setattr' and x.attr == 'length' and x.d.get('obj_val') == e.result and x.value == ('self', 'item_length') for x in evs[i + 1:])
                    via_ctor = False
                    got = _ctor_param_stored_as(p, e.name, 'length')
                    if got is not None:
                        idx, pname = got
                        args = e.args or ()
                        via_ctor = idx < len(args) and args[idx] == ('self', 'item_length')
                    rec = state.setdefault(key, [True, e, pa, ''])
                    if not (later or via_ctor) and rec[0]:
                        state[key] = [False, e, pa, '']
    if len(state) < 2:
        raise AnalysisError(f'C12.R5: only {len(state)} flow-item creation site(s) found on the paths of the Source process')
    for key, (ok, e, pa, _) in sorted(state.items()):
        if ok:
            r.ok('C12.R5', key, 'length = self.item_length on every path that creates it', src(e.fi.module), e.line)
        else:
            r.fail('C12.R5', key, f'the {e.name} created here never receives the Source\'s item_length as its `length` on this path (the value handed to the '
                                  f'constructor is not stored by the class chain, and nothing assigns it afterwards): the belt spaces and times it as an item of '
                                  f'the default length', src(e.fi.module), e.line, pa.describe())


def check_one_grant_per_sweep(p, r):
    """The spacing test of a non-empty belt compares the clock with the entry time of items[-1] - the last item that *entered*.  A granted reservation
    has not entered yet, so a second grant in the same sweep of the queue passes the very same test: `_trigger_reserve_put` therefore serves at most
    one request per call on a belt store (the next one is looked at when the put of the first has made its item items[-1])."""
    seen = set()
    for s in belt_store_classes(p):
        r.ctx = ctx_of(s)
        fi = s.methods.get('_trigger_reserve_put')
        if fi is None or fi.key in seen:
            continue
        seen.add(fi.key)
        r.analysed_functions.add(fi.key)
        key = f'{fi.key}::spacing-gate[one grant per sweep]'
        ex = paths.Explorer(p, s.ci.key, tracked=set(s.lists), atomic={m for m in s.methods if m not in ('_trigger_reserve_put', '_do_reserve_put')},
                            unroll=2, interrupt_edges=False)
        worst, wpa, n = 0, None, 0
        for pa in ex.paths(fi):
            if pa.raises:
                continue
            n += 1
            g = sum(1 for e in pa.events if e.kind == 'op' and e.list == RP and e.op in ('append', 'insert'))
            if g and any(e.kind == 'loopcut' and e.fi is not None and e.fi.key == fi.key for e in pa.events):
                g = max(g, 2)           # the sweep goes on after a grant
            if g > worst:
                worst, wpa = g, pa
        r.paths += n
        if worst == 0:
            r.fail('C12.R1', key, 'no granting path through _trigger_reserve_put', src(fi.module), fi.node.lineno)
        elif worst > 1:
            r.fail('C12.R1', key, 'one sweep of the queue can grant two space reservations: the second is tested against the same items[-1] as the first '
                                  '(whose item has not entered yet), so two items enter the belt in the same instant, closer than one item length apart',
                   src(fi.module), fi.node.lineno, wpa.describe())
        else:
            r.ok('C12.R1', key, f'at most one grant per call on {n} path(s)', src(fi.module), fi.node.lineno)


def norm_product(n):
    """(numerator factors, denominator factors) of a product/quotient expression, as sorted text lists"""
    if isinstance(n, ast.BinOp) and isinstance(n.op, ast.Mult):
        a, b = norm_product(n.left), norm_product(n.right)
        return sorted(a[0] + b[0]), sorted(a[1] + b[1])
    if isinstance(n, ast.BinOp) and isinstance(n.op, ast.Div):
        a, b = norm_product(n.left), norm_product(n.right)
        return sorted(a[0] + b[1]), sorted(a[1] + b[0])
    return [ast.unparse(n)], []


def mentions(v, what) -> bool:
    """value `what` occurs inside the (nested tuple) value v"""
    if v == what:
        return True
    if isinstance(v, tuple):
        return any(mentions(x, what) for x in v)
    return False


def wait_records(pa):
    """the suspension points of a path in order: ('timeout', duration value, event) / ('event', awaited value, event) / ('except', exc, event)"""
    args_of = {}
    out = []
    for e in pa.events:
        if e.kind == 'xcall' and e.name.endswith('.timeout') and e.args:
            args_of[e.result] = e.args[0]
        elif e.kind == 'yield':
            if e.cls == 'timeout':
                out.append(('timeout', args_of.get(e.value), e))
            else:
                out.append(('event', e.value, e))
        elif e.kind == 'except':
            out.append(('except', e.exc, e))
        elif e.kind == 'cond' and not e.polarity and e.d.get('operands') and e.operands[0] == 'Gt' and e.operands[2] == ('const', 0) \
                and e.operands[1] is not None and e.operands[1][0] not in ('lin', 'const'):
            out.append(('skipped', e.operands[1], e))      # `while remaining > 0` not entered: remaining <= 0 is waited "in full" 
        elif e.kind == 'op' and e.list == 'ready_items' and e.op in ('append', 'insert'):
            out.append(('ready', e.val, e))
    return out


def move_paths(p, s):
    fi = s.methods['move_to_ready_items']
    ex = paths.Explorer(p, s.ci.key, tracked=set(s.lists), atomic=set(tables.TRIGGERS), unroll=2, process_loop_once=False)
    return fi, ex.paths(fi)


def show_num(v):
    f = paths.Explorer.num_of(v)
    if f is None:
        return repr(v)
    def one(k):
        if k == ('one',):
            return '1'
        if k[0] == 'now':
            return f'now@{k[1]}'
        if k[0] == 'sub' and k[1][0] == 'param':
            return f'{k[1][1]}[{k[2][1]}]'
        if k[0] == 'expr':
            return f'({k[1]})'
        if k[0] in ('self', 'param'):
            return k[1]
        return str(k)[:40]
    return ' '.join((('+' if c > 0 else '-') + ('' if abs(c) == 1 else str(abs(c)) + '·') + one(k)) for k, c in f.items()) or '0'


def check_delay(p, r):
    for ci in tables.edge_classes(p):
        if ci.name != 'ConveyorBelt':
            continue
        fi = ci.methods.get('put')
        key = f'{fi.key}::delay-formula-and-stamp' if fi else f'{ci.label}.put'
        if fi is None:
            r.fail('C12.R2', key, 'put missing', src(ci.module), ci.node.lineno)
            continue
        r.analysed_functions.add(fi.key)
        attr, skeys = tables.edge_store_attr(p, ci)
        continuous = 'speed' in [a.arg for a in ci.methods['__init__'].node.args.args]
        S = lambda a: ('self', a)
        want = ('prod', 1, tuple(sorted([S('capacity'), S('length')], key=repr)), (S('speed'),)) if continuous else \
            ('prod', 1, tuple(sorted([S('capacity'), S('delay')], key=repr)), ())
        item_par = [a.arg for a in fi.node.args.args if a.arg != 'self'][1]
        ex = paths.Explorer(p, ci.key, tracked=set(), proto={'put', 'handle_new_item_during_interruption'}, unroll=1)
        why = None
        why3 = None
        n = 0
        bad = None
        for pa in ex.paths(fi):
            if pa.raises:
                continue
            n += 1
            puts = [e for e in pa.events if e.kind == 'pcall' and e.name == 'put' and e.recv == f'self.{attr}']
            if len(puts) != 1:
                why, bad = f'{len(puts)} hand-overs to the belt store on a completing path (expected exactly 1)', pa
                continue
            pc = puts[0]
            arg = pc.args[1] if len(pc.args) > 1 else None
            if not (arg and arg[0] == 'tuple' and len(arg[1]) == 2 and arg[1][0] == ('param', item_par)):
                why, bad = 'the store does not receive (item, delay)', pa
                continue
            d = arg[1][1]
            if d != want:
                why, bad = (f'the travel delay handed to the belt is not ' + ('item_length·capacity/speed' if continuous else 'capacity·slot delay') + f' (got {show_num(d)})'), pa
            if mentions(d, ('param', item_par)):
                why3 = 'the travel delay depends on the individual item: a later, faster item can overtake an earlier one'
            stamps = [e for e in pa.events if e.kind == 'setattr' and e.attr == 'conveyor_entry_time' and e.target.split('.')[0] == item_par]
            idx = pa.events.index(pc)
            before = [e for e in stamps if pa.events.index(e) < idx]
            if not before or before[-1].value[0] != 'now':
                why = why or 'conveyor_entry_time is not stamped with env.now before the item is handed to the belt'
                bad = bad or pa
        if n == 0:
            why = 'no completing path in put'
        if why:
            r.fail('C12.R2', key, why, src(fi.module), fi.node.lineno, bad.describe() if bad else None)
        else:
            r.ok('C12.R2', key, 'delay by the documented formula, entry stamped with the clock before the hand-over, (item, delay) stored', src(fi.module), fi.node.lineno)
        k3 = f'{fi.key}::delay-independent-of-item'
        (r.ok if not why3 else r.fail)('C12.R3', k3, 'same travel delay for every item of the belt' if not why3 else why3, src(fi.module), fi.node.lineno)
    # the travel delay stored with the item is waited in full before the item becomes ready
    seen = set()
    for s in belt_store_classes(p):
        r.ctx = ctx_of(s)
        fi = s.methods['move_to_ready_items']
        if fi.key in seen:
            continue
        seen.add(fi.key)
        r.analysed_functions.add(fi.key)
        key = f'{fi.key}::two-phase-travel-sums-to-delay'
        par = [a.arg for a in fi.node.args.args if a.arg != 'self'][0]
        want = {('sub', ('param', par), ('const', 1)): 1}
        _, pas = move_paths(p, s)
        n = 0
        why = bad = None
        for pa in pas:
            recs = wait_records(pa)
            if not any(k == 'ready' for k, _, _ in recs) or any(k == 'except' for k, _, _ in recs):
                continue
            r.paths += 1
            n += 1
            tot = {}
            unknown = False
            for k, v, e in recs:
                if k == 'ready':
                    break
                if k in ('timeout', 'skipped'):
                    f = paths.Explorer.num_of(v)
                    if f is None:
                        unknown = True
                        continue
                    for a, c in f.items():
                        tot[a] = tot.get(a, 0) + c
                        if tot[a] == 0:
                            del tot[a]
            if unknown or tot != want:
                why = (f'on an undisturbed belt the timed waits before the item becomes ready add up to `{show_num(("num", tuple(tot.items())))}`, '
                       f'not to the travel delay stored with the item ({par}[1])')
                bad = pa
        if n == 0:
            why = 'no undisturbed path from the start of the move process to the ready list'
        if why:
            r.fail('C12.R2', key, why, src(fi.module), fi.node.lineno, bad.describe() if bad else None)
        else:
            r.ok('C12.R2', key, f'the waits of every undisturbed path add up to {par}[1] ({n} path(s))', src(fi.module), fi.node.lineno)
