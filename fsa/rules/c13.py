from ..model import AnalysisError
PROP = 'C13'
LEVEL = 'other'


def run(p, tier):
    raise AnalysisError('rule module for C13 not implemented yet (fail closed)')
