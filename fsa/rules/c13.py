"""C13 - conveyor stalls: non-accumulating belts stop, accumulating belts close up (partial, structural half).

  R1 wait-without-signal: every event attribute a reachable process waits on is succeeded by some reachable statement;
  R2 interrupt handlers of the belt move processes subtract the elapsed time from the remaining time and wait for
     the resume event before the next timeout; resume installs a fresh event before firing the old one;
  R3 set_conveyor_state interrupts on {MOVING, IDLE} → {STALLED_*} and resumes on the converse; the state machine of
     `behaviour` covers empty / moving / stalled and changes state only through set_conveyor_state;
  R4 on a non-empty belt the put-grant is control dependent on the accumulation gate (or on the exit being free);
  R5 `.interrupt(` is called only by the belt stores, on processes they track.
"""
from __future__ import annotations

import ast

from .. import paths, storewalk, tables
from ..model import AnalysisError, Project, reachable, self_attr, walk_no_nested
from ..report import Result, ctx_of
from ..tables import RP
from .common import check_ctor_wiring, ctor_wiring, paths_skipping_loop, site, src

PROP = 'C13'
LEVEL = 'other'

MOVING = {'MOVING_STATE', 'IDLE_STATE'}
STALLED = {'STALLED_ACCUMULATING_STATE', 'STALLED_NONACCUMULATING_STATE'}


def run(p: Project, tier: str) -> Result:
    r = Result(PROP)
    r.explanation = ('The stall machinery is wired: every awaited event has a signaller, interrupted travel resumes with the remaining time, the '
                     'state machine interrupts/resumes on the right transitions, admission is gated while stalled, only the belt interrupts its '
                     'own processes. Positions, touching without overlap and exact resumption are real-valued timer arithmetic: not decided.')
    r.rule('C13.R1', 'every awaited event attribute has a reachable succeed()', 8)
    r.rule('C13.R2', 'interrupt handler: remaining -= elapsed; wait for resume; fresh resume event before firing the old', 6)
    r.rule('C13.R3', 'state transitions interrupt / resume; behaviour covers empty / moving / stalled; single writer of the conveyor state', 6)
    r.rule('C13.R4', 'non-empty belt: put-grant depends on the accumulation gate or a free exit', 2)
    r.rule('C13.R5', 'interrupt() only from belt stores on their tracked processes', 3)
    r.not_decided = ['item positions, "touch without overlapping", admission up to capacity while accumulating, exactness of resumption (timer arithmetic)']
    reach = reachable(p)
    check_wait_signal(p, reach, r)
    check_handlers(p, r)
    check_transitions(p, r)
    check_gate(p, r)
    check_delayed_interrupts(p, r)
    check_stall_delay_conversion(p, r)
    check_interrupters(p, reach, r)
    r.ctx = ''
    r.rule('C13.R9', 'the stall state of a conveyor is changed only by its own process (set_conveyor_state is called from behaviour alone)', 8)
    for ci in tables.edge_classes(p):
        if ci.name != 'ConveyorBelt' or 'set_conveyor_state' not in ci.methods:
            continue
        for fi in ci.methods.values():
            for c in walk_no_nested(fi.node):
                if isinstance(c, ast.Call) and isinstance(c.func, ast.Attribute) and c.func.attr == 'set_conveyor_state':
                    key = site(fi, c, 'state-change')
                    if fi.name == 'behaviour':
                        r.ok('C13.R9', key, 'decided by the belt process, which re-evaluates head / followers each time it wakes', src(fi.module), c.lineno)
                    else:
                        r.fail('C13.R9', key, f'{fi.name} changes the conveyor state directly: the belt process decides stall / release from what waits at the exit each '
                                              f'time it is woken (put, get, arrival); a state set from outside is not re-evaluated when the reason for it goes away '
                                              f'(a granted retrieval that is cancelled again leaves the belt MOVING behind a waiting head)', src(fi.module), c.lineno)
    r.rule('C13.R8', 'the conveyor hands its configured accumulating flag unchanged to a belt store that takes one', 1)
    for ci in tables.edge_classes(p):
        if ci.name != 'ConveyorBelt':
            continue
        attr, skeys = tables.edge_store_attr(p, ci)
        _call, got = ctor_wiring(p, ci, attr)
        takes = any('accumulation_mode_indicator' in [a.arg for a in c.methods['__init__'].node.args.args]
                    for k in skeys for c in p.mro(k)[:1] if '__init__' in c.methods)
        if takes or 'accumulation_mode_indicator' in got:
            check_ctor_wiring(p, r, 'C13.R8', ci, attr, {'accumulation_mode_indicator': 'accumulating'},
                              'whether the belt stops as a whole or closes up during a stall is decided by the store from this flag')
    return r


# ------------------------------------------------------------------------------------------- R1
def event_attr_of(n):
    """'X' for expressions self.X / self.<a>.X used as an awaited event"""
    if isinstance(n, ast.Attribute):
        if self_attr(n):
            return n.attr
        if isinstance(n.value, ast.Attribute) and self_attr(n.value):
            return n.attr
    return None


def event_owner(p, fi, n):
    """class key owning the event attribute in `self.X` / `self.a.X` as seen from function fi"""
    if fi.cls is None:
        return None
    me = (fi.module, fi.cls)
    if self_attr(n):
        return me
    if isinstance(n, ast.Attribute) and isinstance(n.value, ast.Attribute) and self_attr(n.value):
        ks = p.attr_class(me, n.value.attr)
        return ks[0] if ks else None
    return None


def is_event_attr(p, owner, attr):
    """the attribute is (re)armed with env.event() somewhere in the owner's hierarchy"""
    if owner is None:
        return False
    for fi, val, _ in p.self_attr_sites(owner).get(attr, []):
        if isinstance(val, ast.Call) and isinstance(val.func, ast.Attribute) and val.func.attr == 'event':
            return True
    return False


def related(p, a, b):
    if a is None or b is None:
        return False
    return a == b or a in [c.key for c in p.mro(b)] or b in [c.key for c in p.mro(a)]


def check_wait_signal(p, reach, r):
    waited = {}          # (owner, attr) -> (fi, node)
    for fi in p.all_functions():
        if fi.key not in reach or not fi.is_generator or fi.cls is None:
            continue
        r.analysed_functions.add(fi.key)
        listvars = {}
        for n in walk_no_nested(fi.node):
            if isinstance(n, ast.Assign) and isinstance(n.value, ast.List) and len(n.targets) == 1 and isinstance(n.targets[0], ast.Name):
                listvars.setdefault(n.targets[0].id, []).extend(n.value.elts)
        for n in walk_no_nested(fi.node):
            if not isinstance(n, ast.Yield) or n.value is None:
                continue
            cands = []
            v = n.value
            if event_attr_of(v):
                cands.append(v)
            if isinstance(v, ast.Call) and isinstance(v.func, ast.Attribute) and v.func.attr in ('any_of', 'all_of') and v.args:
                a = v.args[0]
                elts = a.elts if isinstance(a, ast.List) else listvars.get(a.id, []) if isinstance(a, ast.Name) else []
                cands += [e for e in elts if event_attr_of(e)]
            if isinstance(v, ast.Name):
                # `x = self.resume_event` ; yield x   (a local alias of the event attribute)
                for m in walk_no_nested(fi.node):
                    if isinstance(m, ast.Assign) and any(isinstance(t, ast.Name) and t.id == v.id for t in m.targets) and event_attr_of(m.value):
                        cands.append(m.value)
                # `x = self.env.any_of(event_list)` ; yield x
                for m in walk_no_nested(fi.node):
                    if isinstance(m, ast.Assign) and any(isinstance(t, ast.Name) and t.id == v.id for t in m.targets) and isinstance(m.value, ast.Call) \
                            and isinstance(m.value.func, ast.Attribute) and m.value.func.attr in ('any_of', 'all_of') and m.value.args:
                        a = m.value.args[0]
                        elts = a.elts if isinstance(a, ast.List) else listvars.get(a.id, []) if isinstance(a, ast.Name) else []
                        cands += [e for e in elts if event_attr_of(e)]
            for c in cands:
                owner = event_owner(p, fi, c)
                if is_event_attr(p, owner, event_attr_of(c)):
                    waited.setdefault((owner, event_attr_of(c)), (fi, n))
    # signallers: X.succeed() on any receiver ending in .X, or on a local alias of self.X
    signalled = set()
    for fi in p.all_functions():
        if fi.key not in reach:
            continue
        alias = {}
        for n in walk_no_nested(fi.node):
            if isinstance(n, ast.Assign) and len(n.targets) == 1 and isinstance(n.targets[0], ast.Name) and event_attr_of(n.value):
                alias[n.targets[0].id] = (event_owner(p, fi, n.value), event_attr_of(n.value))
        for n in walk_no_nested(fi.node):
            if isinstance(n, ast.Call) and isinstance(n.func, ast.Attribute) and n.func.attr == 'succeed':
                tgt = n.func.value
                if event_attr_of(tgt):
                    signalled.add((event_owner(p, fi, tgt), event_attr_of(tgt)))
                elif isinstance(tgt, ast.Name) and tgt.id in alias:
                    signalled.add(alias[tgt.id])
    for (owner, attr), (fi, n) in sorted(waited.items(), key=lambda x: (x[1][0].key, x[0][1])):
        mod = fi.module
        key = f'{fi.key}::waits-on({attr})'
        if any(a == attr and related(p, o, owner) for o, a in signalled):
            r.ok('C13.R1', key, f'`{attr}.succeed()` exists in reachable code', src(mod), n.lineno)
        else:
            r.fail('C13.R1', key, f'the process waits on `{attr}` but no reachable statement ever calls `{attr}.succeed()`: it sleeps for ever '
                                  f'(the state machine behind it never leaves this state)', src(mod), n.lineno)


# ------------------------------------------------------------------------------------------- R2
def belt_store_classes(p):
    out = []
    for s in tables.discover_stores(p):
        if 'move_to_ready_items' in s.methods and ('resume_all_move_processes' in s.methods or any(
                isinstance(n, ast.ExceptHandler) for n in ast.walk(s.methods['move_to_ready_items'].node))):
            out.append(s)
    return out


def check_handlers(p, r):
    """Path rule on the move process (sub-generators inlined): whenever a timed travel wait W1 (duration d1, started at clock t0) is cut by an
    Interrupt (clock t1), the process (a) waits for the resume event before travelling again and (b) the next travel wait lasts exactly
    d1 − (t1 − t0).  The clock is one symbol per atomic segment, so reading it after the resume wait is a different symbol."""
    from .c12 import move_paths, wait_records, show_num
    seen = set()
    for s in belt_store_classes(p):
        r.ctx = ctx_of(s)
        fi0 = s.methods['move_to_ready_items']
        if fi0.key in seen:
            continue
        seen.add(fi0.key)
        fi, pas = move_paths(p, s)
        r.analysed_functions.add(fi.key)
        sites = {}
        for pa in pas:
            recs = wait_records(pa)
            r.paths += 1
            for i, (k, d1, e1) in enumerate(recs):
                if k != 'timeout' or i + 1 >= len(recs) or recs[i + 1][0] != 'except' or 'Interrupt' not in recs[i + 1][1]:
                    continue
                # the next travel wait on this path
                rest = recs[i + 2:]
                j = next((x for x, rc in enumerate(rest) if rc[0] in ('timeout', 'ready', 'except', 'skipped')), None)
                if j is None or rest[j][0] in ('except',):
                    continue                    # the path ends (or is interrupted again) before travelling on: no obligation from it
                phase = 1 + sum(1 for x in range(i) if recs[x][0] == 'timeout' and not (x + 1 < len(recs) and recs[x + 1][0] == 'except'))
                key = f'{fi.key}::interrupted-travel-wait[phase {phase}]'
                rec = sites.setdefault(key, {'ok': 0, 'why': None, 'e': e1, 'pa': None})
                waited = [rc for rc in rest[:j] if rc[0] == 'event']
                why = None
                if not any(rc[1] == ('self', 'resume_event') for rc in waited):
                    why = ('after an Interrupt the process does not wait for self.resume_event before it travels on: the item keeps moving during the stall')
                elif any(stale_resume_read(fi, rc[2]) for rc in waited if rc[1] == ('self', 'resume_event')):
                    why = ('the resume event the interrupted process waits on was read before the interruption (captured in a local at the start of the leg): a '
                           'release in between replaces self.resume_event, so the process waits on an event that has already fired and travels on at once, '
                           'through the items stopped ahead of it')
                elif rest[j][0] in ('timeout', 'skipped'):
                    d2 = rest[j][1]
                    ep = e1.epoch
                    f1 = paths.Explorer.num_of(d1)
                    f2 = paths.Explorer.num_of(d2)
                    want = None
                    if f1 is not None:
                        want = dict(f1)
                        for a_, c_ in ((('now', ep + 1), -1), (('now', ep), 1)):
                            want[a_] = want.get(a_, 0) + c_
                            if want[a_] == 0:
                                del want[a_]
                    if f1 is None or f2 is None or f2 != want:
                        why = (f'after an Interrupt at clock t1 of a wait of `{show_num(d1)}` started at t0, the next travel wait lasts `{show_num(d2)}`, '
                               f'expected the remaining time `{show_num(d1)} − (t1 − t0)` (t0 = now@{ep}, t1 = now@{ep + 1}): the item travels too long or too short after a stall')
                else:
                    why = 'after an Interrupt the item becomes ready without travelling its remaining time'
                if why and not rec['why']:
                    rec['why'], rec['pa'] = why, pa
                elif not why:
                    rec['ok'] += 1
        for key, rec in sorted(sites.items()):
            e = rec['e']
            if rec['why']:
                r.fail('C13.R2', key, rec['why'], src(e.fi.module), e.line, rec['pa'].describe())
            else:
                r.ok('C13.R2', key, f'resume wait, then remaining = d − (t1 − t0) on {rec["ok"]} interrupted path(s)', src(e.fi.module), e.line)
        if not sites:
            r.fail('C13.R2', f'{fi.key}::interrupted-wait', 'no interruptible travel wait found in the move process', src(fi.module), fi.node.lineno)
        rs = s.methods.get('resume_all_move_processes')
        key = f'{s.ci.module}::{s.ci.name}.resume_all_move_processes::fresh-event-before-firing'
        if rs is None:
            r.fail('C13.R2', key, 'resume_all_move_processes missing', src(s.ci.module), s.ci.node.lineno)
        elif rs.key not in seen:
            seen.add(rs.key)
            r.analysed_functions.add(rs.key)
            ex = paths.Explorer(p, s.ci.key, tracked=set(s.lists), atomic=set(tables.TRIGGERS), unroll=1, track_attrs=True)
            why = bad = None
            n = 0
            for pa in ex.paths(rs):
                if pa.raises:
                    continue
                n += 1
                evs = pa.events
                sets = [i for i, e in enumerate(evs) if e.kind == 'setattr' and e.on_self and e.attr == 'resume_event']
                fires = [i for i, e in enumerate(evs) if e.kind == 'succeed']
                old = [i for i in fires if evs[i].value == ('self', 'resume_event')]
                if not old:
                    why, bad = 'the event the stalled move processes wait on (the value of self.resume_event at entry) is not fired', pa
                elif not sets or not any(evs[i].value[0] == 'newevent' for i in sets if i < old[0]):
                    why, bad = ('resume does not install a fresh event before firing the old one: a process interrupted again waits on an already fired event'), pa
            if n == 0:
                why = 'no completing path'
            if why:
                r.fail('C13.R2', key, why, src(rs.module), rs.node.lineno, bad.describe() if bad else None)
            else:
                r.ok('C13.R2', key, 'fresh resume event installed, then the old one fired', src(rs.module), rs.node.lineno)


# ------------------------------------------------------------------------------------------- R3
def names_in(node):
    return {c.value for c in ast.walk(node) if isinstance(c, ast.Constant) and isinstance(c.value, str)}


def transition_roles(fi):
    """(old, new): the local that holds the state before the switch (bound from self.state) and the name of the new state (the parameter)"""
    params = [a.arg for a in fi.node.args.args if a.arg != 'self']
    new = params[0] if params else None
    old = None
    for n in walk_no_nested(fi.node):
        if isinstance(n, ast.Assign) and len(n.targets) == 1 and isinstance(n.targets[0], ast.Name) and ast.unparse(n.value) == 'self.state':
            old = n.targets[0].id
    return old, new


def state_set(fi, node):
    """string constants of a membership operand: a literal, or a local / module / class constant bound to one"""
    got = names_in(node)
    if got:
        return got
    if isinstance(node, ast.Name):
        for n in walk_no_nested(fi.node):
            if isinstance(n, ast.Assign) and any(isinstance(t, ast.Name) and t.id == node.id for t in n.targets):
                return names_in(n.value)
    return set()


def transition_sides(fi, test, old, new):
    """{role: set of states} for a test of the form `<old> in S1 and <new> in S2` (either order, `==` for singletons)"""
    out = {}
    vals = test.values if isinstance(test, ast.BoolOp) and isinstance(test.op, ast.And) else [test]
    for x in vals:
        if isinstance(x, ast.Compare) and len(x.ops) == 1 and isinstance(x.left, ast.Name) and x.left.id in (old, new):
            role = 'old' if x.left.id == old else 'new'
            if isinstance(x.ops[0], ast.In):
                out[role] = state_set(fi, x.comparators[0])
            elif isinstance(x.ops[0], ast.Eq) and isinstance(x.comparators[0], ast.Constant):
                out[role] = {x.comparators[0].value}
    return out


def transition_effects(fi, old_state, new_state, accumulating):
    """Calls that `set_conveyor_state` makes for ONE representative transition (abstract run over the statement tree; nothing is executed):
    `self.state` starts as `old_state`, the parameter is `new_state`, `self.accumulating` is the given flag.  Tests that can be evaluated choose their
    branch - whatever their spelling, branch order or nesting; for a test that cannot, only the calls made on *both* branches count (must).
    -> (set of callee texts, final value of self.state or None)"""
    from .common import eval_guard, eval_guard_value, NotEvaluable
    params = [a.arg for a in fi.node.args.args if a.arg != 'self']
    env = {'self.state': old_state, 'self.accumulating': accumulating}
    if params:
        env[params[0]] = new_state

    def bind(t):
        if t in env:
            return env[t]
        raise KeyError(t)

    def walk(stmts):
        calls = set()
        for st in stmts:
            if isinstance(st, ast.If):
                try:
                    taken = st.body if eval_guard(st.test, bind) else st.orelse
                    calls |= walk(taken)
                except NotEvaluable:
                    saved = dict(env)
                    a = walk(st.body)
                    env_a = dict(env)
                    env.clear(); env.update(saved)
                    b = walk(st.orelse)
                    for k in list(env):
                        if env_a.get(k, object()) != env[k]:
                            del env[k]
                    calls |= (a & b)
            elif isinstance(st, ast.Assign):
                try:
                    v = eval_guard_value(st.value, bind)
                    for t in st.targets:
                        env[ast.unparse(t)] = v
                except NotEvaluable:
                    for t in st.targets:
                        env.pop(ast.unparse(t), None)
            elif isinstance(st, ast.Expr) and isinstance(st.value, ast.Call):
                calls.add(ast.unparse(st.value.func))
            elif isinstance(st, (ast.For, ast.While, ast.With, ast.Try)):
                pass        # nothing of the transition logic lives in loops; calls made there are not counted as unconditional
            elif isinstance(st, ast.Return):
                break
        return calls
    calls = walk(fi.node.body)
    return calls, env.get('self.state')


def dispatch_states(stmts, env, stop_at_yield):
    """states handed to set_conveyor_state when the statements run under the representative situation `env` (expression text -> value): tests that can be
    evaluated choose their branch, others contribute both branches; with stop_at_yield the walk ends at the first suspension point"""
    from .common import eval_guard, NotEvaluable

    def bind(t):
        if t in env:
            return env[t]
        raise KeyError(t)
    got = set()

    def walk(body):
        """True when the walk has to stop (a suspension point was reached on this path)"""
        for st in body:
            if isinstance(st, ast.If):
                try:
                    if walk(st.body if eval_guard(st.test, bind) else st.orelse):
                        return True
                except NotEvaluable:
                    a_ = walk(st.body)
                    b_ = walk(st.orelse)
                    if a_ and b_:
                        return True
                continue
            if stop_at_yield and any(isinstance(x, (ast.Yield, ast.YieldFrom)) for x in ast.walk(st)):
                return True
            if isinstance(st, (ast.For, ast.While, ast.With, ast.Try)):
                for f in ('body', 'orelse', 'finalbody'):
                    if walk(getattr(st, f, []) or []):
                        return True
                continue
            if isinstance(st, ast.Raise):
                return True
            for c_ in ast.walk(st):
                if isinstance(c_, ast.Call) and ast.unparse(c_.func) == 'self.set_conveyor_state':
                    got.update(names_in(c_))
        return False
    walk(stmts)
    return got


def stale_resume_read(fi, ev) -> bool:
    """the awaited expression of this resume wait is a local that was bound outside the interrupt handler the wait sits in (i.e. before the interruption)"""
    txt = (ev.d.get('text') or '').strip()
    if not txt.isidentifier():
        return False
    # handler that contains the wait (code inlined from sub-generators keeps its own AST; search the whole class would be overkill: the function and its helpers)
    line = ev.line
    best = None
    for n in ast.walk(fi.node):
        if isinstance(n, ast.ExceptHandler) and n.lineno <= line <= max(getattr(x, 'end_lineno', n.lineno) or n.lineno for x in ast.walk(n) if hasattr(x, 'lineno')):
            if best is None or n.lineno > best.lineno:
                best = n
    if best is None:
        return False
    inside = any(isinstance(x, ast.Assign) and any(isinstance(t, ast.Name) and t.id == txt for t in x.targets) and x.lineno <= line for x in ast.walk(best))
    return not inside


def check_transitions(p, r):
    for ci in tables.edge_classes(p):
        if ci.name != 'ConveyorBelt':
            continue
        fi = ci.methods.get('set_conveyor_state')
        key = f'{ci.label}.set_conveyor_state::interrupt-and-resume'
        if fi is None:
            r.fail('C13.R3', key, 'set_conveyor_state missing', src(ci.module), ci.node.lineno)
            continue
        r.analysed_functions.add(fi.key)
        why = None
        attr_, _sk = tables.edge_store_attr(p, ci)
        for acc in (0, 1):
            for o_ in sorted(MOVING):
                for n_ in sorted(STALLED):
                    calls, final = transition_effects(fi, o_, n_, acc)
                    if f'self.{attr_}.selective_interrupt' not in calls:
                        why = why or (f'the transition {o_} → {n_} ({"accumulating" if acc else "non-accumulating"} belt) does not call {attr_}.selective_interrupt: '
                                      f'items keep moving on a stalled belt')
                    if final != n_:
                        why = why or 'set_conveyor_state does not record the new state'
            for o_ in sorted(STALLED):
                for n_ in sorted(MOVING):
                    calls, final = transition_effects(fi, o_, n_, acc)
                    if f'self.{attr_}.resume_all_move_processes' not in calls:
                        why = why or (f'the transition {o_} → {n_} ({"accumulating" if acc else "non-accumulating"} belt) does not call {attr_}.resume_all_move_processes: '
                                      f'items never resume')
                    if final != n_:
                        why = why or 'set_conveyor_state does not record the new state'
        (r.ok if not why else r.fail)('C13.R3', key, 'interrupt on stall, resume on release, for both stall states' if not why else why, src(fi.module), fi.node.lineno)
        # single writer
        key2 = f'{ci.label}::state-single-writer'
        bad = None
        for mname, m in ci.methods.items():
            if mname in ('__init__', 'set_conveyor_state'):
                continue
            for n in walk_no_nested(m.node):
                if isinstance(n, ast.Assign) and any(self_attr(t) == 'state' for t in n.targets):
                    bad = (m, n)
        (r.ok if not bad else r.fail)('C13.R3', key2, 'self.state written only by set_conveyor_state' if not bad else
                                      f'{bad[0].name} assigns self.state directly: the belt is not interrupted / resumed on that transition',
                                      src(ci.module), bad[1].lineno if bad else ci.node.lineno)
        # behaviour covers the three situations
        b = ci.methods.get('behaviour')
        key3 = f'{ci.label}.behaviour::covers-empty-moving-stalled'
        if b is None:
            r.fail('C13.R3', key3, 'behaviour missing', src(ci.module), ci.node.lineno)
            continue
        r.analysed_functions.add(b.key)
        loops = [n for n in b.node.body if isinstance(n, ast.While)]
        why = None
        if not loops:
            why = 'no process loop in behaviour'
        else:
            body = loops[0].body
            want = {(True, False): {'IDLE_STATE'}, (True, True): {'IDLE_STATE'}, (False, False): {'MOVING_STATE'}}
            # the decision taken at the top of an iteration (up to the first suspension), by abstract evaluation over (empty, stalled, accumulating)
            for (E, S), w in want.items():
                for acc in (0, 1):
                    got = dispatch_states(body, {'self.is_empty()': E, 'self.is_stalled()': S, 'self.accumulating': acc}, stop_at_yield=True)
                    if got != w:
                        why = why or (f'when the belt is {"empty" if E else "not empty"} and {"stalled" if S else "not stalled"} the behaviour sets '
                                      f'{sorted(got) or "no state"}, expected {sorted(w)}')
            for acc, wst in ((1, {'STALLED_ACCUMULATING_STATE'}), (0, {'STALLED_NONACCUMULATING_STATE'})):
                got = dispatch_states(body, {'self.is_empty()': False, 'self.is_stalled()': True, 'self.accumulating': acc}, stop_at_yield=True)
                if got != wst:
                    why = why or (f'a stalled {"accumulating" if acc else "non-accumulating"} belt is put into {sorted(got) or "no state"}, expected {sorted(wst)}: '
                                  f'items {"stop instead of closing up" if acc else "close up instead of stopping"}')
                # ... and every later decision of the iteration (after a wake-up) that stalls the belt picks the kind that matches the flag
                later = dispatch_states(body, {'self.is_stalled()': True, 'self.accumulating': acc}, stop_at_yield=False) & STALLED
                if later - wst:
                    why = why or (f'a stalled {"accumulating" if acc else "non-accumulating"} belt is put into {sorted(later - wst)} somewhere in the behaviour loop, '
                                  f'expected {sorted(wst)}: items {"stop instead of closing up" if acc else "close up instead of stopping"}')
        (r.ok if not why else r.fail)('C13.R3', key3, 'empty → IDLE, moving → MOVING, stalled → STALLED_(NON)ACCUMULATING' if not why else why, src(b.module), b.node.lineno)


# ------------------------------------------------------------------------------------------- R4
GATES = {
    'base/belt_store.py': ('self.accumulation_mode_indicator==True', 'len(self.ready_items)==0'),
    'base/slotted_belt_store.py': ('notself.noaccumulation_mode_on', 'self.one_item_inserted==False'),
}


def check_gate(p, r):
    seen = set()
    for s in belt_store_classes(p):
        r.ctx = ctx_of(s)
        fi = s.methods['_do_reserve_put']
        if fi.key in seen:
            continue
        seen.add(fi.key)
        r.analysed_functions.add(fi.key)
        key = f'{fi.key}::accumulation-gate'
        ex = paths.Explorer(p, s.ci.key, tracked=set(s.lists), atomic=set(), unroll=1, split_bool_returns=True)
        bad = None
        n = 0
        for pa in ex.paths(fi):
            if pa.raises:
                continue
            evs = pa.events
            gi = next((i for i, e in enumerate(evs) if e.kind == 'op' and e.list == RP and e.op == 'append'), None)
            if gi is None:
                continue
            conds = [(e.text.replace(' ', ''), e.polarity) for e in evs[:gi] if e.kind == 'cond' and not e.d.get('synthetic')]
            nonempty = ('self.items', True) in conds
            if not nonempty:
                continue
            n += 1
            gate = False
            # The continuous belt decides "is the head waiting at the exit" from ready_items itself: the stall flag is set by the conveyor's own process
            # only after it has been woken, so between the head's arrival and that wake-up the flag still says "moving".  There the no-accumulation flag
            # alone is not a gate (frozen per class: the slotted store's gate is the flag plus one-insert-per-stall).
            strict = s.ci.module == 'base/belt_store.py'
            # (a) the path conditions imply that the exit is free (no ready item waiting)
            from .. import lin as _lin
            from .common import events_atoms as _ea
            try:
                if _lin.implies(_ea(evs[:gi]), ('<=', _lin.norm({'ready_items': 1}))):
                    gate = True
            except _lin.NonLinear:
                pass
            # (b) or they test the accumulation flag / the no-accumulation gate / the one-insert-per-stall flag (by value, any spelling)
            FLAGS = {('self', 'accumulation_mode_indicator'), ('self', 'noaccumulation_mode_on'), ('self', 'one_item_inserted')}
            for e in evs[:gi]:
                if e.kind != 'cond' or e.d.get('synthetic'):
                    continue
                t, pol = e.text.replace(' ', ''), e.polarity
                ops = e.d.get('operands')
                if ops and (ops[1] in FLAGS or ops[2] in FLAGS):
                    flag = ops[1] if ops[1] in FLAGS else ops[2]
                    other = ops[2] if ops[1] in FLAGS else ops[1]
                    val = other[1] if other and other[0] == 'const' else None
                    truth = (val is True or val == 1) if ops[0] == 'Eq' else (val is False or val == 0) if ops[0] == 'NotEq' else None
                    if truth is not None:
                        is_true = truth == pol          # the flag is known to be true on this path?
                        if flag[1] == 'accumulation_mode_indicator' and is_true:
                            gate = True
                        if flag[1] in ('noaccumulation_mode_on', 'one_item_inserted') and not is_true and not strict:
                            gate = True
                if t == 'self.accumulation_mode_indicator' and pol:
                    gate = True
                if t in ('self.noaccumulation_mode_on', 'self.one_item_inserted') and pol is False and not strict:
                    gate = True
            if not gate:
                bad = pa
        if n == 0:
            r.fail('C13.R4', key, 'no granting path on a non-empty belt', src(fi.module), fi.node.lineno)
        elif bad:
            r.fail('C13.R4', key, 'on a non-empty belt a space reservation is granted on a path that tests neither the accumulation flag / no-accumulation gate '
                                  'nor that the exit is free: a stopped non-accumulating belt admits new items' if s.ci.module != 'base/belt_store.py' else
                                  'on a non-empty belt a space reservation is granted on a path on which the belt is not known to be accumulating and the exit is not '
                                  'known to be free (`ready_items` empty): a non-accumulating belt whose head item is waiting at the exit admits a new item '
                                  '(the stall flag alone lags behind the head\'s arrival)', src(fi.module), fi.node.lineno, bad.describe())
        else:
            r.ok('C13.R4', key, f'gate tested on {n} granting path(s)', src(fi.module), fi.node.lineno)


# ------------------------------------------------------------------------------------------- R6
def check_delayed_interrupts(p, r):
    """Every delayed interrupt scheduled while the belt is stalled is tracked, and the release transition cancels all of them
    unconditionally - otherwise a stale interrupt fires after the release and freezes an item on a moving belt."""
    r.rule('C13.R6', 'delayed interrupts are tracked where they are spawned and cancelled unconditionally when the belt is released', 4)
    spawners = {}
    seen = set()
    for s in belt_store_classes(p):
        r.ctx = ctx_of(s)
        for ci in p.mro(s.ci.key):
            for fi in ci.methods.values():
                if fi.key in seen:
                    continue
                seen.add(fi.key)
                for n in walk_no_nested(fi.node):
                    if isinstance(n, ast.Call) and isinstance(n.func, ast.Attribute) and n.func.attr == 'process' and n.args \
                            and isinstance(n.args[0], ast.Call) and ast.unparse(n.args[0].func) == 'self._delayed_interrupt':
                        r.analysed_functions.add(fi.key)
                        key = site(fi, n, 'delayed-interrupt-spawn')
                        # tracked: the statement assigns the process to a name that is stored in active_delayed_interrupt_processes[...]
                        tracked = False
                        for st_ in walk_no_nested(fi.node):
                            if isinstance(st_, ast.Assign) and st_.value is n and len(st_.targets) == 1 and isinstance(st_.targets[0], ast.Name):
                                v = st_.targets[0].id
                                for st2 in walk_no_nested(fi.node):
                                    if isinstance(st2, ast.Assign) and isinstance(st2.value, ast.Name) and st2.value.id == v \
                                            and any(isinstance(t, ast.Subscript) and self_attr(t.value) == 'active_delayed_interrupt_processes' for t in st2.targets):
                                        tracked = True
                            if isinstance(st_, ast.Assign) and st_.value is n and any(isinstance(t, ast.Subscript) and self_attr(t.value) == 'active_delayed_interrupt_processes' for t in st_.targets):
                                tracked = True
                        spawners.setdefault(ci.key, []).append(fi)
                        if tracked:
                            r.ok('C13.R6', key, 'recorded in active_delayed_interrupt_processes', src(fi.module), n.lineno)
                        else:
                            r.fail('C13.R6', key, 'a delayed interrupt is scheduled but not recorded anywhere: it cannot be cancelled when the belt is released, fires '
                                                  'later and freezes an item on a moving belt (the item waits for a resume that never comes)', src(fi.module), n.lineno)
    # the sweep itself: called on release (below), it cancels every recorded process whoever calls it and whatever happened before
    for s in belt_store_classes(p):
        fi = s.methods.get('interrupt_and_resume_all_delayed_interrupt_processes')
        if fi is None or not any(c.key in spawners for c in p.mro(s.ci.key)):
            continue
        r.ctx = ctx_of(s)
        r.analysed_functions.add(fi.key)
        key = f'{fi.key}::sweep-is-unconditional'
        loops, bad = paths_skipping_loop(p, s.ci.key, fi, 'active_delayed_interrupt_processes')
        if not loops:
            r.fail('C13.R6', key, 'the cancellation sweep does not iterate over active_delayed_interrupt_processes', src(fi.module), fi.node.lineno)
        elif bad:
            r.fail('C13.R6', key, 'the cancellation sweep returns without looking at active_delayed_interrupt_processes on a path that does not say the '
                                  'table is empty: a delayed interrupt recorded by another method (handle_new_item_during_interruption) survives the release, '
                                  'fires later and freezes an item on a moving belt', src(fi.module), fi.node.lineno, bad[0].describe())
        else:
            r.ok('C13.R6', key, 'every completing path sweeps active_delayed_interrupt_processes', src(fi.module), fi.node.lineno)
    # release transition of every conveyor whose belt store schedules delayed interrupts
    for ci in tables.edge_classes(p):
        if ci.name != 'ConveyorBelt':
            continue
        attr, skeys = tables.edge_store_attr(p, ci)
        has_spawners = any(c.key in spawners for k in skeys for c in p.mro(k))
        if not has_spawners:
            continue
        fi = ci.methods.get('set_conveyor_state')
        if fi is None:
            continue
        key = f'{fi.key}::release-cancels-delayed-interrupts'
        name = f'self.{attr}.interrupt_and_resume_all_delayed_interrupt_processes'
        missing = []
        mentioned = any(isinstance(c, ast.Call) and ast.unparse(c.func) == name for c in ast.walk(fi.node))
        for acc in (0, 1):
            for o_ in sorted(STALLED):
                for n_ in sorted(MOVING):
                    calls, _final = transition_effects(fi, o_, n_, acc)
                    if name not in calls:
                        missing.append((o_, n_, acc))
        if not missing:
            r.ok('C13.R6', key, 'cancelled on every release transition, for both belt kinds', src(fi.module), fi.node.lineno)
        elif mentioned and len(missing) < 8:
            o_, n_, acc = missing[0]
            r.fail('C13.R6', key, f'pending delayed interrupts are cancelled only under a condition when the belt is released (not for {o_} → {n_} on '
                                  f'{"an accumulating" if acc else "a non-accumulating"} belt), but they are also scheduled when that condition is false '
                                  '(handle_new_item_during_interruption runs for both belt kinds): a stale interrupt freezes an item after the release',
                   src(fi.module), fi.node.lineno)
        else:
            r.fail('C13.R6', key, 'the release transition does not cancel the delayed interrupts scheduled during the stall: they fire after the release and '
                                  'freeze items on a moving belt', src(fi.module), fi.node.lineno)


# ------------------------------------------------------------------------------------------- R7
def _canon_factors(n, single, dvar, depth=0):
    """(numerator factors, denominator factors) of a conversion expression; single-assignment locals are resolved, the length of
    the item concerned (`x[0].length`, with or without the hasattr fallback) is one canonical token whatever the item variable is called"""
    if isinstance(n, ast.Name) and n.id != dvar and n.id in single and depth < 4:
        return _canon_factors(single[n.id], single, dvar, depth + 1)
    if isinstance(n, ast.IfExp) and isinstance(n.body, ast.Attribute) and n.body.attr == 'length' and isinstance(n.orelse, ast.Constant) \
            and isinstance(n.test, ast.Call) and ast.unparse(n.test.func) == 'hasattr' and n.test.args and ast.unparse(n.test.args[0]) == ast.unparse(n.body.value):
        return ['item_length'], []
    if isinstance(n, ast.Attribute) and n.attr == 'length' and isinstance(n.value, ast.Subscript):
        return ['item_length'], []
    if isinstance(n, ast.Call) and isinstance(n.func, ast.Name) and n.func.id == 'getattr' and len(n.args) == 3 and isinstance(n.args[1], ast.Constant) \
            and n.args[1].value == 'length' and isinstance(n.args[2], ast.Constant):
        return ['item_length'], []          # getattr(x, 'length', d)  ==  x.length if hasattr(x, 'length') else d
    if isinstance(n, ast.BinOp) and isinstance(n.op, ast.Mult):
        a, b = _canon_factors(n.left, single, dvar, depth), _canon_factors(n.right, single, dvar, depth)
        return sorted(a[0] + b[0]), sorted(a[1] + b[1])
    if isinstance(n, ast.BinOp) and isinstance(n.op, ast.Div):
        a, b = _canon_factors(n.left, single, dvar, depth), _canon_factors(n.right, single, dvar, depth)
        return sorted(a[0] + b[1]), sorted(a[1] + b[0])
    return [ast.unparse(n)], []


def check_stall_delay_conversion(p, r):
    """Sibling agreement: while an accumulating belt is stalled, a trailing item keeps moving for <number of empty slots ahead>; that
    count is converted to time at several sites of the store (planned stall, item admitted during the stall).  All sites must apply the
    same factor, and for the continuous belt it must be item_length / speed - otherwise a trailing item runs too long and overtakes /
    overlaps the item ahead."""
    r.rule('C13.R7', 'every site that converts a slot count into a stall delay uses the same factor (item length / speed)', 2)
    seen = set()
    for s in belt_store_classes(p):
        r.ctx = ctx_of(s)
        sites = []
        for ci in p.mro(s.ci.key):
            for fi in ci.methods.values():
                if fi.key in seen:
                    continue
                # functions that hand a delay to _delayed_interrupt
                spawns = [n for n in walk_no_nested(fi.node) if isinstance(n, ast.Call) and ast.unparse(n.func) == 'self._delayed_interrupt' and len(n.args) >= 2
                          and isinstance(n.args[1], ast.Name)]
                if not spawns:
                    continue
                seen.add(fi.key)
                dvar = spawns[0].args[1].id
                counts = {}
                single = {}
                for n in walk_no_nested(fi.node):
                    if isinstance(n, ast.Assign) and len(n.targets) == 1 and isinstance(n.targets[0], ast.Name):
                        counts[n.targets[0].id] = counts.get(n.targets[0].id, 0) + 1
                        single[n.targets[0].id] = n.value
                    elif isinstance(n, (ast.AugAssign,)) and isinstance(n.target, ast.Name):
                        counts[n.target.id] = counts.get(n.target.id, 0) + 2
                single = {k: v for k, v in single.items() if counts.get(k) == 1}
                convs = [n for n in walk_no_nested(fi.node) if isinstance(n, ast.Assign) and len(n.targets) == 1 and isinstance(n.targets[0], ast.Name)
                         and n.targets[0].id == dvar and isinstance(n.value, ast.BinOp) and isinstance(n.value.op, (ast.Mult, ast.Div))]
                # `delay *= f` / `delay /= f` is the same conversion
                for n in walk_no_nested(fi.node):
                    if isinstance(n, ast.AugAssign) and isinstance(n.target, ast.Name) and n.target.id == dvar and isinstance(n.op, (ast.Mult, ast.Div)):
                        virt = ast.copy_location(ast.Assign(targets=[ast.Name(id=dvar, ctx=ast.Store())],
                                                            value=ast.BinOp(left=ast.Name(id=dvar, ctx=ast.Load()), op=n.op, right=n.value)), n)
                        ast.fix_missing_locations(virt)
                        convs.append(virt)
                # the converted value post-processed by a call (`float(np.round(delay * f, 2))`, `int(...)`, `max(...)`): no longer the product
                for n in walk_no_nested(fi.node):
                    if isinstance(n, ast.Assign) and len(n.targets) == 1 and isinstance(n.targets[0], ast.Name) and n.targets[0].id == dvar \
                            and isinstance(n.value, ast.Call) and any(isinstance(x, ast.BinOp) and isinstance(x.op, (ast.Mult, ast.Div))
                                                                      and any(isinstance(y, ast.Name) and y.id == dvar for y in ast.walk(x)) for x in ast.walk(n.value)):
                        r.analysed_functions.add(fi.key)
                        r.fail('C13.R7', f'{fi.key}::stall-delay-conversion', f'the converted stall delay is post-processed by `{ast.unparse(n.value.func)}(...)`: a follower then '
                               f'keeps moving for a time that is not <empty slots ahead> · item_length / speed and stops short of, or runs into, the item ahead',
                               src(fi.module), n.lineno)
                for c in convs:
                    num, den = _canon_factors(c.value, {k: v for k, v in single.items() if k != dvar}, dvar)
                    # the slot count itself: the variable being converted, or the single other non-length factor
                    rest = [x for x in num if x != 'item_length']
                    num2 = [x for x in num if x == 'item_length'] + (rest[1:] if rest else [])
                    sites.append((fi, c, (tuple(sorted(num2)), tuple(sorted(den)))))
        if not sites:
            continue
        factors = {f for _, _, f in sites}
        want = (('item_length',), ('self.speed',))
        for fi, c, f in sites:
            r.analysed_functions.add(fi.key)
            key = f'{fi.key}::stall-delay-conversion'
            txt = ' · '.join(f[0]) + (' / ' + ' · '.join(f[1]) if f[1] else '')
            if len(factors) > 1 and f != want:
                others = sorted({o.qual for o, _, g in sites if g != f})
                r.fail('C13.R7', key, f'slot count is converted to time with the factor `{txt}` here, but with another factor in {others}: the sites disagree, '
                                      f'so after a stall a trailing item keeps moving for the wrong time and overtakes or overlaps the item ahead', src(fi.module), c.lineno)
            elif f != want and any('speed' in x for g in factors for x in g[1]) is False and 'speed' in ast.unparse(fi.node):
                r.fail('C13.R7', key, f'slot count is converted with `{txt}`, not with item_length / speed', src(fi.module), c.lineno)
            elif f != want and len(factors) == 1 and ('item_length',) == f[0] and not f[1]:
                r.fail('C13.R7', key, f'slot count is converted with `{txt}`: the belt speed is missing from the conversion', src(fi.module), c.lineno)
            else:
                r.ok('C13.R7', key, f'factor {txt}', src(fi.module), c.lineno)


# ------------------------------------------------------------------------------------------- R5
TRACK_TABLES = ('active_move_processes', 'active_delayed_interrupt_processes')


def tracked_process_expr(fi, expr, depth=0):
    """the expression denotes a process taken from one of the store's tracking tables: it mentions a table, or a local that was bound
    (assignment, for-target, comprehension) from an expression that does - whatever the locals are called"""
    txt = ast.unparse(expr)
    if any(t in txt for t in TRACK_TABLES):
        return True
    if depth > 3:
        return False
    names = {x.id for x in ast.walk(expr) if isinstance(x, ast.Name) and x.id != 'self'}
    for m in walk_no_nested(fi.node):
        if isinstance(m, ast.Assign) and any(isinstance(x, ast.Name) and x.id in names for t in m.targets for x in ast.walk(t)):
            if tracked_process_expr(fi, m.value, depth + 1):
                return True
        if isinstance(m, (ast.For, ast.comprehension)) and any(isinstance(x, ast.Name) and x.id in names for x in ast.walk(m.target)):
            if tracked_process_expr(fi, m.iter, depth + 1):
                return True
    for m in ast.walk(fi.node):
        if isinstance(m, ast.comprehension) and any(isinstance(x, ast.Name) and x.id in names for x in ast.walk(m.target)):
            if tracked_process_expr(fi, m.iter, depth + 1):
                return True
    return False


def check_interrupters(p, reach, r):
    belt_keys = set()
    for s in belt_store_classes(p):
        r.ctx = ctx_of(s)
        for c in p.mro(s.ci.key):
            belt_keys.add(c.key)
    n = 0
    for fi in p.all_functions():
        for c in walk_no_nested(fi.node):
            if isinstance(c, ast.Call) and isinstance(c.func, ast.Attribute) and c.func.attr == 'interrupt':
                n += 1
                key = site(fi, c, 'interrupt')
                inside = fi.cls is not None and (fi.module, fi.cls) in belt_keys
                recv = c.func.value
                tracked = tracked_process_expr(fi, recv)
                if inside and not tracked and isinstance(recv, ast.Name) and fi.name.startswith('_') \
                        and recv.id in [a.arg for a in fi.node.args.args]:
                    # the process is handed to a private helper: every call site must pass a process the store tracks
                    pos = [a.arg for a in fi.node.args.args if a.arg != 'self'].index(recv.id)
                    calls = []
                    for g in p.all_functions():
                        for cc in walk_no_nested(g.node):
                            if isinstance(cc, ast.Call) and isinstance(cc.func, ast.Attribute) and cc.func.attr == fi.name:
                                calls.append((g, cc))
                    def tracked_arg(g, cc):
                        a = cc.args[pos] if pos < len(cc.args) else next((k.value for k in cc.keywords if k.arg == recv.id), None)
                        return a is not None and tracked_process_expr(g, a)
                    tracked = bool(calls) and all((g.cls is not None and (g.module, g.cls) in belt_keys) and tracked_arg(g, cc) for g, cc in calls)
                if inside and tracked:
                    r.ok('C13.R5', key, 'belt store interrupting a process it tracks', src(fi.module), c.lineno)
                else:
                    r.fail('C13.R5', key, f'`{ast.unparse(c.func)}` outside the belt stores\' own process tracking: node and store processes have no '
                                          f'Interrupt handling, an interrupt there kills the process', src(fi.module), c.lineno)
    r.stats['interrupt_call_sites'] = n
