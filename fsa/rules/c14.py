"""C14 - fleet delivers whole batches after a full round trip (partial).

  R1 the capacity trigger `activate_fleet.succeed()` exists in put, is control dependent on Σ_H|L| = capacity (or >=)
     and on `not triggered`, and fires whenever that condition holds;
  R2 the activation process waits on any_of([timeout(self.delay), self.activate_fleet]) and departs only if
     `items` is non-empty;
  R3 exactly two `yield timeout(self.transit_delay)` dominate the batch move;
  R4 the batch handed to the move process does not alias a list that the move loop or put() mutates during the trip;
  R5 (advisory) the consumed one-shot event is re-armed on every path back to the wait.
"""
from __future__ import annotations

import ast

from .. import lin, paths, storewalk, tables
from ..model import AnalysisError, Project, self_attr, walk_no_nested
from ..report import Result
from .common import check_ctor_wiring, events_atoms, site, src, sum_lin

PROP = 'C14'
LEVEL = 'other'


def run(p: Project, tier: str) -> Result:
    r = Result(PROP)
    r.explanation = ('Structure of the departure mechanism: capacity trigger predicate, wait-set of the activation process, two transit '
                     'timeouts before the batch becomes available, and an alias check of the batch iterable. Batch boundaries and the upper '
                     'bound on waiting depend on the schedule and are not decided.')
    r.rule('C14.R1', 'capacity trigger: succeed() ⇔ Σ held = capacity ∧ not already triggered', 1)
    r.rule('C14.R2', 'activation waits on any_of([timeout(delay), activate_fleet]); departs only with items waiting', 2)
    r.rule('C14.R3', 'two timeouts of transit_delay dominate the batch move', 1)
    r.rule('C14.R4', 'the batch iterable is a snapshot, not the live list mutated during the trip', 1)
    r.not_decided = ['batch boundaries in time, the bound "one delay period plus one round trip" (schedule dependent)',
                     'items loaded during a trip (needs a waiting/in-transit separation the store does not have)']
    w = None
    for x in storewalk.walks(p, assume_inv=('I1',)):
        if x.store.ci.name == 'FleetStore':
            w = x
    if w is None:
        raise AnalysisError('anchor vanished: FleetStore')
    r.paths += w.npaths
    s = w.store
    check_trigger(w, r)
    check_activation(w, r)
    check_transit(w, r)
    r.ctx = ''
    r.rule('C14.R7', 'the Fleet hands its configured delay, transit_delay and capacity unchanged to its store', 3)
    for ci in tables.edge_classes(p):
        attr, skeys = tables.edge_store_attr(p, ci)
        if any(k == s.ci.key for k in skeys):
            check_ctor_wiring(p, r, 'C14.R7', ci, attr, {'delay': 'delay', 'transit_delay': 'transit_delay', 'capacity': 'capacity'},
                              'the departure timer and the round trip run on the store\'s values: a fleet "leaves after delay, is back after 2·transit_delay" only if they are the configured ones')
    return r


def check_trigger(w, r):
    s = w.store
    fi = s.methods['_do_put']
    r.analysed_functions.add(fi.key)
    key = f'{s.ci.label}._do_put::capacity-trigger'
    H = list(s.holders)
    n_succ = 0
    bad = None
    for pa in w.roots['put']:
        if pa.raises:
            continue
        evs = pa.events
        succ = [i for i, e in enumerate(evs) if e.kind == 'succeed' and e.target == 'self.activate_fleet']
        app = [i for i, e in enumerate(evs) if e.kind == 'op' and e.list in H and e.op in ('append', 'insert')]
        if not app:
            continue
        # the test `Σ == cap` as decided on this path (after the append)
        full_atoms_true = None
        for i in succ:
            n_succ += 1
            e = evs[i]
            atoms = events_atoms(evs[:i])
            full = lin.ladd(sum_lin(H, e.g, e.dl), {'cap': -1})
            ge = ('<=', lin.norm(lin.lneg(full)))          # Σ − cap >= 0
            if not lin.implies(atoms, ge):
                bad = (pa, 'the fleet is activated although the number of held items has not reached the capacity')
            if i < app[0]:
                bad = bad or (pa, 'the capacity test runs before the item is stored (off by one)')
        if not succ:
            # a path that stores the item, on which Σ = cap is *possible* and the event is not triggered, must have succeeded
            atoms = events_atoms(evs)
            st = pa.st
            # lengths after the append at the end of _do_put: use the last op snapshot
            last = evs[app[-1]]
            full = lin.ladd(sum_lin(H, last.g, last.dl), {'cap': -1})
            eq = [('==', lin.norm(full))]
            not_trig = any(e.kind == 'cond' and not e.d.get('synthetic') and e.text == 'self.activate_fleet.triggered' and e.polarity is True for e in evs)
            if not lin.unsat(atoms + eq) and not not_trig:
                bad = bad or (pa, 'a put that fills the fleet to capacity does not trigger the departure (the batch waits for the timeout instead)')
    if n_succ == 0:
        r.fail('C14.R1', key, 'put() never triggers activate_fleet: a full fleet does not depart until the waiting delay expires',
               src(fi.module), fi.node.lineno)
    elif bad:
        r.fail('C14.R1', key, bad[1], src(fi.module), fi.node.lineno, bad[0].describe())
    else:
        r.ok('C14.R1', key, 'succeed() exactly when Σ held reaches capacity and the event is untriggered', src(fi.module), fi.node.lineno)


def check_activation(w, r):
    s = w.store
    name = 'fleet_activation_process'
    if name not in w.roots:
        r.fail('C14.R2', f'{s.ci.label}::activation-process', 'no activation process is spawned by the store', src(s.ci.module), s.ci.node.lineno)
        return
    fi = w.root_funcs[name]
    r.analysed_functions.add(fi.key)
    # spawned from __init__
    init = s.methods.get('__init__')
    key0 = f'{s.ci.label}.__init__::starts-activation-process'
    started = init is not None and any(isinstance(n, ast.Call) and ast.unparse(n).replace(' ', '') == 'self.env.process(self.fleet_activation_process())'
                                       for n in walk_no_nested(init.node))
    (r.ok if started else r.fail)('C14.R2', key0, 'started once by the constructor' if started else 'the constructor does not start the activation process',
                                  src(fi.module), fi.node.lineno)
    key = f'{fi.key}::wait-set-and-departure'
    bad = None
    n = 0
    alias = None
    rearm_bad = None
    for pa in w.roots[name]:
        if pa.raises:
            continue
        evs = pa.events
        ys = [e for e in evs if e.kind == 'yield']
        if not ys:
            bad = (pa, 'the activation loop has an iteration without a wait (zero-time loop)')
            continue
        n += 1
        y = ys[0]
        # any_of over a list made of timeout(self.delay) and self.activate_fleet
        okwait = False
        for x in evs:
            if x.kind == 'xcall' and x.d.get('result') == y.value and x.name.endswith('any_of') and x.args:
                lst = x.args[0]
                mk = [m for m in evs if m.kind == 'mklist' and m.value == lst]
                elems = mk[0].elems if mk else (lst[1] if lst and lst[0] == 'list' else ())
                touts = []
                for el in elems:
                    for c in evs:
                        if c.kind == 'xcall' and c.d.get('result') == el and c.name.endswith('.timeout'):
                            touts.append(c.args[0] if c.args else None)
                has_ev = any(el == ('self', 'activate_fleet') or (isinstance(el, tuple) and el[0] == 'newevent') for el in elems) or \
                    any(el == ('self', 'activate_fleet') for el in elems)
                okwait = touts == [('self', 'delay')] and has_ev and len(elems) == 2
        if not okwait:
            bad = (pa, 'the activation process does not wait on any_of([timeout(self.delay), self.activate_fleet])')
        if len(ys) > 1:
            bad = bad or (pa, f'the activation cycle suspends a second time (`yield {ys[1].text}` at line {ys[1].line}): while it waits there neither the capacity '
                              f'event nor the delay timer is observed, so a fleet filled during that wait does not depart and a loaded item can wait longer than '
                              f'one delay period plus one round trip')
        sp = [i for i, e in enumerate(evs) if e.kind == 'spawn' and e.func == 'self.move_to_ready_items']
        for i in sp:
            guard = any(c.kind == 'cond' and not c.d.get('synthetic') and c.text == 'self.items' and c.polarity is True for c in evs[:i])
            if not guard:
                bad = bad or (pa, 'the fleet departs without checking that items are waiting')
            a0 = evs[i].args[0] if evs[i].args else None
            if a0 is not None and a0[0] == 'self' and a0[1] in s.holders:
                alias = (evs[i], pa, a0[1])
        if len(sp) > 1:
            bad = bad or (pa, 'several departures in one activation')
        # ... and it departs WHENEVER items are waiting after the wake-up: both reasons to wake (delay over, capacity reached) are reasons to leave, and
        # re-deriving them (`now - armed_at >= delay` in floating point, `activate_fleet.triggered`) can only lose a departure
        waiting = any(c.kind == 'cond' and not c.d.get('synthetic') and c.text == 'self.items' and c.polarity is True for c in evs)
        if waiting and not sp:
            extra = [c.text for c in evs if c.kind == 'cond' and not c.d.get('synthetic') and c.text not in ('self.items', 'self.activate_fleet.triggered')]
            bad = bad or (pa, f'items are waiting after the wake-up but the fleet does not depart on this path (extra condition(s) {extra[:3]}): a loaded item can '
                              f'wait longer than one delay period plus one round trip')
        # R5 advisory: triggered event re-armed
        trig = [c for c in evs if c.kind == 'cond' and not c.d.get('synthetic') and c.text == 'self.activate_fleet.triggered']
        rearm = any(e.kind == 'setattr' and e.target == 'self.activate_fleet' and e.value[0] == 'newevent' for e in evs)
        if not trig and not rearm:
            rearm_bad = pa
    if n == 0:
        bad = bad or (w.roots[name][0], 'no complete activation iteration')
    (r.ok if not bad else r.fail)('C14.R2', key, 'waits on timeout(delay) ∨ capacity event; departs only with items waiting' if not bad else bad[1],
                                  src(fi.module), fi.node.lineno, *([bad[0].describe()] if bad else []))
    key4 = f'{fi.key}::batch-is-a-snapshot'
    if alias:
        e, pa, L = alias
        mutated = move_loop_mutates(w, L)
        if mutated:
            r.fail('C14.R4', key4, f'the batch handed to move_to_ready_items is the live list `self.{L}`, and the move loop removes elements from `self.{L}` '
                                   f'while iterating it: every other item is skipped (A,B,C,D → only A,C are delivered); items put during the trip join the batch',
                   src(fi.module), e.line, pa.describe())
        else:
            r.ok('C14.R4', key4, f'self.{L} is passed but not mutated by the move loop', src(fi.module), e.line)
    else:
        r.ok('C14.R4', key4, 'the batch is a snapshot of the waiting items', src(fi.module), fi.node.lineno)
    if rearm_bad is not None:
        r.advisories.append(f'C14.R5 {fi.key}: a path returns to the wait without re-arming a possibly consumed activate_fleet event (no witness; advisory)')


def move_loop_mutates(w, L):
    fi = w.store.methods.get('move_to_ready_items')
    if fi is None:
        return False
    par = [a.arg for a in fi.node.args.args if a.arg != 'self']
    for n in walk_no_nested(fi.node):
        if isinstance(n, ast.For) and isinstance(n.iter, ast.Name) and par and n.iter.id == par[0]:
            for x in ast.walk(n):
                if isinstance(x, ast.Call) and isinstance(x.func, ast.Attribute) and x.func.attr in ('pop', 'remove', 'insert', 'append', 'clear') \
                        and self_attr(x.func.value) == L:
                    return True
    return False


def check_transit(w, r):
    s = w.store
    fi = s.methods.get('move_to_ready_items')
    key = f'{s.ci.label}.move_to_ready_items::round-trip'
    if fi is None or 'move_to_ready_items' not in w.roots:
        r.fail('C14.R3', key, 'move_to_ready_items missing', src(s.ci.module), s.ci.node.lineno)
        return
    r.analysed_functions.add(fi.key)
    bad = None
    n = 0
    for pa in w.roots['move_to_ready_items']:
        if pa.raises:
            continue
        evs = pa.events
        first_op = next((i for i, e in enumerate(evs) if e.kind == 'op' and e.list in s.holders), None)
        if first_op is None:
            continue
        n += 1
        touts = []
        for y in evs[:first_op]:
            if y.kind == 'yield':
                arg = None
                for x in evs:
                    if x.kind == 'xcall' and x.d.get('result') == y.value and x.name.endswith('.timeout'):
                        arg = x.args[0] if x.args else None
                touts.append((y.cls, arg))
        if touts != [('timeout', ('self', 'transit_delay')), ('timeout', ('self', 'transit_delay'))]:
            bad = (pa, f'the batch becomes available after the waits {touts}; expected exactly two timeouts of self.transit_delay (out and back)')
        later = [y for y in evs[first_op:] if y.kind == 'yield']
        if later:
            bad = bad or (pa, 'the batch is not delivered together: the move loop suspends between items')
    if n == 0:
        bad = (w.roots['move_to_ready_items'][0], 'no path moves a batch')
    (r.ok if not bad else r.fail)('C14.R3', key, 'two transit timeouts, then the whole batch in one atomic segment' if not bad else bad[1],
                                  src(fi.module), fi.node.lineno, *([bad[0].describe()] if bad else []))
    # R6: the batch is decided at departure - a copy of the waiting items taken after the transit waits also contains what was loaded during the trip
    r.rule('C14.R6', 'the set of items delivered by a trip is fixed before the transit waits (no copy of the live list taken on arrival)', 1)
    key6 = f'{s.ci.label}.move_to_ready_items::batch-fixed-at-departure'
    bad6 = None
    n6 = 0
    for pa in w.roots['move_to_ready_items']:
        if pa.raises:
            continue
        evs = pa.events
        ys = [i for i, e in enumerate(evs) if e.kind == 'yield' and e.cls == 'timeout']
        loops = [i for i, e in enumerate(evs) if e.kind == 'foriter' and any(x.kind == 'op' and x.list in s.holders for x in evs[i:])]
        if not ys or not loops:
            continue
        n6 += 1
        lp = evs[loops[0]]
        node = lp.node.iter
        late_copy = None
        if isinstance(node, (ast.Call, ast.Subscript, ast.ListComp)) and loops[0] > ys[0]:
            late_copy = ast.unparse(node)
        elif isinstance(node, ast.Name):
            v = lp.d.get('iter_val')
            mk = next((i for i, x in enumerate(evs) if x.kind in ('xcall', 'call') and x.d.get('result') == v), None) if v is not None else None
            if mk is not None and mk > ys[0]:
                late_copy = f'{node.id} = {evs[mk].name}(...)'
        if late_copy:
            bad6 = (pa, f'the items delivered are `{late_copy}`, evaluated after the transit waits: everything loaded while the fleet was away is delivered with '
                        f'the returning batch instead of waiting for the next trip')
    if n6:
        (r.ok if not bad6 else r.fail)('C14.R6', key6, 'batch decided before the fleet leaves' if not bad6 else bad6[1], src(fi.module), fi.node.lineno,
                                       *([bad6[0].describe()] if bad6 else []))
