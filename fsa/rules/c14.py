from ..model import AnalysisError
PROP = 'C14'
LEVEL = 'other'


def run(p, tier):
    raise AnalysisError('rule module for C14 not implemented yet (fail closed)')
