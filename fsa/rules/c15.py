"""C15 - edge-selection policies are obeyed exactly and recorded truthfully (partial).

  R1 exactly one _get_in/out_edge_index() call per routed item on the selector paths; the selector itself
     consults a generator / callable exactly once and returns the answer unchanged;
  R2 on nodes that keep a selection history every routed put / get is accompanied by exactly one record, and
     the recorded value is the index actually used;
  R3 the range check dominates the indexing of the edge list;
  R4 FIRST_AVAILABLE scans / reserves in edge order;
  R5 the round-robin generator starts at 0 and steps with (i + 1) mod len(edges), one step per item;
  R6 RANDOM draws from the module-level `random` within [0, len − 1];
  R7 built-in names are wired to the right generator and edge list ("IN" ↔ in_edges, "OUT" ↔ out_edges).
"""
from __future__ import annotations

import ast

from .. import nodewalk, paths, tables
from ..model import AnalysisError, Project, self_attr, walk_no_nested
from ..report import Result, ctx_of
from .common import site, src, range_guard_ok

PROP = 'C15'
LEVEL = 'other'

UTILS = 'utils/utils.py'


def run(p: Project, tier: str) -> Result:
    r = Result(PROP)
    r.explanation = ('Selector consulted once per item and obeyed (data flow from the selector call to the indexed edge), recorded value = used '
                     'index, range check before use, lowest-index idioms for FIRST_AVAILABLE, normal form of the round-robin update. '
                     'Which reservations trigger in the same instant is not decided.')
    r.rule('C15.R1', 'one selector consultation per routed item; generator/callable consulted once and obeyed', 12)
    r.rule('C15.R2', 'every routed put/get is recorded once, with the index actually used', 8)
    r.rule('C15.R3', 'range check dominates edge-list indexing', 6)
    r.rule('C15.R4', 'FIRST_AVAILABLE works in edge order', 8)
    r.rule('C15.R5', 'ROUND_ROBIN: starts at 0, successor (i+1) mod len(edges)', 1)
    r.rule('C15.R6', 'RANDOM: random.randint(0, len(edges)-1) from the module-level generator', 1)
    r.rule('C15.R7', 'policy names and IN/OUT are wired to the right selector and edge list', 6)
    r.not_decided = ['which of several reservations triggers first within one instant (kernel ordering)']
    for w in nodewalk.walks(p):
        r.ctx = ctx_of(w)
        r.paths += w.npaths
        check_selectors(p, w, r)
        check_routing(p, w, r)
        check_wiring(p, w, r)
    check_generators(p, r)
    check_consult_sites(p, r)
    check_policy_stored_unchanged(p, r)
    check_edge_lists_duplicate_free(p, r)
    return r


def check_edge_lists_duplicate_free(p, r):
    """R10: an index selects an edge, and `len(self.<x>_edges)` is the range of valid indices, only while every edge occurs once in the list.  Nodes
    accept their edges in the constructor AND through `Edge.connect` / `add_*_edges` (connect is needed anyway: only it sets src_node / dest_node),
    so every registration is guarded: on every completing path an `….in_edges.append(e)` / `….out_edges.append(e)` is preceded by a test that `e` is
    not in that list yet."""
    r.rule('C15.R10', 'an edge is registered in a node\'s edge list at most once (membership test dominates every append)', 6)
    n = 0
    for ci in p.classes.values():
        for fi in ci.methods.values():
            if fi.name == '__init__':
                continue
            sites = [c for c in walk_no_nested(fi.node) if isinstance(c, ast.Call) and isinstance(c.func, ast.Attribute) and c.func.attr == 'append'
                     and isinstance(c.func.value, ast.Attribute) and c.func.value.attr in ('in_edges', 'out_edges') and len(c.args) == 1]
            if not sites:
                continue
            r.analysed_functions.add(fi.key)
            ex = paths.Explorer(p, ci.key, tracked=set(), atomic={m for m in ci.methods if m != fi.name}, unroll=1, interrupt_edges=False)
            state = {}
            for pa in ex.paths(fi):
                if pa.raises:
                    continue
                evs = pa.events
                for i, e in enumerate(evs):
                    if e.kind == 'xcall' and e.name.endswith(('.in_edges.append', '.out_edges.append')) and e.args:
                        lst = e.name.rsplit('.', 2)[1]
                        key = f'{fi.key}::registers-once({e.name[:-len(".append")]})'
                        guarded = False
                        for c in evs[:i]:
                            ops = c.d.get('operands') if c.kind == 'cond' else None
                            if ops and ops[0] in ('NotIn', 'In') and ops[1] == e.args[0] and isinstance(ops[2], tuple) and ops[2] and \
                                    ((ops[2][0] == 'attr' and ops[2][2] == lst) or ops[2] == ('self', lst)):
                                if (ops[0] == 'NotIn') == bool(c.polarity):
                                    guarded = True
                        rec = state.setdefault(key, [True, e, pa])
                        if not guarded and rec[0]:
                            state[key] = [False, e, pa]
            for key, (ok, e, pa) in sorted(state.items()):
                n += 1
                if ok:
                    r.ok('C15.R10', key, 'appended only when not yet in the list', src(fi.module), e.line)
                else:
                    r.fail('C15.R10', key, f'`{e.name}` can run for an edge that is already in the list (no membership test on this path): a node built with its '
                                           f'edges in the constructor and then connected holds every edge twice - `len(edges)` no longer is the number of edges, a '
                                           f'constant or round-robin index beyond it is accepted and wraps onto another edge, FIRST_AVAILABLE reserves twice on one store',
                           src(fi.module), e.line, pa.describe())
    if n < 6:
        raise AnalysisError(f'C15.R10: only {n} registration sites of in_edges / out_edges found')


def check_policy_stored_unchanged(p, r):
    """R9: the constructor stores the edge-selection policy it is given - for every legal value.  `x or DEFAULT`, `x if x else DEFAULT` turn the constant index 0
    into the default policy; decided by evaluating the stored expression for representative arguments (0, 1, a policy name)."""
    from .common import eval_guard, eval_guard_value, NotEvaluable
    r.rule('C15.R9', 'the constructor stores the edge-selection policy argument unchanged (constant index 0 included)', 4)

    def value_of(e, bind):
        if isinstance(e, ast.BoolOp):
            last = None
            for v in e.values:
                last = value_of(v, bind)
                if isinstance(e.op, ast.Or) and last:
                    return last
                if isinstance(e.op, ast.And) and not last:
                    return last
            return last
        if isinstance(e, ast.IfExp):
            try:
                t = eval_guard(e.test, bind)
            except NotEvaluable:
                t = bool(value_of(e.test, bind))
            return value_of(e.body if t else e.orelse, bind)
        return eval_guard_value(e, bind)
    for ci in sorted(p.classes.values(), key=lambda c: (c.module, c.name)):
        if not ci.module.startswith('nodes/'):
            continue
        init = ci.methods.get('__init__')
        if init is None:
            continue
        params = [a.arg for a in init.node.args.args]
        for attr in ('in_edge_selection', 'out_edge_selection'):
            if attr not in params:
                continue
            asg = [n for n in walk_no_nested(init.node) if isinstance(n, ast.Assign) and any(self_attr(t) == attr for t in n.targets)]
            if not asg:
                continue
            r.analysed_functions.add(init.key)
            key = f'{init.key}::stores({attr})'
            bad = None
            for v in (0, 1, 'ROUND_ROBIN', 'FIRST_AVAILABLE'):
                def bind(t, v=v):
                    if t == attr:
                        return v
                    raise KeyError(t)
                try:
                    got = value_of(asg[-1].value, bind)
                except NotEvaluable:
                    got = v            # not a function of the argument alone that we can evaluate: no verdict
                if got != v or type(got) is not type(v):
                    bad = (v, got)
                    break
            if bad:
                r.fail('C15.R9', key, f'`self.{attr} = {ast.unparse(asg[-1].value)}` stores {bad[1]!r} when the node is given {bad[0]!r}: a constant index {bad[0]!r} '
                                      f'is not obeyed (the node silently uses another policy)', src(ci.module), asg[-1].lineno)
            else:
                r.ok('C15.R9', key, 'stored unchanged for 0, 1 and policy names', src(ci.module), asg[-1].lineno)


CONSUMERS = {'next', 'list', 'tuple', 'sorted', 'sum', 'any', 'all', 'min', 'max', 'zip', 'enumerate', 'set', 'iter', 'islice'}
SELECTORS = {'_get_in_edge_index': 'in_edge_selection', '_get_out_edge_index': 'out_edge_selection'}


def check_consult_sites(p, r):
    """R8 who-may-consult: a user policy (callable or generator held in in/out_edge_selection) is consulted - called, advanced with next(), iterated or
    handed to a consuming builtin - only inside the per-item selector functions.  A consultation anywhere else (constructor, reset, statistics) consumes an
    answer that routes no item: the callable is then consulted more often than once per item and a generator's sequence is shifted."""
    r.rule('C15.R8', 'the user policy is consulted only inside the per-item selector functions', 1)
    n_sites = 0
    for ci in sorted(p.classes.values(), key=lambda c: (c.module, c.name)):
        if not ci.module.startswith('nodes/'):
            continue
        for fname, fi in sorted(ci.methods.items()):
            alias = {}
            for n in ast.walk(fi.node):
                if isinstance(n, ast.Assign) and len(n.targets) == 1 and isinstance(n.targets[0], ast.Name) and self_attr(n.value) in SELECTORS.values():
                    alias[n.targets[0].id] = self_attr(n.value)

            def policy(x):
                a = self_attr(x)
                if a in SELECTORS.values():
                    return a
                if isinstance(x, ast.Name) and x.id in alias:
                    return alias[x.id]
                return None
            for n in ast.walk(fi.node):
                hit = how = None
                if isinstance(n, ast.Call):
                    if policy(n.func):
                        hit, how = policy(n.func), 'called'
                    elif isinstance(n.func, ast.Name) and n.func.id in CONSUMERS and n.args and policy(n.args[0]):
                        hit, how = policy(n.args[0]), f'consumed by {n.func.id}()'
                    elif isinstance(n.func, ast.Attribute) and n.func.attr in ('send', '__next__', '__call__') and policy(n.func.value):
                        hit, how = policy(n.func.value), f'advanced with .{n.func.attr}()'
                elif isinstance(n, (ast.For, ast.comprehension)) and policy(n.iter):
                    hit, how = policy(n.iter), 'iterated'
                if not hit:
                    continue
                n_sites += 1
                key = f'{fi.key}::consults({hit})'
                if SELECTORS.get(fname) == hit:
                    r.ok('C15.R8', key, f'policy {how} inside its per-item selector', src(fi.module), n.lineno)
                else:
                    r.fail('C15.R8', key, f'`self.{hit}` is {how} in {fi.cls}.{fname}, outside the per-item selector '
                                          f'`{[k for k, v in SELECTORS.items() if v == hit][0]}`: the policy is consulted more often than once per routed item '
                                          f'(a generator policy loses an answer, a callable is called for nothing)', src(fi.module), n.lineno)
    if n_sites < 4:
        raise AnalysisError(f'C15.R8: only {n_sites} consultation sites of the edge-selection policies found (expected the selector functions of four node classes)')


# ------------------------------------------------------------------------------------------- selectors
def check_selectors(p, w, r):
    for name, attr, edges in (('_get_out_edge_index', 'out_edge_selection', 'out_edges'), ('_get_in_edge_index', 'in_edge_selection', 'in_edges')):
        fi = w.methods.get(name)
        if fi is None:
            continue
        r.analysed_functions.add(fi.key)
        key = f'{fi.key}::consults-once-and-obeys'
        why = selector_shape(p, w, fi, attr)
        (r.ok if not why else r.fail)('C15.R1', key, 'int → itself; generator → next() once; callable → one call; returned unchanged' if not why else why,
                                      src(fi.module), fi.node.lineno)
        # range assertion inside the selector (R3, first alternative)
        has_hist = f"self.stats['{attr}']" in ast.unparse(fi.node)
        if has_hist:
            k2 = f'{fi.key}::records-returned-value'
            ex = paths.Explorer(p, w.ci.key, tracked=set(), atomic=set(w.methods), unroll=1, interrupt_edges=False)
            ok = True
            npaths = 0
            for pa in ex.paths(fi):
                if pa.raises:
                    continue
                npaths += 1
                ret = next((e.value for e in reversed(pa.events) if e.kind == 'return'), None)
                apps = [e for e in pa.events if e.kind == 'xcall' and e.name == f"self.stats['{attr}'].append"]
                if len(apps) != 1 or not apps[0].args or apps[0].args[0] != ret:
                    ok = False
            ok = ok and npaths > 0
            (r.ok if ok else r.fail)('C15.R2', k2, 'appends exactly the value it returns' if ok else
                                     'the selector does not record exactly the value it returns', src(fi.module), fi.node.lineno)


def selector_shape(p, w, fi, attr):
    """Path rule on the selector: on every completing path the answer is the configured int itself, or the result of exactly one
    next(<selector>) / one call <selector>(), returned unchanged; a selector of another kind is rejected (no completing path for it)."""
    ex = paths.Explorer(p, w.ci.key, tracked=set(), atomic=set(w.methods), unroll=1, interrupt_edges=False)
    SEL = ('self', attr)
    kinds = set()
    n = 0
    for pa in ex.paths(fi):
        if pa.raises:
            continue
        n += 1
        evs = pa.events
        ret = next((e.value for e in reversed(evs) if e.kind == 'return'), None)
        consult = [e for e in evs if (e.kind == 'xcall' and ((e.name == 'next' and e.args and e.args[0] == SEL) or e.name == f'self.{attr}'))
                   or (e.kind == 'call' and e.name == attr)]
        tests = {}
        for e in evs:
            if e.kind == 'cond' and not e.d.get('synthetic'):
                t = e.text.replace(' ', '')
                if t.startswith('isinstance(') and f'self.{attr}' in t and 'int' in t:
                    tests['int'] = e.polarity
                elif t.startswith('hasattr(') and '__next__' in t:
                    tests['gen'] = e.polarity
                elif t.startswith('callable('):
                    tests['call'] = e.polarity
        if tests.get('int'):
            kinds.add('int')
            if consult:
                return 'the constant-index branch consults the selector'
            if ret != SEL:
                return 'constant index branch does not use the configured index'
        elif tests.get('gen') or tests.get('call'):
            kind = 'gen' if tests.get('gen') else 'call'
            kinds.add(kind)
            if len(consult) != 1:
                return (f'generator branch consults the generator {len(consult)} time(s)' if kind == 'gen' else
                        f'callable branch calls the user function {len(consult)} time(s)')
            if (kind == 'gen') != (consult[0].name == 'next'):
                return 'the selector is consulted in the wrong way for its kind (next() on a function / call of a generator)'
            if ret != consult[0].result:
                return f'returns `{short(ret)}`, not the answer itself (the answer is transformed: wrapped instead of obeyed / rejected)'
        else:
            return 'unsupported selector type is not rejected'
    if n == 0:
        return 'no completing path'
    if kinds != {'int', 'gen', 'call'}:
        return f'dispatch covers {sorted(kinds)}, expected int / generator / callable'
    return None


# ------------------------------------------------------------------------------------------- routing
def hist_attrs(w):
    """history keys this node class keeps: subset of {'in_edge_selection','out_edge_selection'} present in the stats dict literal."""
    out = set()
    init = w.ci.methods.get('__init__')
    if init is None:
        return out
    txt = ast.unparse(init.node)
    for k in ('in_edge_selection', 'out_edge_selection'):
        if f"'{k}': []" in txt:
            out.add(k)
    return out


def check_routing(p, w, r):
    hist = hist_attrs(w)
    for root, ps in w.roots.items():
        fi = w.root_funcs[root]
        if root in ('_push_item', '_pull_item'):
            continue
        r.analysed_functions.add(fi.key)
        for side, sel, edges, hkey, route_ops in (('out', '_get_out_edge_index', 'out_edges', 'out_edge_selection', ('put',)),
                                                  ('in', '_get_in_edge_index', 'in_edges', 'in_edge_selection', ('get',))):
            bad1 = bad3 = None
            bad2 = {}
            hist_cfgs = set()
            n_sel = n_fa = 0
            for pa in ps:
                if pa.raises or pa.status == 'loopcut':
                    continue
                evs = pa.events
                sel_calls = [e for e in evs if e.kind == 'call' and e.name == sel]
                explicit = [e for e in evs if e.kind == 'xcall' and e.name == f"self.stats['{hkey}'].append"]
                if side == 'out':
                    routed = [e for e in evs if (e.kind == 'pcall' and e.name == 'put') or (e.kind == 'spawn' and e.func == 'self._push_item')]
                else:
                    routed = [e for e in evs if e.kind == 'pcall' and e.name == 'get' and routed_from_edges(e, edges)]
                if side == 'in' and w.ci.name == 'Combiner':
                    continue        # the combiner takes from every in-edge by recipe (C16), it has no in-edge policy
                if not routed and not sel_calls:
                    continue
                # R1: one selector call per routed item on selector paths (discarded items also consumed one decision)
                disc = [e for e in evs if e.kind == 'setitem' and 'num_item_discarded' in e.target] if side == 'out' else []
                fa_routed = [e for e in routed if uses_first_available(e, evs, edges)]
                sel_routed = [e for e in routed if e not in fa_routed]
                if sel_calls or sel_routed:
                    n_sel += 1
                    fa_disc = len([e for e in evs if e.kind == 'first_available' and e.outcome == 'none'])
                    decided = len(sel_routed) + (len(disc) - fa_disc)
                    if len(sel_calls) != decided:
                        bad1 = (pa, f'{len(sel_calls)} call(s) of {sel}() for {decided} item(s) routed by the policy on this path')
                    # obeyed: the edge used is <edges>[<result of the call>]
                    for e in sel_routed:
                        ev_edge = e.recv_val if e.kind == 'pcall' else (e.args[1] if len(e.args) > 1 else None)
                        if not (ev_edge is not None and ev_edge[0] == 'sub' and ev_edge[1] == ('self', edges)
                                and ev_edge[2][0] == 'sym' and ev_edge[2][1] == f'call:{sel}'):
                            bad1 = (pa, f'the edge used at line {e.line} is {short(ev_edge)}, not self.{edges}[{sel}()]')
                    # R3: range check between the call and the use
                    for c in sel_calls:
                        ci_ = evs.index(c)
                        if not range_checked(w, sel, edges, evs, ci_):
                            bad3 = (pa, f'no range check of the index returned by {sel}() before self.{edges}[...] is indexed')
                if fa_routed:
                    n_fa += 1
                # R2: history
                if hkey in hist:
                    cfg = config_label(evs, side)
                    hist_cfgs.add(cfg)
                    recorded = len(explicit) + len(sel_calls)
                    want = len(routed) + (len(disc) - len([e for e in evs if e.kind == 'first_available' and e.outcome == 'none']) if side == 'out' else 0)
                    if recorded != want:
                        bad2.setdefault(cfg, (pa, f'{want} routing decision(s) but {recorded} record(s) in stats["{hkey}"] on this path '
                                                  f'(the recorded history differs from the routing that happened)'))
                    for x in explicit:
                        v = x.args[0] if x.args else None
                        used = [e for e in routed if e.kind == 'pcall' and e.recv_val is not None and e.recv_val[0] == 'sub' and e.recv_val[2] == v]
                        if not used:
                            bad2.setdefault(cfg, (pa, f'the value recorded at line {x.line} ({short(v)}) is not the index of the edge that is used'))
            base = f'{fi.key}::{side}'
            if n_sel:
                (r.ok if not bad1 else r.fail)('C15.R1', f'{base}-selector-per-item', 'one consultation per routed item, answer used as the index' if not bad1 else bad1[1],
                                               src(fi.module), fi.node.lineno, *([bad1[0].describe()] if bad1 else []))
                (r.ok if not bad3 else r.fail)('C15.R3', f'{base}-range-check', 'range check dominates the indexing' if not bad3 else bad3[1],
                                               src(fi.module), fi.node.lineno, *([bad3[0].describe()] if bad3 else []))
            if hkey in hist and (n_sel or n_fa):
                for cfg in sorted(hist_cfgs):
                    b = bad2.get(cfg)
                    (r.ok if not b else r.fail)('C15.R2', f'{base}-history[{cfg}]', 'one truthful record per routing decision' if not b else b[1],
                                                src(fi.module), fi.node.lineno, *([b[0].describe()] if b else []))
        # R4 FIRST_AVAILABLE order
        seen = {}
        for pa in ps:
            if pa.raises:
                continue
            for e in pa.events:
                if e.kind == 'first_available':
                    k = site(e.fi, e.node, 'first-available-scan', same=lambda n: isinstance(n, ast.For))
                    seen.setdefault(k, (e, e.iter in ('self.out_edges', 'self.in_edges'), f'scans `{e.iter}`'))
                if e.kind == 'pcall' and e.d.get('over'):
                    k = site(e.fi, e.node, f'first-available-reserve:{e.name}')
                    seen.setdefault(k, (e, e.over in ('self.out_edges', 'self.in_edges'), f'reserves over `{e.over}`'))
        for k, (e, ok, what) in sorted(seen.items()):
            (r.ok if ok else r.fail)('C15.R4', k, f'{what} in edge order' if ok else f'{what}: not the node\'s edge list in index order (lowest index no longer wins)',
                                     src(e.fi.module), e.line)


def config_label(evs, side):
    sel = 'out_edge_selection' if side == 'out' else 'in_edge_selection'
    fa = None
    blk = None
    for e in evs:
        if e.kind == 'cond' and not e.d.get('synthetic'):
            if e.text == f"self.{sel} == 'FIRST_AVAILABLE'" and fa is None:
                fa = e.polarity
            elif fa is None and e.d.get('operands') and e.operands[0] in ('Eq', 'NotEq') \
                    and {e.operands[1], e.operands[2]} == {('self', sel), ('const', 'FIRST_AVAILABLE')}:
                fa = e.polarity if e.operands[0] == 'Eq' else (not e.polarity)
            if e.text == 'self.blocking' and blk is None:
                blk = e.polarity
    a = {True: 'first-available', False: 'policy', None: 'any-policy'}[fa]
    if side == 'in':
        return a
    return a + ',' + {True: 'blocking', False: 'non-blocking', None: 'any-mode'}[blk]


def routed_from_edges(e, edges):
    return True


def uses_first_available(e, evs, edges):
    if e.kind == 'spawn':
        v = e.args[1] if len(e.args) > 1 else None
        return v is not None and v[0] == 'first-avail'
    a0 = e.args[0] if e.args else None
    return a0 is not None and a0[0] == 'found'


def range_checked(w, sel, edges, evs, ci_):
    fi = w.methods.get(sel)
    if fi is not None:
        for n in walk_no_nested(fi.node):
            if isinstance(n, ast.Assert) and is_range_test(n.test, edges):
                return True
    for e in evs[ci_ + 1:]:
        if e.kind == 'assert' and is_range_test(e.d['node'].test, edges):
            return True
        if e.kind == 'cond' and not e.d.get('synthetic') and e.d.get('node') is not None:
            t = ast.unparse(e.d['node']).replace(' ', '')
            # a rejection test in any spelling (the whole if-test is looked up: the explorer splits and/or into single comparisons)
            whole = enclosing_test(w, e)
            if whole is not None and f'len(self.{edges})' in ast.unparse(whole).replace(' ', '') and range_guard_ok(whole, edges, accept=False):
                return True
        if (e.kind == 'pcall' and e.name in ('reserve_put', 'reserve_get', 'can_put')) or e.kind == 'spawn':
            break
    # several separate guards (`if i < 0: raise` ... `if i >= len(edges): raise`): the conditions the path has passed, taken together, admit exactly 0..n-1
    from .common import eval_guard, NotEvaluable
    n = 3
    conds = []
    for e in evs[ci_ + 1:]:
        if (e.kind == 'pcall' and e.name in ('reserve_put', 'reserve_get', 'can_put')) or e.kind == 'spawn':
            break
        if e.kind == 'cond' and not e.d.get('synthetic') and e.d.get('node') is not None:
            conds.append((e.d['node'], bool(e.polarity)))

    def admits(v):
        def b(t):
            if t.replace(' ', '') == f'len(self.{edges})':
                return n
            if t.isidentifier() and t not in ('int', 'float', 'str', 'bool', 'type', 'self', 'None', 'True', 'False'):
                return v
            raise KeyError(t)
        used = 0
        for node, pol in conds:
            try:
                if eval_guard(node, b) != pol:
                    return False, used
                used += 1
            except NotEvaluable:
                continue
        return True, used
    try:
        res = {v: admits(v) for v in (-1, 0, n - 1, n, n + 5)}
        if all(u > 0 for _, u in res.values()) and [v for v, (ok_, _) in res.items() if ok_] == [0, n - 1]:
            return True
    except Exception:       # noqa: BLE001
        pass
    return False


def is_range_test(t, edges):
    s_ = ast.unparse(t).replace(' ', '')
    return f'len(self.{edges})' in s_ and range_guard_ok(strip_type_test(t), edges, accept=True)


def strip_type_test(t):
    """`type(i) == int and 0 <= i < n` -> the range part (the type conjunct is not about the range)"""
    if isinstance(t, ast.BoolOp) and isinstance(t.op, ast.And):
        keep = [v for v in t.values if 'type(' not in ast.unparse(v) and 'isinstance(' not in ast.unparse(v)]
        if len(keep) == 1:
            return keep[0]
        if keep:
            return ast.BoolOp(op=ast.And(), values=keep)
    return t


def enclosing_test(w, e):
    """the complete test of the if-statement that the comparison of this cond event belongs to"""
    node = e.d.get('node')
    fi = e.fi
    if node is None or fi is None:
        return None
    for n in ast.walk(fi.node):
        if isinstance(n, (ast.If, ast.While, ast.Assert)) and any(x is node for x in ast.walk(n.test)):
            return n.test
    return None


def short(v):
    s_ = repr(v)
    return s_ if len(s_) < 80 else s_[:77] + '...'


# ------------------------------------------------------------------------------------------- wiring
def check_wiring(p, w, r):
    fi = w.methods.get('reset')
    if fi is None:
        return
    r.analysed_functions.add(fi.key)
    # reset() - where policy names become selectors and constant indices are validated - runs before the process first waits or touches an edge
    beh = w.roots.get('behaviour')
    if beh:
        bfi = w.root_funcs['behaviour']
        keyb = f'{bfi.key}::reset-before-first-item'
        bad = None
        n_ok = 0
        for pa in beh:
            if pa.raises:
                continue
            first = next((i for i, e in enumerate(pa.events) if e.kind in ('yield', 'pcall', 'spawn')), None)
            rs = next((i for i, e in enumerate(pa.events) if e.kind == 'call' and e.name == 'reset'), None)
            if first is None:
                continue
            if rs is None or rs > first:
                bad = pa
            else:
                n_ok += 1
        if bad is not None or n_ok == 0:
            r.fail('C15.R7', keyb, 'behaviour does not run reset() before it first waits or uses an edge: policy names ("ROUND_ROBIN", "RANDOM") are never turned '
                                   'into selectors and a constant index is never range-checked - the node fails (or routes unchecked) at its first item',
                   src(bfi.module), bfi.node.lineno, *([bad.describe()] if bad is not None else []))
        else:
            r.ok('C15.R7', keyb, f'reset() precedes the first wait on {n_ok} path(s)', src(bfi.module), bfi.node.lineno)
    # reset and the private helpers it runs (the validation chain may live in a helper)
    scope, seen, work = [], set(), [fi]
    while work:
        f = work.pop()
        if f.key in seen:
            continue
        seen.add(f.key)
        scope.append(f.node)
        for n in walk_no_nested(f.node):
            if isinstance(n, ast.Call) and isinstance(n.func, ast.Attribute) and isinstance(n.func.value, ast.Name) and n.func.value.id == 'self' \
                    and n.func.attr.startswith('_') and n.func.attr in w.methods:
                work.append(w.methods[n.func.attr])

    def scope_nodes():
        for fn in scope:
            yield from walk_no_nested(fn)
    for attr, tag, edges in (('out_edge_selection', 'OUT', 'out_edges'), ('in_edge_selection', 'IN', 'in_edges')):
        assigns = [n for n in scope_nodes() if isinstance(n, ast.Assign) and any(self_attr(t) == attr for t in n.targets)
                   and isinstance(n.value, ast.Call) and ast.unparse(n.value.func).endswith('get_edge_selector')]
        key = f'{fi.key}::{attr}-wiring'
        if not assigns:
            # does the node accept policy names for this side at all?  (a constructor parameter / attribute of that name, and the selector reads it)
            if p.has_member(w.ci.key, attr) and (w.methods.get('_get_out_edge_index' if tag == 'OUT' else '_get_in_edge_index') is not None) \
                    and any(isinstance(n, ast.Call) and ast.unparse(n.func).endswith('get_edge_selector') for m in w.methods.values() for n in walk_no_nested(m.node)):
                # the class resolves names on the other side but not on this one
                r.fail('C15.R7', key, f'policy names ("ROUND_ROBIN", "RANDOM") of {attr} are never resolved to a selector: the selection helper rejects the string '
                                      f'at the first item', src(fi.module), fi.node.lineno)
            elif w.ci.name in ('Source', 'Machine', 'Splitter', 'Combiner') and tag == 'OUT' or (w.ci.name in ('Machine', 'Splitter') and tag == 'IN'):
                r.fail('C15.R7', key, f'policy names of {attr} are never resolved to a selector (no get_edge_selector call in reset)', src(fi.module), fi.node.lineno)
            continue
        c = assigns[0].value
        args = [ast.unparse(a) for a in c.args]
        ok = len(args) >= 4 and args[0] == f'self.{attr}' and args[1] == 'self' and args[3].strip('\'"') == tag
        # constant index validated against the same edge list
        # judged by what reset() does to representative configurations (any spelling: chained comparison, two conjuncts, raise instead of assert)
        from .common import abstract_rejects
        E3 = ['e0', 'e1', 'e2']
        ok2 = all(abstract_rejects(p, w.ci, fi, {f'self.{attr}': i, f'self.{edges}': E3}, must=False) for i in (-1, 3, 8)) and \
            not any(abstract_rejects(p, w.ci, fi, {f'self.{attr}': i, f'self.{edges}': E3}, must=True) for i in (0, 1, 2))
        if ok and ok2:
            r.ok('C15.R7', key, f'get_edge_selector(self.{attr}, self, env, "{tag}"); constant index asserted within len(self.{edges})', src(fi.module), fi.node.lineno)
        elif not ok:
            r.fail('C15.R7', key, f'policy name of {attr} is resolved with arguments {args} (expected self.{attr}, self, env, "{tag}")', src(fi.module), assigns[0].lineno)
        else:
            r.fail('C15.R7', key, f'a constant {attr} is not range-checked against len(self.{edges}) at start-up: an out-of-range index is not rejected',
                   src(fi.module), fi.node.lineno)


def check_generators(p, r):
    if UTILS not in p.modules:
        raise AnalysisError('anchor vanished: utils/utils.py')
    m = p.modules[UTILS]
    rr = m.functions.get('RoundRobin_edge_selector')
    rnd = m.functions.get('Random_edge_selector')
    ges = m.functions.get('get_edge_selector')
    if rr is None or rnd is None or ges is None:
        raise AnalysisError('anchor vanished: edge selector generators')
    for f in (rr, rnd, ges):
        r.analysed_functions.add(f.key)
    # ---- round robin
    key = f'{rr.key}::successor'
    why = round_robin_shape(rr)
    (r.ok if not why else r.fail)('C15.R5', key, 'i = 0; yield i; i = (i + 1) % len(<edge_type>_edges)' if not why else why, src(UTILS), rr.node.lineno)
    # ---- random
    key = f'{rnd.key}::range'
    why = random_shape(rnd)
    (r.ok if not why else r.fail)('C15.R6', key, 'random.randint(0, len(edges) - 1)' if not why else why, src(UTILS), rnd.node.lineno)
    # ---- names → generators
    key = f'{ges.key}::strategy-table'
    table = None
    for n in list(walk_no_nested(ges.node)) + list(m.tree.body):
        if isinstance(n, ast.Assign) and isinstance(n.value, ast.Dict) and table is None:
            table = {ast.literal_eval(k): ast.unparse(v) for k, v in zip(n.value.keys, n.value.values) if isinstance(k, ast.Constant)}
    ok = table is not None and table.get('ROUND_ROBIN') == 'RoundRobin_edge_selector' and table.get('RANDOM') == 'Random_edge_selector'
    rejects = any(isinstance(n, ast.Raise) for n in walk_no_nested(ges.node))
    lower = any(isinstance(n, ast.Assign) and ast.unparse(n.value) == 'edge_type.lower()' for n in walk_no_nested(ges.node))
    if ok and rejects and lower:
        r.ok('C15.R7', key, 'ROUND_ROBIN / RANDOM mapped to their generators, unknown names rejected, edge_type lower-cased', src(UTILS), ges.node.lineno)
    else:
        r.fail('C15.R7', key, f'strategy table {table} / rejection of unknown names / edge_type normalisation changed', src(UTILS), ges.node.lineno)
    # ---- every call builds its own selector: the value returned is the generator created by THIS call from (node, env, edge_type)
    key = f'{ges.key}::fresh-selector-per-call'
    params = [a.arg for a in ges.node.args.args]
    single = {}
    nass = {}
    for n in walk_no_nested(ges.node):
        if isinstance(n, (ast.Assign, ast.AugAssign, ast.AnnAssign)):
            for t in (n.targets if isinstance(n, ast.Assign) else [n.target]):
                if isinstance(t, ast.Name):
                    nass[t.id] = nass.get(t.id, 0) + 1
                    single[t.id] = n.value if isinstance(n, ast.Assign) else None
    top_level = {id(st) for st in ges.node.body}

    def fresh(e, depth=0):
        if isinstance(e, ast.Name) and nass.get(e.id) == 1 and single.get(e.id) is not None and depth < 4:
            return fresh(single[e.id], depth + 1)          # bound exactly once in the function
        if not isinstance(e, ast.Call) or e.keywords or len(e.args) != 3:
            return False
        f = e.func
        picks = isinstance(f, ast.Subscript) and isinstance(f.slice, ast.Name) and f.slice.id == params[0] \
            or (isinstance(f, ast.Call) and isinstance(f.func, ast.Attribute) and f.func.attr == 'get' and f.args and isinstance(f.args[0], ast.Name) and f.args[0].id == params[0]) \
            or (isinstance(f, ast.Name) and nass.get(f.id) == 1 and isinstance(single.get(f.id), (ast.Subscript, ast.Call)))
        args_ok = [isinstance(a, ast.Name) and a.id for a in e.args] == params[1:4]
        return bool(picks and args_ok)
    rets = [n for n in walk_no_nested(ges.node) if isinstance(n, ast.Return)]
    stale = [n for n in rets if n.value is None or not fresh(n.value)]
    if rets and not stale:
        r.ok('C15.R7', key, 'returns strategies[sel_type](node, env, edge_type), built by this very call', src(UTILS), ges.node.lineno)
    else:
        n = stale[0] if stale else ges.node
        r.fail('C15.R7', key, f'get_edge_selector returns `{ast.unparse(n.value) if getattr(n, "value", None) is not None else "nothing"}`, which is not the generator '
                              f'built by this call from (node, env, edge_type): a selector that is cached / shared serves two sides or two nodes with one rotation '
                              f'(IN and OUT of a node with the same policy name advance the same generator, bound to the edge list of whichever asked first)',
               src(UTILS), n.lineno)


def names_edge_list(expr, param='edge_type') -> bool:
    """the expression builds the attribute name `<edge_type>_edges` from the parameter: f-string, str.format, % or concatenation"""
    T = '\x00T\x00'

    def ev(e):
        if isinstance(e, ast.Constant) and isinstance(e.value, str):
            return e.value
        if isinstance(e, ast.Name) and e.id == param:
            return T
        if isinstance(e, ast.JoinedStr):
            out = ''
            for v in e.values:
                if isinstance(v, ast.Constant):
                    out += str(v.value)
                elif isinstance(v, ast.FormattedValue) and v.format_spec is None and v.conversion in (-1, 115):
                    out += ev(v.value)
                else:
                    raise ValueError
            return out
        if isinstance(e, ast.BinOp) and isinstance(e.op, ast.Add):
            return ev(e.left) + ev(e.right)
        if isinstance(e, ast.BinOp) and isinstance(e.op, ast.Mod) and isinstance(e.left, ast.Constant) and isinstance(e.left.value, str):
            args = e.right.elts if isinstance(e.right, ast.Tuple) else [e.right]
            return e.left.value % tuple(ev(a) for a in args)
        if isinstance(e, ast.Call) and isinstance(e.func, ast.Attribute) and e.func.attr == 'format' and isinstance(e.func.value, ast.Constant) \
                and isinstance(e.func.value.value, str):
            return e.func.value.value.format(*[ev(a) for a in e.args], **{k.arg: ev(k.value) for k in e.keywords})
        if isinstance(e, ast.Call) and isinstance(e.func, ast.Name) and e.func.id == 'str' and len(e.args) == 1:
            return ev(e.args[0])
        raise ValueError
    try:
        return ev(expr) == T + '_edges'
    except Exception:       # noqa: BLE001
        return False


def edges_binding(fn):
    """name bound to getattr(node, f"{edge_type}_edges") inside the generator loop"""
    for n in walk_no_nested(fn.node):
        if isinstance(n, ast.Assign) and isinstance(n.value, ast.Call) and isinstance(n.value.func, ast.Name) and n.value.func.id == 'getattr':
            a = n.value.args
            if len(a) >= 2 and isinstance(a[0], ast.Name) and a[0].id == fn.node.args.args[0].arg and names_edge_list(a[1], fn.node.args.args[2].arg if len(fn.node.args.args) > 2 else 'edge_type'):
                return n.targets[0].id
    return None


def round_robin_shape(fn):
    body = fn.node.body
    init = [n for n in body if isinstance(n, ast.Assign)]
    loops = [n for n in body if isinstance(n, ast.While)]
    if len(init) != 1 or len(loops) != 1:
        return 'expected one initialisation and one loop'
    i = ast.unparse(init[0].targets[0])
    if not (isinstance(init[0].value, ast.Constant) and init[0].value.value == 0):
        return f'the counter starts at {ast.unparse(init[0].value)}, not at 0'
    eds = edge_list_texts(fn)
    if not eds:
        return 'the edge list is not read from the node with getattr(node, f"{edge_type}_edges")'
    ed = sorted(eds)[0]
    lb = loops[0].body
    ys = [k for k, n in enumerate(lb) if isinstance(n, ast.Expr) and isinstance(n.value, ast.Yield)]
    ups = [k for k, n in enumerate(lb) if isinstance(n, (ast.Assign, ast.AugAssign)) and ast.unparse(n.targets[0] if isinstance(n, ast.Assign) else n.target) == i]
    if len(ys) != 1 or ast.unparse(lb[ys[0]].value.value) != i:
        return 'the loop does not yield the counter exactly once per step'
    if len(ups) != 1 or not isinstance(lb[ups[0]], ast.Assign):
        return 'the counter is not updated exactly once per step'
    if ups[0] < ys[0]:
        return 'the counter is advanced before it is yielded (the cycle starts at 1)'
    v = lb[ups[0]].value
    ok = isinstance(v, ast.BinOp) and isinstance(v.op, ast.Mod) and isinstance(v.left, ast.BinOp) and isinstance(v.left.op, ast.Add) \
        and {ast.unparse(v.left.left), ast.unparse(v.left.right)} == {i, '1'} and any(ast.unparse(v.right).replace(' ', '') == f'len({e})' for e in eds)
    if not ok:
        return f'successor is `{ast.unparse(v)}`, expected ({i} + 1) % len({ed})'
    return None


def edge_list_texts(fn):
    """the spellings under which the node's edge list may appear: a name bound to getattr(node, f"{edge_type}_edges") or that call itself"""
    out = set()
    ed = edges_binding(fn)
    if ed is not None:
        out.add(ed)
    node_par = fn.node.args.args[0].arg
    for n in walk_no_nested(fn.node):
        if isinstance(n, ast.Call) and isinstance(n.func, ast.Name) and n.func.id == 'getattr' and len(n.args) == 2 and isinstance(n.args[0], ast.Name) \
                and n.args[0].id == node_par and names_edge_list(n.args[1], fn.node.args.args[2].arg if len(fn.node.args.args) > 2 else 'edge_type'):
            out.add(ast.unparse(n).replace(' ', ''))
    return out


def random_shape(fn):
    eds = edge_list_texts(fn)
    if not eds:
        return 'the edge list is not read from the node with getattr(node, f"{edge_type}_edges")'
    ys = [n for n in walk_no_nested(fn.node) if isinstance(n, ast.Yield)]
    if len(ys) != 1:
        return 'expected one yield'
    v = ys[0].value
    t = ast.unparse(v).replace(' ', '')
    ed = sorted(eds)[0]
    if any(t in (f'random.randint(0,len({e})-1)', f'random.randrange(len({e}))', f'random.randrange(0,len({e}))') for e in eds):
        return None
    return f'draws `{ast.unparse(v)}`, expected random.randint(0, len({ed}) - 1) from the module-level generator'
