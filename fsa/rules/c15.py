from ..model import AnalysisError
PROP = 'C15'
LEVEL = 'other'


def run(p, tier):
    raise AnalysisError('rule module for C15 not implemented yet (fail closed)')
