from ..model import AnalysisError
PROP = 'C16'
LEVEL = 'other'


def run(p, tier):
    raise AnalysisError('rule module for C16 not implemented yet (fail closed)')
