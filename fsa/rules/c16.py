"""C16 - combiner packs exactly its recipe; splitter emits each item once, then the pallet (partial).

  R1 the pallet comes from in_edges[0] and is type-checked (Pallet), ingredients are type-checked (item);
  R2 the number of reserve_get on in-edge k >= 1 is target_quantity_of_each_item[k] (loop-bound flow);
  R3 the drain loop consumes one token, performs one get on the edge that issued it and one add_item of that
     item into the pallet, removes that token and its index entry, and exits only when the token list is empty;
  R4 the splitter pops until pallet.items is empty, disposes of each popped item, and pushes the pallet itself
     after the loop, exactly once; it emits nothing else;
  R5 the pallet's own container operations are total: `Pallet.add_item(x)` stores x on every path that returns (an item the combiner took is
     never silently left out), `Pallet.remove_item()` hands out exactly the element it removes whenever the pallet is not empty.
"""
from __future__ import annotations

import ast

from .. import nodewalk, paths, typestate
from ..model import AnalysisError, Project, self_attr, walk_no_nested
from ..report import Result
from .common import site, src, cond_establishes_equal

PROP = 'C16'
LEVEL = 'other'


def run(p: Project, tier: str) -> Result:
    r = Result(PROP)
    r.explanation = ('Recipe count = reservation count = get count = add_item count (loop-bound flow + counted drain loop with its invariant), pallet '
                     'from edge 0, splitter drains then emits the pallet last. Arrival interleavings are irrelevant to the counts by R3.')
    r.rule('C16.R1', 'pallet taken from in_edges[0] and checked to be a Pallet; ingredients checked to be items', 1)
    r.rule('C16.R2', 'reservations on in-edge k = target_quantity_of_each_item[k], k = 1..n-1', 1)
    r.rule('C16.R3', 'drain loop: one token, one get on its edge, one add_item, both bookkeeping lists popped at the same index, until empty', 1)
    r.rule('C16.R4', 'splitter: every popped item disposed once, pallet pushed exactly once after the loop, nothing else emitted', 2)
    r.not_decided = ['relative timing of pallet and ingredient arrivals (irrelevant to the counts)']
    ws = {w.ci.name: w for w in nodewalk.walks(p)}
    for n in ('Combiner', 'Splitter'):
        if n not in ws:
            raise AnalysisError(f'anchor vanished: {n}')
    check_combiner(ws['Combiner'], r)
    check_splitter(ws['Splitter'], r)
    check_pallet(p, r)
    check_recipe_is_the_users(p, r)
    return r


def check_recipe_is_the_users(p, r):
    """R6: "exactly target_quantity_of_each_item[i] items" is about the vector the user configured - also a quantity of 0 for an in-edge that contributes
    nothing to this product.  The attribute is written once, in the constructor, from the constructor parameter, unchanged; any other write (a
    "normalisation" in reset(), `int(q or 1)`, padding) makes the combiner pack a recipe the user did not ask for."""
    r.rule('C16.R6', 'the recipe vector is stored once, unchanged, from the constructor argument and never rewritten', 1)
    raw = p.raw()
    n = 0
    for rel, m in sorted(raw.modules.items()):
        for cls in [c for c in ast.walk(m.tree) if isinstance(c, ast.ClassDef) and c.name == 'Combiner']:
            for fn in [f for f in cls.body if isinstance(f, ast.FunctionDef)]:
                params = {a.arg for a in fn.args.args}
                for st in ast.walk(fn):
                    tg = st.targets if isinstance(st, ast.Assign) else ([st.target] if isinstance(st, (ast.AugAssign, ast.AnnAssign)) else [])
                    for t in tg:
                        base = t.value if isinstance(t, ast.Subscript) else t
                        if isinstance(base, ast.Attribute) and isinstance(base.value, ast.Name) and base.value.id == 'self' and base.attr == 'target_quantity_of_each_item':
                            n += 1
                            key = f'{rel}::Combiner.{fn.name}::recipe-write#{n}'
                            ok = fn.name == '__init__' and isinstance(st, ast.Assign) and not isinstance(t, ast.Subscript) \
                                and isinstance(st.value, ast.Name) and st.value.id in params
                            if ok:
                                r.ok('C16.R6', key, 'stored from the constructor argument', src(rel), st.lineno)
                            else:
                                r.fail('C16.R6', key, f'the recipe is (re)written in Combiner.{fn.name} with `{ast.unparse(st.value) if getattr(st, "value", None) is not None else "?"}`: '
                                                      f'the combiner packs a vector the user did not configure (a quantity 0 turned into 1, a padded entry ...)',
                                       src(rel), st.lineno)
    if n == 0:
        raise AnalysisError('C16.R6: no write of Combiner.target_quantity_of_each_item found (anchor vanished)')


def check_pallet(p, r):
    r.rule('C16.R5', 'Pallet.add_item stores its argument on every returning path; Pallet.remove_item returns exactly the element it removes', 1)
    try:
        ci = p.cls('helper/pallet.py', 'Pallet')
    except Exception:
        raise AnalysisError('anchor vanished: helper/pallet.py::Pallet')
    add = ci.methods.get('add_item') or next((f for c in p.mro(ci.key) for n_, f in c.methods.items() if n_ == 'add_item'), None)
    if add is None:
        raise AnalysisError('anchor vanished: Pallet.add_item')
    ex = paths.Explorer(p, ci.key, tracked={'items'})
    r.analysed_functions.add(add.key)
    params = [a.arg for a in add.node.args.args if a.arg != 'self']
    ps = ex.paths(add)
    r.paths += len(ps)
    key = f'{add.key}::stores-argument'
    bad = None
    for pa in ps:
        if pa.raises:
            continue
        ops = [e for e in pa.events if e.kind == 'op' and e.list == 'items']
        stores = [e for e in ops if e.op in ('append', 'insert') and params and e.val == ('param', params[0])]
        already = params and any(e.kind == 'cond' and e.polarity is True and e.text.replace(' ', '') == f'{params[0]}inself.items' for e in pa.events)
        if not ops and already:
            continue                    # the very object is already in this pallet: nothing to store
        if len(stores) != 1 or len(ops) != 1:
            conds = [('' if e.polarity else 'not ') + f'({e.text})' for e in pa.events if e.kind == 'cond' and not e.d.get('synthetic')]
            bad = bad or (pa, (f'a path of add_item returns without storing its argument in self.items' + (f' (when {" and ".join(conds)})' if conds else '')
                               if not stores else f'add_item performs {len(ops)} operations on self.items for one item')
                          + ': a pallet can leave the combiner with fewer (or other) items than the combiner took for it')
    if not any(not pa.raises for pa in ps):
        bad = (ps[0] if ps else None, 'add_item has no returning path')
    (r.ok if not bad else r.fail)('C16.R5', key, f'{len(ps)} path(s): the argument is appended to self.items exactly once on every returning path' if not bad else bad[1],
                                  src(add.module), add.node.lineno, *([bad[0].describe()] if bad and bad[0] is not None else []))
    rem = ci.methods.get('remove_item')
    if rem is not None:
        r.analysed_functions.add(rem.key)
        ps = ex.paths(rem)
        r.paths += len(ps)
        key = f'{rem.key}::returns-removed-element'
        bad = None
        for pa in ps:
            if pa.raises:
                continue
            ops = [e for e in pa.events if e.kind == 'op' and e.list == 'items']
            rets = [e for e in pa.events if e.kind == 'return']
            rv = rets[-1].value if rets else ('const', None)
            pops = [e for e in ops if e.op in ('pop', 'remove')]
            if len(ops) != len(pops) or len(pops) > 1:
                bad = bad or (pa, f'remove_item performs {len(ops)} operation(s) on self.items (expected at most one removal)')
            elif pops and pops[0].op == 'pop' and rv != pops[0].result:
                bad = bad or (pa, 'remove_item removes one element but returns something else: the removed item is lost')
            elif not pops and rv != ('const', None):
                bad = bad or (pa, 'remove_item returns an object without removing it from self.items: the item is emitted and stays in the pallet')
            elif not pops:
                empty = any(e.kind == 'cond' and not e.d.get('synthetic') and any(a[0] == '==' for a in (e.d.get('atoms') or [])) for e in pa.events)
                if not empty:
                    bad = bad or (pa, 'remove_item can return without removing anything although the pallet is not known to be empty')
        (r.ok if not bad else r.fail)('C16.R5', key, f'{len(ps)} path(s)' if not bad else bad[1], src(rem.module), rem.node.lineno,
                                      *([bad[0].describe()] if bad else []))


def check_combiner(w, r):
    fi = w.root_funcs['behaviour']
    r.analysed_functions.add(fi.key)
    r.paths += len(w.roots['behaviour'])
    # ---- R2: structural loop-bound flow
    key2 = f'{fi.key}::recipe-reservations'
    scope = closure_nodes(w, fi)
    why = recipe_shape(scope)
    (r.ok if not why else r.fail)('C16.R2', key2, 'for k in range(1, len(in_edges)): for _ in range(recipe[k]): tokens.append(in_edges[k].reserve_get()); index.append(k)'
                                  if not why else why, src(fi.module), fi.node.lineno)
    # ---- R1 / R3: path based
    bad1 = bad3 = None
    n = 0
    for pa in w.roots['behaviour']:
        if pa.raises or pa.status == 'loopcut':
            continue
        evs = pa.events
        gets = [e for e in evs if e.kind == 'pcall' and e.name == 'get']
        if not gets:
            continue
        n += 1
        g0 = gets[0]
        if g0.recv_val != ('sub', ('self', 'in_edges'), ('const', 0)):
            bad1 = (pa, f'the pallet is taken from `{g0.recv}`, not from self.in_edges[0]')
        pallet = g0.result
        tchk = [e for e in evs if cond_establishes_equal(e, 'Pallet') is not None and 'flow_item_type' in e.text]
        if not tchk or cond_establishes_equal(tchk[0], 'Pallet') is not True or evs.index(tchk[0]) < evs.index(g0):
            bad1 = bad1 or (pa, 'the object taken from in_edges[0] is not checked to be a Pallet before it is used')
        adds = [e for e in evs if e.kind == 'pcall' and e.name == 'add_item']
        ing = gets[1:]
        if len(adds) != len(ing):
            bad3 = (pa, f'{len(ing)} ingredient(s) taken but {len(adds)} packed into the pallet')
            continue
        for g, a in zip(ing, adds):
            if a.recv_val != pallet:
                bad3 = (pa, f'the ingredient is packed into `{a.recv}`, which is not the pallet taken from in_edges[0]')
            if not a.args or a.args[0] != g.result:
                bad3 = (pa, 'the object packed is not the item just taken')
            # the edge of the get is in_edges[index_list[token_index]], token_index = tokens.index(chosen)
            rv = g.recv_val
            tok = g.args[0] if g.args else None
            okedge = rv is not None and rv[0] == 'sub' and rv[1] == ('self', 'in_edges')
            idxv = rv[2] if okedge else None
            # idxv is reservation_indx[token_index] -> ('sub', <locallist>, ('lindex', tokens, chosen))
            if not (okedge and idxv is not None and idxv[0] == 'sub' and idxv[2] is not None and idxv[2][0] == 'lindex' and idxv[2][2] == tok):
                bad3 = (pa, f'the ingredient is taken from `{g.recv}`: not the edge recorded for the chosen token (index list [tokens.index(chosen)])')
            # item type check between get and add_item
            seg = evs[evs.index(g):evs.index(a)]
            if not any(cond_establishes_equal(e, 'item') is True and 'flow_item_type' in e.text for e in seg):
                bad1 = bad1 or (pa, 'an ingredient is packed without checking that it is an item (a pallet could be nested)')
        # bookkeeping pops: per ingredient two pops with the same index value
        pops = [e for e in evs if e.kind == 'lop' and e.op == 'pop']
        if len(pops) != 2 * len(ing):
            bad3 = bad3 or (pa, f'{len(pops)} removals from the token/index lists for {len(ing)} consumed token(s) (expected one from each list per token)')
        else:
            for k in range(0, len(pops), 2):
                a_, b_ = pops[k], pops[k + 1]
                if a_.list == b_.list or a_.args != b_.args:
                    bad3 = bad3 or (pa, 'token list and index list are not popped at the same index')
        # exit condition of the drain loop
    toks = token_list_names(scope)
    wl = [x for fn in scope for x in walk_no_nested(fn) if isinstance(x, ast.While) and any(
        ast.unparse(x.test).replace(' ', '') in (f'len({t})>0', t, f'len({t})!=0') for t in toks)]
    if len(wl) != 1:
        bad3 = bad3 or (w.roots['behaviour'][0], 'the drain loop does not run until the token list is empty')
    if n == 0:
        bad1 = (w.roots['behaviour'][0], 'no complete combiner iteration found')
    (r.ok if not bad1 else r.fail)('C16.R1', f'{fi.key}::pallet-source-and-types', 'pallet from in_edges[0], type checks present' if not bad1 else bad1[1],
                                   src(fi.module), fi.node.lineno, *([bad1[0].describe()] if bad1 else []))
    (r.ok if not bad3 else r.fail)('C16.R3', f'{fi.key}::drain-loop', f'counted drain verified on {n} complete path(s)' if not bad3 else bad3[1],
                                   src(fi.module), fi.node.lineno, *([bad3[0].describe()] if bad3 else []))


def closure_nodes(w, fi):
    """the function and the private helpers of its class that it runs (plain calls and `yield from`), transitively"""
    out, seen, work = [], set(), [fi]
    while work:
        f = work.pop()
        if f.key in seen:
            continue
        seen.add(f.key)
        out.append(f.node)
        for n in walk_no_nested(f.node):
            if isinstance(n, ast.Call) and isinstance(n.func, ast.Attribute) and isinstance(n.func.value, ast.Name) and n.func.value.id == 'self' \
                    and n.func.attr.startswith('_') and n.func.attr in w.methods and n.func.attr not in ('_push_item',):
                work.append(w.methods[n.func.attr])
    return out


def token_list_names(scope):
    """local lists that collect reserve_get tokens: X in `X.append(<edge>.reserve_get())`"""
    out = set()
    for fn in scope:
        for c in walk_no_nested(fn):
            if isinstance(c, ast.Call) and isinstance(c.func, ast.Attribute) and c.func.attr == 'append' and isinstance(c.func.value, ast.Name) and c.args \
                    and any(isinstance(x, ast.Call) and isinstance(x.func, ast.Attribute) and x.func.attr == 'reserve_get' for x in ast.walk(c.args[0])):
                out.add(c.func.value.id)
    return out


def recipe_shape(scope):
    outer = None
    for fn in scope:
        for n in walk_no_nested(fn):
            if isinstance(n, ast.For) and isinstance(n.iter, ast.Call) and ast.unparse(n.iter.func) == 'range' and 'in_edges' in ast.unparse(n.iter):
                outer = outer or n
    if outer is None:
        return 'no loop over the ingredient in-edges'
    it = ast.unparse(outer.iter).replace(' ', '')
    if it != 'range(1,len(self.in_edges))':
        return f'ingredient edges are enumerated with `{ast.unparse(outer.iter)}`, expected range(1, len(self.in_edges))'
    k = outer.target.id
    qty = None
    inner = None
    for s_ in outer.body:
        if isinstance(s_, ast.Assign) and ast.unparse(s_.value).replace(' ', '') == f'self.target_quantity_of_each_item[{k}]':
            qty = ast.unparse(s_.targets[0])
        if isinstance(s_, ast.For):
            inner = s_
    if inner is None:
        return 'no inner loop over the required quantity'
    rng = ast.unparse(inner.iter).replace(' ', '')
    if not (rng == f'range({qty})' or rng == f'range(self.target_quantity_of_each_item[{k}])'):
        return f'the inner loop runs `{ast.unparse(inner.iter)}` times, not target_quantity_of_each_item[{k}] times'
    body_txt = [ast.unparse(x).replace(' ', '') for x in inner.body]
    res = [c for x in inner.body for c in ast.walk(x) if isinstance(c, ast.Call) and isinstance(c.func, ast.Attribute) and c.func.attr == 'reserve_get']
    if len(res) != 1:
        return f'{len(res)} reservations per unit of the recipe (expected exactly 1)'
    recv = ast.unparse(res[0].func.value).replace(' ', '')
    edge_alias = {ast.unparse(x.targets[0]): ast.unparse(x.value).replace(' ', '') for x in list(inner.body) + list(outer.body) if isinstance(x, ast.Assign)}
    if not (recv == f'self.in_edges[{k}]' or edge_alias.get(recv) == f'self.in_edges[{k}]'):
        return f'the reservation is made on `{recv}`, not on self.in_edges[{k}]'
    apps = [c for x in inner.body for c in ast.walk(x) if isinstance(c, ast.Call) and isinstance(c.func, ast.Attribute) and c.func.attr == 'append']
    idx_apps = [c for c in apps if c.args and ast.unparse(c.args[0]) == k]
    if len(apps) != 2 or len(idx_apps) != 1:
        return 'each reservation must be recorded once in the token list and once (its edge index) in the index list'
    return None


def check_splitter(w, r):
    fi = w.root_funcs['worker']
    r.analysed_functions.add(fi.key)
    r.paths += len(w.roots['worker'])
    params = [a.arg for a in fi.node.args.args if a.arg != 'self']
    pal = ('param', params[0])
    key = f'{fi.key}::emission-order'
    bad = None
    n = 0
    for pa in w.roots['worker']:
        if pa.raises or pa.status == 'loopcut':
            continue
        n += 1
        evs = pa.events
        seq = []          # ('pop', v) / ('emit', v) / ('discard',)
        for e in evs:
            if e.kind == 'xcall' and e.name.endswith('.items.pop'):
                if not e.name.startswith(params[0] + '.'):
                    bad = (pa, f'items are popped from `{e.name[:-4]}`, not from the incoming pallet')
                if e.args != (('const', 0),):
                    bad = bad or (pa, f'items are popped with {e.args}: not in packing order (pop(0))')
                seq.append(('pop', e.result))
            elif e.kind == 'pcall' and e.name == 'put':
                seq.append(('emit', e.args[1] if len(e.args) > 1 else None))
            elif e.kind == 'spawn' and e.func == 'self._push_item':
                seq.append(('emit', e.args[0] if e.args else None))
            elif e.kind == 'setitem' and 'num_item_discarded' in e.target:
                seq.append(('discard', None))
        cur = None
        done_pallet = 0
        for kind, v in seq:
            if kind == 'pop':
                if cur is not None:
                    bad = bad or (pa, 'a popped item is not disposed of before the next one is popped')
                if done_pallet:
                    bad = bad or (pa, 'an item is popped after the pallet itself was pushed')
                cur = v
            elif kind == 'emit':
                if v == cur and cur is not None:
                    cur = None
                elif v == pal:
                    if cur is not None:
                        bad = bad or (pa, 'the pallet is pushed while a popped item is still undisposed')
                    done_pallet += 1
                else:
                    bad = bad or (pa, f'something other than a popped item or the pallet is emitted ({v})')
            elif kind == 'discard':
                if cur is not None:
                    cur = None
                else:
                    done_pallet += 1
        if cur is not None:
            bad = bad or (pa, 'the last popped item is never emitted')
        if done_pallet != 1:
            bad = bad or (pa, f'the emptied pallet is emitted {done_pallet} time(s) (expected exactly once, after the items)')
    (r.ok if not bad else r.fail)('C16.R4', key, f'items in order, then the pallet once ({n} paths)' if not bad else bad[1],
                                  src(fi.module), fi.node.lineno, *([bad[0].describe()] if bad else []))
    # loop condition: until the pallet is empty
    wl = [x for x in walk_no_nested(fi.node) if isinstance(x, ast.While) and '.items' in ast.unparse(x.test)]
    key2 = f'{fi.key}::drains-until-empty'
    ok = len(wl) == 1 and ast.unparse(wl[0].test).replace(' ', '') in (f'len({params[0]}.items)>0', f'{params[0]}.items', f'len({params[0]}.items)!=0')
    # the pallet push must be after the loop (not inside it)
    (r.ok if ok else r.fail)('C16.R4', key2, 'while len(pallet.items) > 0' if ok else 'the unpacking loop does not run until pallet.items is empty',
                             src(fi.module), fi.node.lineno)
