"""C17 - state-time accounting partitions elapsed time (partial).

  R1 every update_state adds now − last_change to the *old* state's bucket, then assigns the new state, then stamps;
  R2 `self.state` of a node is written only by update_state (and __init__/reset, before the first stamp);
  R3 on every path from process start the clock stamp exists before the first timed wait, or that wait is
     credited explicitly to a state bucket (Machine set-up);
  R4 the guarded increments of Machine.update_state_rep form two partitions of (processing, blocked) ∈ ℕ²;
  R5 update_final_state_time credits [last change, T] exactly once;
  R6 _update_worker_occupancy accumulates into bucket[num_workers] *before* changing num_workers.
"""
from __future__ import annotations

import ast
import itertools

from .. import nodewalk, paths, tables
from ..model import AnalysisError, Project, self_attr, walk_no_nested
from ..report import Result, ctx_of
from .common import site, src

PROP = 'C17'
LEVEL = 'other'

GROUPS = {
    'group-1': ('IDLE_STATE', 'ATLEAST_ONE_PROCESSING_STATE', 'ALL_ACTIVE_BLOCKED_STATE'),
    'group-2': ('IDLE_STATE', 'ALL_ACTIVE_PROCESSING_STATE', 'ATLEAST_ONE_BLOCKED_STATE'),
}
STAMPERS = ('update_state', 'update_state_rep', 'check_thread_state_and_update_splitter_state', 'check_thread_state_and_update_combiner_state')
STATE_WRITERS_OK = ('update_state', '__init__', 'reset')


def run(p: Project, tier: str) -> Result:
    r = Result(PROP)
    r.explanation = ('Shape of the accumulate-then-switch accounting, single writer of the state, stamp before the first timed wait, and an exact '
                     'partition check of the Machine state groups over the sign classes of (processing, blocked). That the time charged equals the '
                     'time actually spent in an activity is not decided.')
    r.rule('C17.R1', 'update_state: bucket[old state] += now − last change; then state := new; then stamp := now', 4)
    r.rule('C17.R2', 'self.state of a node is written only in update_state / __init__ / reset', 5)
    r.rule('C17.R3', 'stamp exists before the first timed wait of the process, or that wait is credited explicitly', 4)
    r.rule('C17.R4', 'Machine.update_state_rep: each documented state group is a partition of (processing, blocked) ∈ ℕ²; every bucket gets exactly `elapsed`', 2)
    r.rule('C17.R5', 'update_final_state_time credits the last interval exactly once', 5)
    r.rule('C17.R6', 'worker occupancy: accumulate into bucket[num_workers] before num_workers changes', 3)
    r.rule('C17.R7', 'every change of a worker thread_state / of the worker list is followed by a recomputation of the state classification before the next suspension', 15)
    r.not_decided = ['that the time charged to processing / blocked / idle equals the time actually spent so (needs the schedule)',
                     'floating-point exactness of the sums']
    nodes = tables.node_classes(p)
    base = tables.find_base(p, 'Node', 'nodes/node.py')
    seen = set()
    for ci in [base] + nodes:
        fi = p.method(ci.key, 'update_state')
        r.ctx = ci.label             # inherited code is judged once per class that uses it
        if fi is not None and (fi.key, ci.label) not in seen:
            seen.add((fi.key, ci.label))
            check_update_state(p, ci.key, fi, r)
    r.ctx = ''
    check_state_writers(p, nodes, r)
    ws = nodewalk.walks(p)
    for w in ws:
        r.ctx = ctx_of(w)
        r.paths += w.npaths
        check_first_wait(w, r)
        check_final(p, w, r)
        check_occupancy(p, w, r)
    check_machine_groups(p, r)
    for w in ws:
        r.ctx = ctx_of(w)
        check_thread_state_pairing(w, r)
        check_blocked_before_out_wait(w, r)
        check_classification(w, r)
        check_worker_registration(w, r)
        check_source_blocked(w, r)
        check_stamp_is_clock(w, r)
    return r


STAMPED = {'update_state': 1, 'update_state_rep': 0}


def check_stamp_is_clock(w, r):
    """R12: the time handed to update_state / update_state_rep is the simulation clock *as it is at the call* - not a duration (`node_setup_time`), not a
    constant, not a clock value read before an earlier suspension.  A stamp that is not the current clock makes the component's own time run backwards
    (or stand still) and books a negative or displaced interval."""
    r.rule('C17.R12', 'the time argument of every state update is the current clock', 8)
    sites = {}
    for root, ps in w.roots.items():
        for pa in ps:
            if pa.raises:
                continue
            for e in pa.events:
                if e.kind != 'call' or e.name not in STAMPED:
                    continue
                i = STAMPED[e.name]
                a = e.args[i] if len(e.args) > i else None
                key = site(e.fi, e.node, f'stamp:{e.name}')
                rec = sites.setdefault(key, {'ok': True, 'e': e, 'pa': pa, 'why': ''})
                if rec['ok'] and not (a is not None and a[0] == 'now' and a[1] == e.epoch):
                    if a is not None and a[0] == 'now':
                        why = 'a clock value read before an earlier suspension point (stale time)'
                    else:
                        why = f'`{short_val(a)}`, which is not the simulation clock'
                    rec.update(ok=False, pa=pa, why=f'{e.name} is stamped with {why}: the component\'s own clock goes backwards or lags, and the interval it '
                                                     f'books is negative or displaced')
    # calls outside the explored process roots (classification helpers): the argument is self.env.now or a parameter handed through
    for name, fi in sorted(w.methods.items()):
        if name in w.roots or fi.cls != w.ci.name:
            continue
        params = {a.arg for a in fi.node.args.args}
        for n in walk_no_nested(fi.node):
            if isinstance(n, ast.Call) and isinstance(n.func, ast.Attribute) and n.func.attr in STAMPED and isinstance(n.func.value, ast.Name) and n.func.value.id == 'self':
                i = STAMPED[n.func.attr]
                a = n.args[i] if len(n.args) > i else None
                key = site(fi, n, f'stamp:{n.func.attr}')
                rec = sites.setdefault(key, {'ok': True, 'e': None, 'pa': None, 'why': '', 'fi': fi, 'line': n.lineno})
                txt = ast.unparse(a).replace(' ', '') if a is not None else ''
                if rec['ok'] and not (txt.endswith('env.now') or (isinstance(a, ast.Name) and a.id in params)):
                    rec.update(ok=False, why=f'{n.func.attr} is stamped with `{txt}`, which is not the simulation clock')
    for key, rec in sorted(sites.items()):
        e = rec['e']
        f_ = src(e.fi.module) if e is not None else src(rec['fi'].module)
        ln = e.line if e is not None else rec['line']
        if rec['ok']:
            r.ok('C17.R12', key, 'stamped with env.now read at the call', f_, ln)
        else:
            r.fail('C17.R12', key, rec['why'], f_, ln, *([rec['pa'].describe()] if rec.get('pa') is not None else []))


def short_val(v):
    t = repr(v)
    return t if len(t) < 70 else t[:67] + '...'


def check_classification(w, r):
    """R9: check_thread_state_and_update_<node>_state maps the worker counts to the node state: no worker → IDLE, some worker processing →
    PROCESSING, all workers blocked → BLOCKED.  Decided by evaluating the (normalised) decision tree for representative counts."""
    from .common import eval_guard, NotEvaluable
    name = next((m for m in REFRESH if m in w.methods and m != 'update_state_rep'), None)
    if name is None:
        return
    r.rule('C17.R9', 'the state classification maps (processing, blocked, workers) to IDLE / PROCESSING / BLOCKED correctly', 2)
    fi = w.methods[name]
    r.analysed_functions.add(fi.key)
    key = f'{fi.key}::classification'
    names = None
    for n in walk_no_nested(fi.node):
        if isinstance(n, ast.Assign) and isinstance(n.value, ast.Call) and ast.unparse(n.value.func) == 'self._count_worker_state' \
                and isinstance(n.targets[0], ast.Tuple) and len(n.targets[0].elts) == 2:
            names = [ast.unparse(e) for e in n.targets[0].elts]
    if names is None:
        r.fail('C17.R9', key, 'the classification does not take (processing, blocked) from _count_worker_state()', src(fi.module), fi.node.lineno)
        return

    def run(stmts, bind):
        for st in stmts:
            if isinstance(st, ast.If):
                return run(st.body if eval_guard(st.test, bind) else st.orelse, bind) or (None if st is not stmts[-1] else None) or run(stmts[stmts.index(st) + 1:], bind)
            if isinstance(st, ast.Raise):
                return 'raise'
            if isinstance(st, ast.Return):
                return None
            if isinstance(st, ast.Expr) and isinstance(st.value, ast.Call) and ast.unparse(st.value.func) == 'self.update_state' and st.value.args \
                    and isinstance(st.value.args[0], ast.Constant):
                return st.value.args[0].value
        return None
    why = None
    for (pv, bv, nv), want in (((0, 0, 0), 'IDLE_STATE'), ((1, 0, 1), 'PROCESSING_STATE'), ((1, 1, 2), 'PROCESSING_STATE'), ((2, 0, 2), 'PROCESSING_STATE'),
                               ((0, 1, 1), 'BLOCKED_STATE'), ((0, 2, 2), 'BLOCKED_STATE')):
        def bind(t, pv=pv, bv=bv, nv=nv):
            t = t.replace(' ', '')
            if t == names[0]:
                return pv
            if t == names[1]:
                return bv
            if t == 'len(self.worker_thread_list)':
                return nv
            if t == 'self.worker_thread_list':
                return [None] * nv
            raise KeyError(t)
        try:
            got = run(fi.node.body, bind)
        except NotEvaluable as e:
            why = f'the decision tree tests `{e}`, which is not a function of the worker counts'
            break
        if got != want:
            why = f'with {pv} processing and {bv} blocked worker(s) of {nv} the node is put into {got or "no state"}, expected {want}'
            break
    if why:
        r.fail('C17.R9', key, why, src(fi.module), fi.node.lineno)
    else:
        r.ok('C17.R9', key, 'IDLE / PROCESSING / BLOCKED for the six representative worker counts', src(fi.module), fi.node.lineno)


def check_worker_registration(w, r):
    """R10: the classification counts the processes in worker_thread_list, the occupancy buckets count granted worker slots.  On every path of
    `behaviour` a spawned worker is appended to worker_thread_list and a granted slot is followed by _update_worker_occupancy(ADD) before the next
    suspension; on every path of `worker` the slot release is followed by the removal from the list and _update_worker_occupancy(REMOVE)."""
    if not any(m in w.methods for m in REFRESH) or 'worker' not in w.roots or '_update_worker_occupancy' not in w.methods:
        return
    r.rule('C17.R10', 'spawned workers are registered / granted slots are counted (ADD) and both are undone when the worker ends (REMOVE)', 6)
    sites = {}

    def note(key, e, pa, ok, why):
        rec = sites.setdefault(key, {'ok': True, 'e': e, 'pa': pa, 'why': ''})
        if not ok and rec['ok']:
            rec.update(ok=False, pa=pa, why=why)
    for pa in w.roots.get('behaviour', []):
        if pa.raises or pa.status == 'loopcut':
            continue
        evs = pa.events
        for i, e in enumerate(evs):
            if e.kind == 'spawn' and e.func == 'self.worker':
                seg_end = next((j for j in range(i + 1, len(evs)) if evs[j].kind == 'yield'), len(evs))
                reg = any(x.kind == 'xcall' and x.name == 'self.worker_thread_list.append' and x.args and x.args[0] == e.result for x in evs[i:seg_end])
                note(site(e.fi, e.node, 'worker-registered'), e, pa, reg,
                     'a worker process is started but not appended to worker_thread_list before the process suspends: the state classification does not count it '
                     '(its processing / blocked time is charged to IDLE)')
            if e.kind == 'yield' and e.value is not None and e.value[0] == 'presult' and e.value[1] == 'request':
                seg_end = next((j for j in range(i + 1, len(evs)) if evs[j].kind == 'yield'), len(evs))
                add = any(x.kind == 'call' and x.name == '_update_worker_occupancy' and x.args and x.args[0] == ('const', 'ADD') for x in evs[i + 1:seg_end])
                note(site(e.fi, e.node, 'slot-counted'), e, pa, add,
                     'a worker slot is granted but _update_worker_occupancy("ADD") does not run before the next suspension: the occupancy buckets undercount')
    for pa in w.roots['worker']:
        if pa.raises or pa.status == 'loopcut':
            continue
        evs = pa.events
        for i, e in enumerate(evs):
            if e.kind == 'pcall' and e.name == 'release':
                rest = evs[i:]
                rem = any(x.kind == 'call' and x.name == '_update_worker_occupancy' and x.args and x.args[0] == ('const', 'REMOVE') for x in rest)
                unreg = any(x.kind == 'xcall' and x.name == 'self.worker_thread_list.remove' for x in rest) or \
                    any(x.kind == 'cond' and x.polarity is False and 'inself.worker_thread_list' in x.text.replace(' ', '') for x in rest)
                note(site(e.fi, e.node, 'slot-released'), e, pa, rem and unreg,
                     'the worker releases its slot but ' + ('_update_worker_occupancy("REMOVE") does not run' if not rem else 'it stays in worker_thread_list') +
                     ' on this path: occupancy / state classification keep counting a finished worker')
    for key, rec in sorted(sites.items()):
        e = rec['e']
        r.analysed_functions.add(e.fi.key)
        if rec['ok']:
            r.ok('C17.R10', key, 'paired on every path', src(e.fi.module), e.line)
        else:
            r.fail('C17.R10', key, rec['why'], src(e.fi.module), e.line, rec['pa'].describe())


def check_source_blocked(w, r):
    """R11 (Source): while the source waits for room downstream it is in BLOCKED_STATE: at every suspension on a put reservation, any_of over put
    reservations or its push process, the last update_state of the path set BLOCKED_STATE - otherwise that time is charged to GENERATING."""
    if w.ci.name != 'Source' or 'behaviour' not in w.roots:
        return
    r.rule('C17.R11', 'Source: BLOCKED_STATE is recorded before every wait for room downstream on blocking paths', 2)
    sites = {}
    for pa in w.roots['behaviour']:
        if pa.raises:
            continue
        cur = None
        put_lists, put_waits = set(), set()
        blocking = None
        for e in pa.events:
            if e.kind == 'cond' and e.text == 'self.blocking':
                blocking = e.polarity
            if e.kind == 'call' and e.name == 'update_state' and e.args and e.args[0][0] == 'const':
                cur = e.args[0][1]
            elif e.kind == 'pcall' and e.name == 'reserve_put':
                (put_lists if e.over is not None else put_waits).add(e.result)
            elif e.kind == 'xcall' and e.name.endswith('any_of') and e.args and e.args[0] in put_lists:
                put_waits.add(e.result)
            elif e.kind == 'spawn' and '_push_item' in e.func:
                put_waits.add(e.result)
            elif e.kind == 'yield' and e.value in put_waits and blocking:
                key = site(e.fi, e.node, 'blocked-before-out-wait')
                rec = sites.setdefault(key, {'ok': True, 'e': e, 'pa': pa, 'why': ''})
                if cur != 'BLOCKED_STATE' and rec['ok']:
                    rec.update(ok=False, pa=pa, why=f'the source waits for room downstream (`{e.text}`) while its recorded state is {cur}: the wait is charged to that state, '
                                                    f'not to BLOCKED_STATE')
    for key, rec in sorted(sites.items()):
        e = rec['e']
        if rec['ok']:
            r.ok('C17.R11', key, 'BLOCKED_STATE recorded on every blocking path reaching this wait', src(e.fi.module), e.line)
        else:
            r.fail('C17.R11', key, rec['why'], src(e.fi.module), e.line, rec['pa'].describe())


REFRESH = ('update_state_rep', 'check_thread_state_and_update_splitter_state', 'check_thread_state_and_update_combiner_state')


def check_thread_state_pairing(w, r):
    """R7: the per-state totals are driven by a *stored* classification (state_rep / state) that is recomputed from the workers'
    thread_state by update_state_rep / check_thread_state_and_update_*.  Every change of what that classification counts - a worker's
    thread_state, membership of worker_thread_list - must therefore be followed by a recomputation before the process suspends or ends;
    otherwise the whole following wait is charged to the previous state."""
    if not any(m in w.methods for m in REFRESH):
        return
    sites = {}
    for root, ps in w.roots.items():
        for pa in ps:
            if pa.raises or pa.status == 'loopcut':
                continue
            pending = []
            for e in pa.events:
                changed = None
                if e.kind == 'setattr' and e.attr == 'thread_state':
                    changed = f'{e.target} = {e.value[1] if e.value and e.value[0] == "const" else "…"}'
                elif e.kind == 'xcall' and e.name in ('self.worker_thread_list.append', 'self.worker_thread_list.remove'):
                    changed = e.name
                if changed is not None:
                    pending.append((e, changed))
                    key = ts_key(e, changed)
                    sites.setdefault(key, {'ok': True, 'e': e, 'pa': pa, 'what': changed})
                elif e.kind == 'call' and e.name in REFRESH:
                    pending = []
                elif e.kind == 'yield':
                    flush(pending, sites, pa, f'the process suspends on `{e.text}` (line {e.line})')
                    pending = []
            flush(pending, sites, pa, 'the process ends / loops back')
    for key, rec in sorted(sites.items()):
        e = rec['e']
        r.analysed_functions.add(e.fi.key)
        if rec['ok']:
            r.ok('C17.R7', key, 'classification recomputed before the next suspension on every path', src(e.fi.module), e.line)
        else:
            r.fail('C17.R7', key, rec['why'], src(e.fi.module), e.line, rec['pa'].describe())


def check_blocked_before_out_wait(w, r):
    """R8: a worker thread that is about to wait for room downstream (a put reservation, any_of over put reservations, or its push process)
    carries thread_state == BLOCKED_STATE at that suspension on every path - including paths on which a loop that usually sets it runs
    zero times (an empty pallet).  Otherwise the wait is charged to PROCESSING."""
    if not any(m in w.methods for m in REFRESH) or 'worker' not in w.roots:
        return
    r.rule('C17.R8', 'a worker thread is marked BLOCKED_STATE at every suspension that waits for room downstream', 6)
    sites = {}
    for pa in w.roots['worker']:
        if pa.raises:
            continue
        cur = 'PROCESSING_STATE'        # set by the spawner right after env.process(self.worker(...))
        put_lists = set()
        put_waits = set()
        for e in pa.events:
            if e.kind == 'setattr' and e.attr == 'thread_state' and e.target.startswith('self.env.active_process'):
                cur = e.value[1] if e.value and e.value[0] == 'const' else '?'
            elif e.kind == 'pcall' and e.name == 'reserve_put':
                (put_lists if e.over is not None else put_waits).add(e.result)
            elif e.kind == 'xcall' and e.name.endswith('any_of') and e.args and e.args[0] in put_lists:
                put_waits.add(e.result)
            elif e.kind == 'spawn' and '_push_item' in e.func:
                put_waits.add(e.result)
            elif e.kind == 'yield' and e.value in put_waits:
                key = site(e.fi, e.node, 'blocked-before-out-wait')
                rec = sites.setdefault(key, {'ok': True, 'e': e, 'pa': pa, 'why': ''})
                if cur != 'BLOCKED_STATE' and rec['ok']:
                    rec.update(ok=False, pa=pa, why=f'the worker waits for room downstream (`{e.text}`) while its thread_state is still {cur}: on this path nothing marked it '
                                                    f'BLOCKED_STATE (a loop that usually does may run zero times), so the wait is charged to the processing state')
    for key, rec in sorted(sites.items()):
        e = rec['e']
        r.analysed_functions.add(e.fi.key)
        if rec['ok']:
            r.ok('C17.R8', key, 'BLOCKED_STATE on every path reaching this wait', src(e.fi.module), e.line)
        else:
            r.fail('C17.R8', key, rec['why'], src(e.fi.module), e.line, rec['pa'].describe())


def ts_key(e, changed):
    n = e.d.get('node')
    if n is None:
        return f'{e.fi.key}::thread-state-change@{changed}'
    if isinstance(n, ast.Assign):
        return site(e.fi, n, 'thread_state-assignment', same=lambda x: isinstance(x, ast.Assign) and any(isinstance(t, ast.Attribute) and t.attr == 'thread_state' for t in x.targets))
    return site(e.fi, n, 'worker-list-change')


def flush(pending, sites, pa, where):
    for e, changed in pending:
        key = ts_key(e, changed)
        rec = sites[key]
        if rec['ok']:
            rec.update(ok=False, pa=pa, why=f'`{changed}` changes what the state classification counts, but no update_state_rep / check_thread_state_and_update_* '
                                            f'runs before {where}: the time that follows is charged to the previous (e.g. processing instead of blocked) state')


BUCKETS = 'total_time_spent_in_states'
STAMP = ('sub', ('self', 'stats'), ('const', 'last_state_change_time'))


def _eff_paths(p, cls_key, fi):
    ex = paths.Explorer(p, cls_key, tracked=set(), atomic=set(), unroll=1, track_attrs=True, interrupt_edges=False)
    return [pa for pa in ex.paths(fi) if not pa.raises]


def _guard_false(pa):
    """the path took the branch on which the state or the stamp does not exist yet (nothing to credit)"""
    for e in pa.events:
        if e.kind != 'cond' or e.d.get('synthetic'):
            continue
        t = e.text.replace(' ', '')
        if 'isnotNone' in t and not e.polarity:
            return True
        if 'isNone' in t and e.polarity:
            return True
    return False


def _credits(pa):
    """[(key value, increment as a linear form or None, event)] for every write to a per-state time bucket on the path"""
    out = []
    for e in pa.events:
        if e.kind != 'setitem' or BUCKETS not in e.base:
            continue
        inc = None
        if e.aug and e.aug[0] == 'Add':
            inc = paths.Explorer.num_of(e.aug[1])
        elif not e.aug:
            f = paths.Explorer.num_of(e.value)
            if f is not None:
                # new value = <old value of the same bucket> + increment : drop the single atom that reads the bucket (subscript or .get)
                olds = [k for k in f if (k[0] == 'sub' and k[2] == e.key_val) or (k[0] == 'callres' and BUCKETS in k[1]) or (k[0] == 'const')]
                olds = [k for k in olds if f[k] == 1]
                if len(olds) == 1:
                    inc = {k: c for k, c in f.items() if k != olds[0]}
        out.append((e.key_val, inc, e))
    return out


def _lf(*terms):
    out = {}
    for v, c in terms:
        out[v] = out.get(v, 0) + c
    return out


def check_update_state(p, cls_key, fi, r):
    """Symbolic effect of update_state on every path: with state and stamp present, bucket[old state] += now − old stamp exactly once;
    afterwards state == new and stamp == now.  Cells are tracked, so a stamp refreshed too early changes the computed increment."""
    r.analysed_functions.add(fi.key)
    key = f'{fi.key}::accumulate-then-switch'
    par = [a.arg for a in fi.node.args.args if a.arg != 'self']
    if len(par) < 2:
        r.fail('C17.R1', key, 'unexpected signature', src(fi.module), fi.node.lineno)
        return
    new, now = ('param', par[0]), ('param', par[1])
    why = bad = None
    n_acc = 0
    for pa in _eff_paths(p, cls_key, fi):
        r.paths += 1
        cr = _credits(pa)
        env = pa.st.env
        if env.get('self.state') != new:
            why, bad = 'the new state is not recorded on every path', pa
        elif env.get("cell:self.stats['last_state_change_time']") != now:
            why, bad = 'the change time is not stamped with the given time on every path', pa
        if _guard_false(pa):
            if cr:
                why, bad = 'time is credited although no previous state / stamp exists', pa
            continue
        n_acc += 1
        if len(cr) != 1:
            why, bad = f'{len(cr)} credits to a state bucket on a path with a previous state (expected exactly 1)', pa
            continue
        kv, inc, e = cr[0]
        if kv != ('self', 'state'):
            why, bad = 'the elapsed time is credited to another bucket than that of the *old* state (the state is switched before the credit)', pa
        elif inc != _lf((now, 1), (STAMP, -1)):
            why, bad = 'the credited amount is not `current_time − last_state_change_time` (old stamp)', pa
    if n_acc == 0:
        why = why or 'no accumulating path'
    if why:
        r.fail('C17.R1', key, why, src(fi.module), fi.node.lineno, bad.describe() if bad else None)
    else:
        r.ok('C17.R1', key, 'old bucket += now − last; state := new; stamp := now', src(fi.module), fi.node.lineno)


def check_state_writers(p, nodes, r):
    for ci in nodes:
        for c in p.mro(ci.key):
            for fi in c.methods.values():
                for n in walk_no_nested(fi.node):
                    if isinstance(n, (ast.Assign, ast.AugAssign)):
                        for t in (n.targets if isinstance(n, ast.Assign) else [n.target]):
                            if self_attr(t) == 'state':
                                key = f'{fi.key}::write(self.state)'
                                if fi.name in STATE_WRITERS_OK:
                                    r.ok('C17.R2', key, f'state written in {fi.name}', src(fi.module), n.lineno)
                                else:
                                    r.fail('C17.R2', key, f'`self.state` is assigned in {fi.name}, bypassing update_state: the time in the old state is credited '
                                                          f'to the wrong bucket', src(fi.module), n.lineno)
    # reset() must run before the first stamp: it is called at the top of behaviour
    for ci in nodes:
        b = p.method(ci.key, 'behaviour')
        rs = p.method(ci.key, 'reset')
        if b is None or rs is None:
            continue
        writes = any(isinstance(n, ast.Assign) and any(self_attr(t) == 'state' for t in n.targets) for n in walk_no_nested(rs.node))
        if not writes:
            continue
        key = f'{b.key}::reset-before-first-stamp'
        calls = [n for n in walk_no_nested(b.node) if isinstance(n, ast.Call) and ast.unparse(n.func) == 'self.reset']
        loops = [n for n in b.node.body if isinstance(n, ast.While)]
        ok = len(calls) == 1 and loops and calls[0].lineno < loops[0].lineno
        (r.ok if ok else r.fail)('C17.R2', key, 'reset() runs once, before the process loop' if ok else
                                 'reset() (which overwrites self.state) is not called exactly once before the process loop', src(b.module), b.node.lineno)


def check_first_wait(w, r):
    fi = w.root_funcs.get('behaviour')
    if fi is None:
        return
    r.analysed_functions.add(fi.key)
    key = f'{fi.key}::stamp-before-first-wait'
    init_stamp_none = True
    init = w.ci.methods.get('__init__')
    if init is not None:
        txt = ast.unparse(init.node).replace(' ', '')
        if "'last_state_change_time':0.0" in txt or "'last_state_change_time':0," in txt:
            init_stamp_none = False
    bad = None
    n = 0
    for pa in w.roots['behaviour']:
        if pa.raises:
            continue
        evs = pa.events
        stamped = not init_stamp_none
        for i, e in enumerate(evs):
            if e.kind == 'call' and e.name in STAMPERS:
                stamped = True
            if e.kind == 'yield' and e.cls == 'timeout':
                n += 1
                if not stamped:
                    # explicit credit of this wait before the next yield?
                    arg = None
                    for x in evs[:i]:
                        if x.kind == 'xcall' and x.d.get('result') == e.value:
                            arg = x.args[0] if x.args else None
                    credited = False
                    for x in evs[i + 1:]:
                        if x.kind == 'yield':
                            break
                        if x.kind == 'setitem' and 'total_time_spent_in_states' in x.target and x.aug and x.aug[0] == 'Add' and x.aug[1] == arg:
                            credited = True
                    if not credited:
                        bad = (pa, f'the process waits on `{e.text}` before any state-change stamp exists and the wait is not credited explicitly: '
                                   f'that period is lost from the per-state totals (they add up to T minus the wait)')
                break
    if n == 0:
        return
    (r.ok if not bad else r.fail)('C17.R3', key, 'stamped (or credited explicitly) on every path' if not bad else bad[1], src(fi.module), fi.node.lineno,
                                  *([bad[0].describe()] if bad else []))


def check_final(p, w, r):
    fi = w.methods.get('update_final_state_time')
    if fi is None:
        r.fail('C17.R5', f'{w.ci.label}.update_final_state_time::once', 'update_final_state_time missing', src(w.ci.module), w.ci.node.lineno)
        return
    r.analysed_functions.add(fi.key)
    key = f'{fi.key}::once'
    par = [a.arg for a in fi.node.args.args if a.arg != 'self']
    T = ('param', par[0]) if par else None
    ex = paths.Explorer(p, w.ci.key, tracked=set(), atomic={'update_state_rep', 'update_state'}, unroll=1, track_attrs=True, interrupt_edges=False)
    why = bad = None
    n = 0
    for pa in ex.paths(fi):
        if pa.raises or pa.status == 'loopcut':
            continue
        if _guard_false(pa):
            continue
        n += 1
        cr = _credits(pa)
        reps = [e for e in pa.events if e.kind == 'call' and e.name in ('update_state_rep',) and e.args and e.args[0] == T]
        if reps:
            if len(reps) != 1 or cr:
                why, bad = 'the final interval is credited more than once', pa
            continue
        if len(cr) != 1:
            why, bad = f'{len(cr)} credits of the final interval to the current state (expected exactly 1)', pa
            continue
        kv, inc, e = cr[0]
        if kv != ('self', 'state'):
            why, bad = 'the final interval is not credited to the current state', pa
        elif inc != _lf((T, 1), (STAMP, -1)):
            why, bad = 'the credited amount is not `T − last_state_change_time`', pa
    if n == 0:
        why = why or 'no crediting path'
    # nodes that keep occupancy buckets also close the last occupancy interval
    if not why and '_update_worker_occupancy' in w.methods:
        closes = any(isinstance(x, ast.Call) and ast.unparse(x.func) == 'self._update_worker_occupancy' and
                     ((x.args and isinstance(x.args[0], ast.Constant) and x.args[0].value == 'UPDATE') or
                      any(k.arg == 'action' and isinstance(k.value, ast.Constant) and k.value.value == 'UPDATE' for k in x.keywords))
                     for x in walk_no_nested(fi.node))
        if not closes:
            why = ('the final interval is not credited to the worker-occupancy buckets (_update_worker_occupancy("UPDATE") missing): the buckets add up to less '
                   'than the elapsed time')
    if why:
        r.fail('C17.R5', key, why, src(fi.module), fi.node.lineno, bad.describe() if bad else None)
    else:
        r.ok('C17.R5', key, 'credits [last change, T] once', src(fi.module), fi.node.lineno)


def check_occupancy(p, w, r):
    """_update_worker_occupancy(action): on every path that changes num_workers or restamps, the time since the last occupancy change is
    first credited to the bucket of the *old* occupancy; ADD / REMOVE change num_workers by exactly +1 / −1."""
    fi = w.methods.get('_update_worker_occupancy')
    if fi is None:
        return
    r.analysed_functions.add(fi.key)
    key = f'{fi.key}::accumulate-before-change'
    ex = paths.Explorer(p, w.ci.key, tracked=set(), atomic=set(), unroll=1, track_attrs=True, interrupt_edges=False)
    par = [a.arg for a in fi.node.args.args if a.arg != 'self']
    why = bad = None
    kinds = set()
    OLD_N, OLD_T = ('self', 'num_workers'), ('self', 'time_last_occupancy_change')
    for pa in ex.paths(fi):
        if pa.raises:
            continue
        env = pa.st.env
        action = None
        for e in pa.events:
            if e.kind == 'cond' and e.polarity and e.d.get('operands') and e.operands[0] == 'Eq' and e.operands[1] == ('param', par[0] if par else '?') \
                    and e.operands[2] and e.operands[2][0] == 'const':
                action = e.operands[2][1]
        newn = env.get('self.num_workers', OLD_N)
        dn = None
        f = paths.Explorer.num_of(newn)
        if f is not None:
            g = dict(f)
            g[OLD_N] = g.get(OLD_N, 0) - 1
            g = {k: c for k, c in g.items() if c}
            dn = 0 if not g else g.get(('one',)) if set(g) == {('one',)} else None
        restamped = 'self.time_last_occupancy_change' in env
        credits = [e for e in pa.events if e.kind == 'setitem' and 'time_per_work_occupancy' in e.base]
        if not restamped and dn == 0 and not credits:
            continue            # nothing happens on this path
        kinds.add(action)
        if len(credits) != 1:
            why, bad = f'{len(credits)} credits to the occupancy buckets on a path that changes the occupancy or its stamp (expected 1)', pa
            continue
        c = credits[0]
        inc = paths.Explorer.num_of(c.aug[1]) if c.aug and c.aug[0] == 'Add' else None
        epoch = c.epoch
        if c.key_val != OLD_N:
            why, bad = 'num_workers changes before the elapsed time is credited: the time is charged to the new occupancy, not the old one', pa
        elif inc != _lf((('now', epoch), 1), (OLD_T, -1)):
            why, bad = 'the credited amount is not `now − time_last_occupancy_change` (old stamp)', pa
        elif env.get('self.time_last_occupancy_change', (None,))[0] != 'now':
            why, bad = 'the occupancy stamp is not refreshed with the clock', pa
        elif action == 'ADD' and dn != 1:
            why, bad = 'ADD does not increase num_workers by one', pa
        elif action == 'REMOVE' and dn != -1:
            why, bad = 'REMOVE does not decrease num_workers by one', pa
        elif action not in ('ADD', 'REMOVE') and dn != 0:
            why, bad = f'action {action!r} changes num_workers', pa
    if not why and not {'ADD', 'REMOVE'} <= kinds:
        why = f'only the branches {sorted(str(k) for k in kinds)} of ADD / REMOVE / UPDATE found'
    if why:
        r.fail('C17.R6', key, why, src(fi.module), fi.node.lineno, bad.describe() if bad else None)
    else:
        r.ok('C17.R6', key, 'ADD / REMOVE / UPDATE: accumulate into the old occupancy, then change, then stamp', src(fi.module), fi.node.lineno)


# ------------------------------------------------------------------------------------------- R4
class NotSignTest(Exception):
    pass


def eval_sign(node, rep):
    """evaluate a test over previous_state_rep == rep; only comparisons of its components with 0 and with tuples of 0 are allowed."""
    if isinstance(node, ast.BoolOp):
        vals = [eval_sign(v, rep) for v in node.values]
        return all(vals) if isinstance(node.op, ast.And) else any(vals)
    if isinstance(node, ast.UnaryOp) and isinstance(node.op, ast.Not):
        return not eval_sign(node.operand, rep)
    if isinstance(node, ast.Compare) and len(node.ops) == 1:
        def val(x):
            if isinstance(x, ast.Name) and x.id == 'previous_state_rep':
                return rep
            if isinstance(x, ast.Subscript) and isinstance(x.value, ast.Name) and x.value.id == 'previous_state_rep' and isinstance(x.slice, ast.Constant):
                return rep[x.slice.value]
            if isinstance(x, ast.Constant) and x.value == 0:
                return 0
            if isinstance(x, ast.Tuple) and all(isinstance(e, ast.Constant) and e.value == 0 for e in x.elts):
                return tuple(0 for _ in x.elts)
            raise NotSignTest(ast.unparse(x))
        a, b = val(node.left), val(node.comparators[0])
        op = node.ops[0]
        if isinstance(op, ast.Eq):
            return a == b
        if isinstance(op, ast.NotEq):
            return a != b
        if isinstance(a, tuple) or isinstance(b, tuple):
            raise NotSignTest('ordering on tuples')
        if isinstance(op, ast.Gt):
            return a > b
        if isinstance(op, ast.GtE):
            return a >= b
        if isinstance(op, ast.Lt):
            return a < b
        if isinstance(op, ast.LtE):
            return a <= b
    raise NotSignTest(ast.unparse(node))


def _cell_truth(op, lv, rv, cell):
    """truth of a comparison under the sign class `cell` of the previous (processing, blocked) pair; None if it is not about that pair"""
    REP = ('self', 'state_rep')

    def val(v):
        if v == REP:
            return cell
        if v is not None and v[0] == 'sub' and v[1] == REP and v[2][0] == 'const' and v[2][1] in (0, 1):
            return cell[v[2][1]]
        if v is not None and v[0] == 'const' and v[1] == 0:
            return 0
        if v is not None and v[0] == 'tuple' and all(x == ('const', 0) for x in v[1]):
            return tuple(0 for _ in v[1])
        return None
    a, b = val(lv), val(rv)
    if a is None or b is None or (lv != REP and (lv is None or lv[0] != 'sub') and rv != REP and (rv is None or rv[0] != 'sub')):
        return None
    if op == 'Eq':
        return a == b
    if op == 'NotEq':
        return a != b
    if isinstance(a, tuple) or isinstance(b, tuple):
        raise NotSignTest('ordering on tuples')
    return {'Gt': a > b, 'GtE': a >= b, 'Lt': a < b, 'LtE': a <= b}.get(op)


# what each documented state name says about the sign class (processing, blocked) - read off the names, confirmed against the class docstring
MEANING = {
    'IDLE_STATE': lambda c: c == (0, 0),
    'ATLEAST_ONE_PROCESSING_STATE': lambda c: c[0] == 1,
    'ALL_ACTIVE_PROCESSING_STATE': lambda c: c[0] == 1 and c[1] == 0,
    'ATLEAST_ONE_BLOCKED_STATE': lambda c: c[1] == 1,
    'ALL_ACTIVE_BLOCKED_STATE': lambda c: c[1] == 1 and c[0] == 0,
}


def check_machine_groups(p, r):
    """Path rule on Machine.update_state_rep: for each sign class of the previous (processing, blocked) pair, every path consistent with it
    credits exactly one member of each documented state group, and with exactly the elapsed time (now − old stamp)."""
    ci = p.cls('nodes/machine.py', 'Machine')
    fi = ci.methods.get('update_state_rep')
    if fi is None:
        raise AnalysisError('Machine.update_state_rep missing')
    r.analysed_functions.add(fi.key)
    par = [a.arg for a in fi.node.args.args if a.arg != 'self']
    now = ('param', par[0]) if par else None
    ex = paths.Explorer(p, ci.key, tracked=set(), atomic={'_count_worker_state'}, unroll=1, track_attrs=True, interrupt_edges=False)
    pas = [pa for pa in ex.paths(fi) if not pa.raises and not _guard_false(pa)]
    cells = [(0, 0), (0, 1), (1, 0), (1, 1)]     # sign classes of (processing, blocked); tests compare with 0 only
    bad_amount = None
    stamp_bad = None
    per_cell = {c: [] for c in cells}
    problem = None
    for pa in pas:
        r.paths += 1
        credited = []
        for e in pa.events:
            if e.kind == 'setitem' and BUCKETS in e.base and e.key_val and e.key_val[0] == 'const':
                inc = paths.Explorer.num_of(e.aug[1]) if e.aug and e.aug[0] == 'Add' else None
                credited.append(e.key_val[1])
                if inc != _lf((now, 1), (STAMP, -1)):
                    bad_amount = (e.key_val[1], pa)
        if pa.st.env.get("cell:self.stats['last_state_change_time']") != now:
            stamp_bad = pa
        try:
            for cell in cells:
                ok = True
                for e in pa.events:
                    if e.kind == 'cond' and e.d.get('operands'):
                        t = _cell_truth(e.operands[0], e.operands[1], e.operands[2], cell)
                        if t is not None and t != e.polarity:
                            ok = False
                            break
                if ok:
                    per_cell[cell].append((credited, pa))
        except NotSignTest as ex_:
            problem = f'a guard is not a sign test of the previous (processing, blocked) pair: {ex_}'
    for gname, members in GROUPS.items():
        key = f'{fi.key}::{gname}-partition'
        why = problem
        bad = None
        if not pas:
            why = 'no accumulating path'
        for cell in cells:
            if why:
                break
            if not per_cell[cell]:
                why = f'no path of update_state_rep is consistent with the sign class {cell}'
                break
            for credited, pa in per_cell[cell]:
                hits = [m for m in members if m in credited]
                n_hits = sum(credited.count(m) for m in members)
                if n_hits == 1 and hits[0] in MEANING and not MEANING[hits[0]](cell):
                    sign = f'processing{"=0" if cell[0] == 0 else ">0"}, blocked{"=0" if cell[1] == 0 else ">0"}'
                    want = [m for m in members if m in MEANING and MEANING[m](cell)]
                    why = (f'for ({sign}) the time is credited to {hits[0]}, whose name says otherwise; the member of {members} that describes this '
                           f'situation is {want[0] if want else "?"}: the totals still add up to the elapsed time but do not reflect what the machine was doing')
                    bad = pa
                    break
                if n_hits != 1:
                    sign = f'processing{"=0" if cell[0] == 0 else ">0"}, blocked{"=0" if cell[1] == 0 else ">0"}'
                    why = (f'for ({sign}) the states {hits or "∅"} of {members} are credited{" more than once" if n_hits > len(hits) else ""}: the group is not a '
                           f'partition, its totals {"exceed" if n_hits > 1 else "fall short of"} the elapsed time')
                    bad = pa
                    break
        if bad_amount and not why:
            why, bad = f'bucket {bad_amount[0]} is not credited with exactly the elapsed time (now − old stamp)', bad_amount[1]
        if why:
            r.fail('C17.R4', key, why, src(fi.module), fi.node.lineno, bad.describe() if bad else None)
        else:
            r.ok('C17.R4', key, f'{members}: exactly one member credited in each of the 4 sign classes', src(fi.module), fi.node.lineno)
    key = f'{fi.key}::elapsed-and-stamp'
    allp = [pa for pa in ex.paths(fi) if not pa.raises]
    ok = bool(allp) and all(pa.st.env.get("cell:self.stats['last_state_change_time']") == now for pa in allp) and not bad_amount
    (r.ok if ok else r.fail)('C17.R1', key, 'elapsed = now − last stamp; stamp := now' if ok else 'the amount credited is not now − old stamp, or the stamp is not refreshed on every path',
                             src(fi.module), fi.node.lineno)
