from ..model import AnalysisError
PROP = 'C17'
LEVEL = 'other'


def run(p, tier):
    raise AnalysisError('rule module for C17 not implemented yet (fail closed)')
