"""C17 - state-time accounting partitions elapsed time (partial).

  R1 every update_state adds now − last_change to the *old* state's bucket, then assigns the new state, then stamps;
  R2 `self.state` of a node is written only by update_state (and __init__/reset, before the first stamp);
  R3 on every path from process start the clock stamp exists before the first timed wait, or that wait is
     credited explicitly to a state bucket (Machine set-up);
  R4 the guarded increments of Machine.update_state_rep form two partitions of (processing, blocked) ∈ ℕ²;
  R5 update_final_state_time credits [last change, T] exactly once;
  R6 _update_worker_occupancy accumulates into bucket[num_workers] *before* changing num_workers.
"""
from __future__ import annotations

import ast
import itertools

from .. import nodewalk, paths, tables
from ..model import AnalysisError, Project, self_attr, walk_no_nested
from ..report import Result
from .common import site, src

PROP = 'C17'
LEVEL = 'other'

GROUPS = {
    'group-1': ('IDLE_STATE', 'ATLEAST_ONE_PROCESSING_STATE', 'ALL_ACTIVE_BLOCKED_STATE'),
    'group-2': ('IDLE_STATE', 'ALL_ACTIVE_PROCESSING_STATE', 'ATLEAST_ONE_BLOCKED_STATE'),
}
STAMPERS = ('update_state', 'update_state_rep', 'check_thread_state_and_update_splitter_state', 'check_thread_state_and_update_combiner_state')
STATE_WRITERS_OK = ('update_state', '__init__', 'reset')


def run(p: Project, tier: str) -> Result:
    r = Result(PROP)
    r.explanation = ('Shape of the accumulate-then-switch accounting, single writer of the state, stamp before the first timed wait, and an exact '
                     'partition check of the Machine state groups over the sign classes of (processing, blocked). That the time charged equals the '
                     'time actually spent in an activity is not decided.')
    r.rule('C17.R1', 'update_state: bucket[old state] += now − last change; then state := new; then stamp := now', 4)
    r.rule('C17.R2', 'self.state of a node is written only in update_state / __init__ / reset', 5)
    r.rule('C17.R3', 'stamp exists before the first timed wait of the process, or that wait is credited explicitly', 4)
    r.rule('C17.R4', 'Machine.update_state_rep: each documented state group is a partition of (processing, blocked) ∈ ℕ²; every bucket gets exactly `elapsed`', 2)
    r.rule('C17.R5', 'update_final_state_time credits the last interval exactly once', 5)
    r.rule('C17.R6', 'worker occupancy: accumulate into bucket[num_workers] before num_workers changes', 3)
    r.rule('C17.R7', 'every change of a worker thread_state / of the worker list is followed by a recomputation of the state classification before the next suspension', 15)
    r.not_decided = ['that the time charged to processing / blocked / idle equals the time actually spent so (needs the schedule)',
                     'floating-point exactness of the sums']
    nodes = tables.node_classes(p)
    base = tables.find_base(p, 'Node', 'nodes/node.py')
    seen = set()
    for ci in [base] + nodes:
        fi = p.method(ci.key, 'update_state')
        if fi is not None and fi.key not in seen:
            seen.add(fi.key)
            check_update_state(fi, r)
    check_state_writers(p, nodes, r)
    ws = nodewalk.walks(p)
    for w in ws:
        r.paths += w.npaths
        check_first_wait(w, r)
        check_final(p, w, r)
        check_occupancy(p, w, r)
    check_machine_groups(p, r)
    for w in ws:
        check_thread_state_pairing(w, r)
    return r


REFRESH = ('update_state_rep', 'check_thread_state_and_update_splitter_state', 'check_thread_state_and_update_combiner_state')


def check_thread_state_pairing(w, r):
    """R7: the per-state totals are driven by a *stored* classification (state_rep / state) that is recomputed from the workers'
    thread_state by update_state_rep / check_thread_state_and_update_*.  Every change of what that classification counts - a worker's
    thread_state, membership of worker_thread_list - must therefore be followed by a recomputation before the process suspends or ends;
    otherwise the whole following wait is charged to the previous state."""
    if not any(m in w.methods for m in REFRESH):
        return
    sites = {}
    for root, ps in w.roots.items():
        for pa in ps:
            if pa.raises or pa.status == 'loopcut':
                continue
            pending = []
            for e in pa.events:
                changed = None
                if e.kind == 'setattr' and e.attr == 'thread_state':
                    changed = f'{e.target} = {e.value[1] if e.value and e.value[0] == "const" else "…"}'
                elif e.kind == 'xcall' and e.name in ('self.worker_thread_list.append', 'self.worker_thread_list.remove'):
                    changed = e.name
                if changed is not None:
                    pending.append((e, changed))
                    key = ts_key(e, changed)
                    sites.setdefault(key, {'ok': True, 'e': e, 'pa': pa, 'what': changed})
                elif e.kind == 'call' and e.name in REFRESH:
                    pending = []
                elif e.kind == 'yield':
                    flush(pending, sites, pa, f'the process suspends on `{e.text}` (line {e.line})')
                    pending = []
            flush(pending, sites, pa, 'the process ends / loops back')
    for key, rec in sorted(sites.items()):
        e = rec['e']
        r.analysed_functions.add(e.fi.key)
        if rec['ok']:
            r.ok('C17.R7', key, 'classification recomputed before the next suspension on every path', src(e.fi.module), e.line)
        else:
            r.fail('C17.R7', key, rec['why'], src(e.fi.module), e.line, rec['pa'].describe())


def ts_key(e, changed):
    n = e.d.get('node')
    if n is None:
        return f'{e.fi.key}::thread-state-change@{changed}'
    if isinstance(n, ast.Assign):
        return site(e.fi, n, 'thread_state-assignment', same=lambda x: isinstance(x, ast.Assign) and any(isinstance(t, ast.Attribute) and t.attr == 'thread_state' for t in x.targets))
    return site(e.fi, n, 'worker-list-change')


def flush(pending, sites, pa, where):
    for e, changed in pending:
        key = ts_key(e, changed)
        rec = sites[key]
        if rec['ok']:
            rec.update(ok=False, pa=pa, why=f'`{changed}` changes what the state classification counts, but no update_state_rep / check_thread_state_and_update_* '
                                            f'runs before {where}: the time that follows is charged to the previous (e.g. processing instead of blocked) state')


def check_update_state(fi, r):
    r.analysed_functions.add(fi.key)
    key = f'{fi.key}::accumulate-then-switch'
    par = [a.arg for a in fi.node.args.args if a.arg != 'self']
    if len(par) < 2:
        r.fail('C17.R1', key, 'unexpected signature', src(fi.module), fi.node.lineno)
        return
    new, now = par[0], par[1]
    body = [n for n in fi.node.body if not (isinstance(n, ast.Expr) and isinstance(n.value, ast.Constant))]
    why = None
    if not (len(body) >= 3 and isinstance(body[0], ast.If)):
        why = 'expected: if <state and stamp exist>: accumulate; self.state = new; stamp = now'
    else:
        g = ast.unparse(body[0].test).replace(' ', '')
        if 'self.stateisnotNone' not in g or "self.stats['last_state_change_time']isnotNone" not in g or 'or' in [type(x).__name__.lower() for x in ast.walk(body[0].test) if isinstance(x, ast.Or)]:
            why = f'accumulation guard is `{ast.unparse(body[0].test)}`'
        acc = [ast.unparse(x).replace(' ', '') for x in body[0].body]
        el = [a for a in acc if a.startswith('elapsed=')]
        if not el or el[0] != f"elapsed={now}-self.stats['last_state_change_time']":
            why = why or 'elapsed is not `current_time − last_state_change_time`'
        bucket = [a for a in acc if a.startswith("self.stats['total_time_spent_in_states'][self.state]")]
        want = "self.stats['total_time_spent_in_states'][self.state]=self.stats['total_time_spent_in_states'].get(self.state,0.0)+elapsed"
        want2 = "self.stats['total_time_spent_in_states'][self.state]+=elapsed"
        if not bucket or bucket[0] not in (want, want2):
            why = why or 'the elapsed time is not added (once) to the bucket of the *current* (old) state'
        rest = [ast.unparse(x).replace(' ', '') for x in body[1:]]
        if rest[:2] != [f'self.state={new}', f"self.stats['last_state_change_time']={now}"]:
            why = why or 'after accumulating, the function must assign the new state and then stamp the change time'
        if body[0].orelse:
            why = why or 'unexpected else-branch in the accumulation guard'
    (r.ok if not why else r.fail)('C17.R1', key, 'old bucket += now − last; state := new; stamp := now' if not why else why, src(fi.module), fi.node.lineno)


def check_state_writers(p, nodes, r):
    for ci in nodes:
        for c in p.mro(ci.key):
            for fi in c.methods.values():
                for n in walk_no_nested(fi.node):
                    if isinstance(n, (ast.Assign, ast.AugAssign)):
                        for t in (n.targets if isinstance(n, ast.Assign) else [n.target]):
                            if self_attr(t) == 'state':
                                key = f'{fi.key}::write(self.state)'
                                if fi.name in STATE_WRITERS_OK:
                                    r.ok('C17.R2', key, f'state written in {fi.name}', src(fi.module), n.lineno)
                                else:
                                    r.fail('C17.R2', key, f'`self.state` is assigned in {fi.name}, bypassing update_state: the time in the old state is credited '
                                                          f'to the wrong bucket', src(fi.module), n.lineno)
    # reset() must run before the first stamp: it is called at the top of behaviour
    for ci in nodes:
        b = p.method(ci.key, 'behaviour')
        rs = p.method(ci.key, 'reset')
        if b is None or rs is None:
            continue
        writes = any(isinstance(n, ast.Assign) and any(self_attr(t) == 'state' for t in n.targets) for n in walk_no_nested(rs.node))
        if not writes:
            continue
        key = f'{b.key}::reset-before-first-stamp'
        calls = [n for n in walk_no_nested(b.node) if isinstance(n, ast.Call) and ast.unparse(n.func) == 'self.reset']
        loops = [n for n in b.node.body if isinstance(n, ast.While)]
        ok = len(calls) == 1 and loops and calls[0].lineno < loops[0].lineno
        (r.ok if ok else r.fail)('C17.R2', key, 'reset() runs once, before the process loop' if ok else
                                 'reset() (which overwrites self.state) is not called exactly once before the process loop', src(b.module), b.node.lineno)


def check_first_wait(w, r):
    fi = w.root_funcs.get('behaviour')
    if fi is None:
        return
    r.analysed_functions.add(fi.key)
    key = f'{fi.key}::stamp-before-first-wait'
    init_stamp_none = True
    init = w.ci.methods.get('__init__')
    if init is not None:
        txt = ast.unparse(init.node).replace(' ', '')
        if "'last_state_change_time':0.0" in txt or "'last_state_change_time':0," in txt:
            init_stamp_none = False
    bad = None
    n = 0
    for pa in w.roots['behaviour']:
        if pa.raises:
            continue
        evs = pa.events
        stamped = not init_stamp_none
        for i, e in enumerate(evs):
            if e.kind == 'call' and e.name in STAMPERS:
                stamped = True
            if e.kind == 'yield' and e.cls == 'timeout':
                n += 1
                if not stamped:
                    # explicit credit of this wait before the next yield?
                    arg = None
                    for x in evs[:i]:
                        if x.kind == 'xcall' and x.d.get('result') == e.value:
                            arg = x.args[0] if x.args else None
                    credited = False
                    for x in evs[i + 1:]:
                        if x.kind == 'yield':
                            break
                        if x.kind == 'setitem' and 'total_time_spent_in_states' in x.target and x.aug and x.aug[0] == 'Add' and x.aug[1] == arg:
                            credited = True
                    if not credited:
                        bad = (pa, f'the process waits on `{e.text}` before any state-change stamp exists and the wait is not credited explicitly: '
                                   f'that period is lost from the per-state totals (they add up to T minus the wait)')
                break
    if n == 0:
        return
    (r.ok if not bad else r.fail)('C17.R3', key, 'stamped (or credited explicitly) on every path' if not bad else bad[1], src(fi.module), fi.node.lineno,
                                  *([bad[0].describe()] if bad else []))


def check_final(p, w, r):
    fi = w.methods.get('update_final_state_time')
    if fi is None:
        r.fail('C17.R5', f'{w.ci.label}.update_final_state_time::once', 'update_final_state_time missing', src(w.ci.module), w.ci.node.lineno)
        return
    r.analysed_functions.add(fi.key)
    key = f'{fi.key}::once'
    par = [a.arg for a in fi.node.args.args if a.arg != 'self']
    T = par[0] if par else '?'
    txt = [ast.unparse(n).replace(' ', '') for n in walk_no_nested(fi.node) if isinstance(n, (ast.Assign, ast.AugAssign, ast.Expr))]
    rep_calls = [t for t in txt if t == f'self.update_state_rep({T})']
    buckets = [t for t in txt if t.startswith("self.stats['total_time_spent_in_states'][self.state]")]
    why = None
    if rep_calls:
        if len(rep_calls) != 1 or buckets:
            why = 'the final interval is credited more than once'
    else:
        if len(buckets) != 1:
            why = f'{len(buckets)} credits of the final interval to the current state (expected exactly 1)'
        else:
            want = f"self.stats['total_time_spent_in_states'][self.state]=self.stats['total_time_spent_in_states'].get(self.state,0.0)+duration"
            if buckets[0] not in (want, "self.stats['total_time_spent_in_states'][self.state]+=duration"):
                why = 'the credit is not `bucket[state] += duration`'
            durs = [t for t in txt if t.startswith('duration=')]
            if not durs or any(d != f"duration={T}-self.stats['last_state_change_time']" for d in durs):
                why = why or 'duration is not `T − last_state_change_time`'
    (r.ok if not why else r.fail)('C17.R5', key, 'credits [last change, T] once' if not why else why, src(fi.module), fi.node.lineno)


def check_occupancy(p, w, r):
    fi = w.methods.get('_update_worker_occupancy')
    if fi is None:
        return
    r.analysed_functions.add(fi.key)
    key = f'{fi.key}::accumulate-before-change'
    why = None
    n_br = 0
    for n in walk_no_nested(fi.node):
        if isinstance(n, ast.If) and 'action' in ast.unparse(n.test):
            act = ast.unparse(n.test)
            stmts = [ast.unparse(x).replace(' ', '') for x in n.body]
            flat = []
            for x in n.body:
                if isinstance(x, ast.If):
                    flat += [ast.unparse(y).replace(' ', '') for y in x.body]
                else:
                    flat.append(ast.unparse(x).replace(' ', ''))
            if not any(s_.startswith('elapsed=') for s_ in flat):
                continue
            n_br += 1
            el = [i for i, s_ in enumerate(flat) if s_ == 'elapsed=self.env.now-self.time_last_occupancy_change']
            acc = [i for i, s_ in enumerate(flat) if s_ == 'self.time_per_work_occupancy[self.num_workers]+=elapsed']
            chg = [i for i, s_ in enumerate(flat) if s_.startswith('self.num_workers+=') or s_.startswith('self.num_workers-=')]
            stamp = [i for i, s_ in enumerate(flat) if s_ == 'self.time_last_occupancy_change=self.env.now']
            if len(el) != 1 or len(acc) != 1 or len(stamp) != 1:
                why = why or f'branch `{act}`: expected one elapsed computation, one accumulation into bucket[num_workers] and one stamp'
                continue
            if not (el[0] < acc[0] < stamp[0]):
                why = why or f'branch `{act}`: elapsed → accumulate → stamp order violated'
            if chg and chg[0] < acc[0]:
                why = why or f'branch `{act}`: num_workers changes before the elapsed time is credited to the old occupancy'
            if "'ADD'" in act and flat[chg[0]] != 'self.num_workers+=1' if chg else False:
                why = why or 'ADD does not increase num_workers by one'
            if "'REMOVE'" in act and (not chg or flat[chg[0]] != 'self.num_workers-=1'):
                why = why or 'REMOVE does not decrease num_workers by one'
    if n_br < 3:
        why = why or f'only {n_br} of the ADD / REMOVE / UPDATE branches found'
    (r.ok if not why else r.fail)('C17.R6', key, 'ADD / REMOVE / UPDATE: accumulate into the old occupancy, then change, then stamp' if not why else why,
                                  src(fi.module), fi.node.lineno)


# ------------------------------------------------------------------------------------------- R4
class NotSignTest(Exception):
    pass


def eval_sign(node, rep):
    """evaluate a test over previous_state_rep == rep; only comparisons of its components with 0 and with tuples of 0 are allowed."""
    if isinstance(node, ast.BoolOp):
        vals = [eval_sign(v, rep) for v in node.values]
        return all(vals) if isinstance(node.op, ast.And) else any(vals)
    if isinstance(node, ast.UnaryOp) and isinstance(node.op, ast.Not):
        return not eval_sign(node.operand, rep)
    if isinstance(node, ast.Compare) and len(node.ops) == 1:
        def val(x):
            if isinstance(x, ast.Name) and x.id == 'previous_state_rep':
                return rep
            if isinstance(x, ast.Subscript) and isinstance(x.value, ast.Name) and x.value.id == 'previous_state_rep' and isinstance(x.slice, ast.Constant):
                return rep[x.slice.value]
            if isinstance(x, ast.Constant) and x.value == 0:
                return 0
            if isinstance(x, ast.Tuple) and all(isinstance(e, ast.Constant) and e.value == 0 for e in x.elts):
                return tuple(0 for _ in x.elts)
            raise NotSignTest(ast.unparse(x))
        a, b = val(node.left), val(node.comparators[0])
        op = node.ops[0]
        if isinstance(op, ast.Eq):
            return a == b
        if isinstance(op, ast.NotEq):
            return a != b
        if isinstance(a, tuple) or isinstance(b, tuple):
            raise NotSignTest('ordering on tuples')
        if isinstance(op, ast.Gt):
            return a > b
        if isinstance(op, ast.GtE):
            return a >= b
        if isinstance(op, ast.Lt):
            return a < b
        if isinstance(op, ast.LtE):
            return a <= b
    raise NotSignTest(ast.unparse(node))


def check_machine_groups(p, r):
    ci = p.cls('nodes/machine.py', 'Machine')
    fi = ci.methods.get('update_state_rep')
    if fi is None:
        raise AnalysisError('Machine.update_state_rep missing')
    r.analysed_functions.add(fi.key)
    guards = {}          # bucket -> list of tests
    amounts_ok = True
    bad_amount = None
    for n in walk_no_nested(fi.node):
        if isinstance(n, ast.If) and 'previous_state_rep' in ast.unparse(n.test):
            for s_ in n.body:
                if isinstance(s_, ast.AugAssign) and "total_time_spent_in_states" in ast.unparse(s_.target):
                    name = s_.target.slice.value if isinstance(s_.target.slice, ast.Constant) else ast.unparse(s_.target.slice)
                    guards.setdefault(name, []).append(n.test)
                    if not (isinstance(s_.op, ast.Add) and ast.unparse(s_.value) == 'elapsed'):
                        amounts_ok = False
                        bad_amount = (name, ast.unparse(s_))
    cells = [(0, 0), (0, 1), (1, 0), (1, 1)]     # sign classes of (processing, blocked); tests compare with 0 only
    for gname, members in GROUPS.items():
        key = f'{fi.key}::{gname}-partition'
        why = None
        try:
            for cell in cells:
                hits = []
                for m in members:
                    ts = guards.get(m)
                    if not ts:
                        why = f'no guarded increment for {m}'
                        break
                    if any(eval_sign(t, cell) for t in ts):
                        hits.append(m)
                if why:
                    break
                if len(hits) != 1:
                    sign = f'processing{"=0" if cell[0] == 0 else ">0"}, blocked{"=0" if cell[1] == 0 else ">0"}'
                    why = (f'for ({sign}) the states {hits or "∅"} of {members} are credited: the group is not a partition, its totals '
                           f'{"exceed" if len(hits) > 1 else "fall short of"} the elapsed time')
                    break
        except NotSignTest as e:
            why = f'a guard is not a sign test of the previous (processing, blocked) pair: {e}'
        if not amounts_ok:
            why = why or f'bucket {bad_amount[0]} is credited with `{bad_amount[1]}`, not with exactly `elapsed`'
        (r.ok if not why else r.fail)('C17.R4', key, f'{members}: exactly one member holds in each of the 4 sign classes' if not why else why,
                                      src(fi.module), fi.node.lineno)
    # elapsed and stamping order
    txt = [ast.unparse(n).replace(' ', '') for n in walk_no_nested(fi.node) if isinstance(n, ast.Assign)]
    key = f'{fi.key}::elapsed-and-stamp'
    ok = "elapsed=current_time-self.stats['last_state_change_time']" in txt and "self.stats['last_state_change_time']=current_time" in txt
    (r.ok if ok else r.fail)('C17.R1', key, 'elapsed = now − last stamp; stamp := now' if ok else 'elapsed / stamp computation changed', src(fi.module), fi.node.lineno)
