"""C18 - counters, time-averaged occupancy and cycle times are truthful (partial).

  R1 in every store that keeps the statistic, after every *net* change of Σ_H|L| inside an atomic segment the
     level updater runs before the segment ends (transfers between holding lists create no obligation);
  R2 the level the updater (and the edges' update_final_*_avg_content) records is Σ_H|L|;
  R3 the integral is advanced with the *previous* level over [last change, now] before level and stamp are refreshed;
  R4 generated / processed / discarded / received counters are paired with the events they count (= C03.R2);
  R5 the Sink adds `now − item.timestamp_creation` exactly once per received item;
  R6 timestamp attributes of flow items are assigned only from `env.now`.
"""
from __future__ import annotations

import ast

from .. import lin, nodewalk, paths, storewalk, tables
from ..model import AnalysisError, Project, self_attr, walk_no_nested
from ..report import Result
from ..tables import LEVEL_UPDATER, TRIGGERS, MUT
from .common import site, src, sum_lin, status_str
from . import c03

PROP = 'C18'
LEVEL = 'other'

STAMP_ATTRS_PREFIX = ('timestamp_',)
STAMP_ATTRS = {'conveyor_entry_time', 'conveyor_exit_time', 'fleet_entry_time', 'fleet_exit_time', 'conveyor_ready_item_entry_time', 'put_time'}


def run(p: Project, tier: str) -> Result:
    r = Result(PROP)
    r.explanation = ('The occupancy integral is maintained correctly iff the updater runs after every net change of the number of held items '
                     '(pairing rule), integrates the previous level and records Σ held; counters are paired with the transfers they count; '
                     'cycle time and timestamps come from env.now. Numerical equality with the true integral is not decided.')
    r.rule('C18.R1', 'level updater runs after every net occupancy change before the next suspension', 14)
    r.rule('C18.R2', 'recorded level = Σ held (stores and edges)', 10)
    r.rule('C18.R3', 'integral += previous level × (now − last change), before level and stamp are refreshed', 10)
    r.rule('C18.R4', 'counters paired with creations / pushes / receptions', 8)
    r.rule('C18.R5', 'Sink: total_cycle_time += now − timestamp_creation once per received item', 1)
    r.rule('C18.R6', 'item timestamps are assigned only from env.now', 8)
    r.not_decided = ['numerical equality with the time integral of the true occupancy', 'monotonicity of timestamps along a route',
                     'the filter store keeps no occupancy statistic (nothing to check)']
    ws = storewalk.walks(p, assume_inv=('I1',))
    for w in ws:
        r.paths += w.npaths
        if w.store.has_level:
            check_level_pairing(p, w, r)
            check_updater(p, w.store.methods[LEVEL_UPDATER], 'self', w.store.holders, r, 'self.env.now')
    for ci in tables.edge_classes(p):
        attr, skeys = tables.edge_store_attr(p, ci)
        st = [w.store for w in ws if w.store.ci.key == skeys[0]][0]
        for name, fi in ci.methods.items():
            if name.startswith('update_final_') and name.endswith('_avg_content'):
                par = [a.arg for a in fi.node.args.args if a.arg != 'self']
                check_updater(p, fi, f'self.{attr}', st.holders, r, par[0] if par else '?')
    # R4
    sub = Result('C18')
    nws = nodewalk.walks(p)
    for w in nws:
        r.paths += w.npaths
        for root, ps in w.roots.items():
            c03.check_root(sub, w, root, w.root_funcs[root], ps, [], {})
    for o in sub.obligations:
        if o.rule == 'C03.R2':
            if o.ok:
                r.ok('C18.R4', o.construct, o.detail, o.file, o.line)
    for f in sub.findings:
        if f.rule == 'C03.R2':
            r.fail('C18.R4', f.construct, f.message, f.file, f.line, f.path)
    check_cycle_time(p, nws, r)
    check_timestamps(p, r)
    return r


def check_level_pairing(p, w, r):
    s = w.store
    H = set(s.holders)
    sites = {}
    for root, ps in w.roots.items():
        if root in TRIGGERS:
            continue
        for pa in ps:
            if pa.raises:
                continue
            acc = 0
            pending = []

            def close(where):
                nonlocal acc, pending
                for e in pending:
                    key = site(e.fi, e.node, f'level:{e.list}.{e.op}') + f'@{root}'
                    rec = sites.setdefault(key, {'ok': True, 'e': e, 'pa': pa, 'why': ''})
                    if acc != 0 and rec['ok']:
                        rec.update(ok=False, pa=pa, why=f'the number of held items changes by {acc:+d} and {LEVEL_UPDATER}() does not run before {where}: '
                                                          f'the time-averaged occupancy integrates a stale level')
                acc = 0
                pending = []
            for e in pa.events:
                if e.kind == 'op' and e.list in H:
                    acc += MUT[e.op]
                    pending.append(e)
                elif e.kind == 'call' and e.name == LEVEL_UPDATER:
                    # everything so far is accounted for
                    for x in pending:
                        key = site(x.fi, x.node, f'level:{x.list}.{x.op}') + f'@{root}'
                        sites.setdefault(key, {'ok': True, 'e': x, 'pa': pa, 'why': ''})
                    acc = 0
                    pending = []
                elif e.kind == 'yield':
                    close(f'the yield at line {e.line}')
            close(f'the end of {root}')
    for key, rec in sorted(sites.items()):
        e = rec['e']
        if rec['ok']:
            r.ok('C18.R1', key, 'level updated (or net change zero) before the segment ends', src(e.fi.module), e.line)
        else:
            r.fail('C18.R1', key, rec['why'], src(e.fi.module), e.line, rec['pa'].describe())


def check_updater(p, fi, recv, holders, r, now_expr):
    """Shape of an occupancy-integral update on the statistic fields of `recv`."""
    r.analysed_functions.add(fi.key)
    body = [n for n in fi.node.body if not (isinstance(n, ast.Expr) and isinstance(n.value, ast.Constant))]
    pos = {}
    level_val = None
    integ = None
    interval = None
    nowvar = None
    for i, n in enumerate(body):
        if isinstance(n, ast.Assign) and len(n.targets) == 1:
            t = ast.unparse(n.targets[0])
            if t == f'{recv}._last_num_items':
                pos['level'] = i
                level_val = n.value
            elif t == f'{recv}._last_level_change_time':
                pos['stamp'] = i
                pos['stamp_val'] = ast.unparse(n.value)
            elif t == 'interval':
                pos['interval'] = i
                interval = n.value
            elif t == 'now':
                pos['now'] = i
                nowvar = ast.unparse(n.value)
        elif isinstance(n, ast.AugAssign) and ast.unparse(n.target) == f'{recv}._weighted_sum' and isinstance(n.op, ast.Add):
            pos['integ'] = i
            integ = n.value
    k2 = f'{fi.key}::level=Σheld'
    k3 = f'{fi.key}::integrate-previous-level'
    if level_val is None:
        r.fail('C18.R2', k2, f'no assignment to {recv}._last_num_items', src(fi.module), fi.node.lineno)
    else:
        try:
            got = lin.norm(lin.linexpr(level_val, {}, recv))
            want = lin.norm(sum_lin(holders, {}, {}))
            if got == want:
                r.ok('C18.R2', k2, f'= {lin.show(dict(want))}', src(fi.module), fi.node.lineno)
            else:
                r.fail('C18.R2', k2, f'records {lin.show(dict(got))} as the level, the store holds {lin.show(dict(want))}', src(fi.module), fi.node.lineno)
        except lin.NonLinear as e:
            r.fail('C18.R2', k2, f'recorded level is not a sum of the holding-list lengths ({e})', src(fi.module), fi.node.lineno)
    why = None
    if integ is None or interval is None:
        why = 'no `_weighted_sum += level * interval` / `interval = now - last change` found'
    else:
        it = ast.unparse(integ).replace(' ', '')
        if it not in (f'{recv}._last_num_items*interval', f'interval*{recv}._last_num_items'):
            why = f'integrand is `{ast.unparse(integ)}`, expected previous level × interval'
        iv = ast.unparse(interval).replace(' ', '')
        if iv != f'now-{recv}._last_level_change_time':
            why = f'interval is `{ast.unparse(interval)}`, expected now − last level change time'
        if nowvar != now_expr:
            why = f'`now` is `{nowvar}`, expected `{now_expr}`'
        order = [pos.get('now', -1), pos.get('interval', -1), pos.get('integ', -1)]
        if order != sorted(order) or -1 in order:
            why = why or 'now / interval / integration are not computed in this order'
        if 'level' in pos and pos['level'] < pos['integ']:
            why = 'the level is refreshed before the integral is advanced (the new level is integrated over the past interval)'
        if 'stamp' in pos and pos['stamp'] < pos['interval']:
            why = 'the change stamp is refreshed before the interval is computed (interval is always 0)'
        if 'stamp' not in pos or pos.get('stamp_val') != 'now':
            why = why or 'the last-change stamp is not set to now'
    if why:
        r.fail('C18.R3', k3, why, src(fi.module), fi.node.lineno)
    else:
        r.ok('C18.R3', k3, 'now → interval → integral += previous level × interval → stamp, level', src(fi.module), fi.node.lineno)


def check_cycle_time(p, nws, r):
    for w in nws:
        if w.ci.name != 'Sink':
            continue
        fi = w.root_funcs['behaviour']
        key = f'{fi.key}::cycle-time'
        bad = None
        n = 0
        for pa in w.roots['behaviour']:
            if pa.raises:
                continue
            gets = [e for e in pa.events if e.kind == 'pcall' and e.name == 'get']
            adds = [e for e in pa.events if e.kind == 'setitem' and 'total_cycle_time' in e.target]
            if not gets and not adds:
                continue
            n += 1
            if len(gets) != len(adds):
                bad = (pa, f'{len(gets)} item(s) received but total_cycle_time updated {len(adds)} time(s)')
                continue
            for g, a in zip(gets, adds):
                if not (a.aug and a.aug[0] == 'Add'):
                    bad = (pa, 'total_cycle_time is overwritten, not accumulated')
                    continue
                node = a.d.get('node')
                val = node.value if isinstance(node, ast.AugAssign) else None
                okv = isinstance(val, ast.BinOp) and isinstance(val.op, ast.Sub) and ast.unparse(val.left).endswith('env.now') \
                    and isinstance(val.right, ast.Attribute) and val.right.attr == 'timestamp_creation'
                if not okv:
                    bad = (pa, f'cycle time operand is `{ast.unparse(val) if val is not None else "?"}`, expected env.now − <item>.timestamp_creation')
                    continue
                # the item whose creation stamp is read is the item just received
                holder = val.right.value
                hv = None
                if self_attr(holder):
                    hv = pa.st.env.get('self.' + holder.attr)
                # value at that time: find the setattr that stored the get result
                stored = [e for e in pa.events if e.kind == 'setattr' and e.target == ast.unparse(holder) and e.value == g.result]
                local = isinstance(holder, ast.Name)
                if not stored and not local:
                    bad = (pa, f'`{ast.unparse(holder)}` does not hold the item returned by the get of this iteration')
        if n == 0:
            r.fail('C18.R5', key, 'no reception path found in Sink.behaviour', src(fi.module), fi.node.lineno)
        elif bad:
            r.fail('C18.R5', key, bad[1], src(fi.module), fi.node.lineno, bad[0].describe())
        else:
            r.ok('C18.R5', key, 'once per received item, now − timestamp_creation of that item', src(fi.module), fi.node.lineno)


def check_timestamps(p, r):
    for fi in p.all_functions():
        for n in walk_no_nested(fi.node):
            if not isinstance(n, (ast.Assign, ast.AugAssign)):
                continue
            for t in (n.targets if isinstance(n, ast.Assign) else [n.target]):
                if isinstance(t, ast.Attribute) and (t.attr.startswith(STAMP_ATTRS_PREFIX) or t.attr in STAMP_ATTRS):
                    key = site(fi, n, f'stamp:{t.attr}', same=lambda x, a=t.attr: isinstance(x, (ast.Assign, ast.AugAssign)) and any(
                        isinstance(tt, ast.Attribute) and tt.attr == a for tt in (x.targets if isinstance(x, ast.Assign) else [x.target])))
                    v = n.value
                    txt = ast.unparse(v)
                    ok = isinstance(n, ast.Assign) and ((isinstance(v, ast.Attribute) and v.attr == 'now') or (isinstance(v, ast.Constant) and v.value is None))
                    if ok:
                        r.ok('C18.R6', key, f'= {txt}', src(fi.module), n.lineno)
                    else:
                        r.fail('C18.R6', key, f'timestamp `{ast.unparse(t)}` is assigned `{txt}`, not the simulation clock env.now', src(fi.module), n.lineno)
