from ..model import AnalysisError
PROP = 'C18'
LEVEL = 'other'


def run(p, tier):
    raise AnalysisError('rule module for C18 not implemented yet (fail closed)')
