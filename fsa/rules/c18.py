"""C18 - counters, time-averaged occupancy and cycle times are truthful (partial).

  R1 in every store that keeps the statistic, after every *net* change of Σ_H|L| inside an atomic segment the
     level updater runs before the segment ends (transfers between holding lists create no obligation);
  R2 the level the updater (and the edges' update_final_*_avg_content) records is Σ_H|L|;
  R3 the integral is advanced with the *previous* level over [last change, now] before level and stamp are refreshed;
  R4 generated / processed / discarded / received counters are paired with the events they count (= C03.R2);
  R5 the Sink adds `now − item.timestamp_creation` exactly once per received item;
  R6 timestamp attributes of flow items are assigned only from `env.now`.
"""
from __future__ import annotations

import ast

from .. import lin, nodewalk, paths, storewalk, tables
from ..model import AnalysisError, Project, self_attr, walk_no_nested
from ..report import Result, ctx_of
from ..tables import LEVEL_UPDATER, TRIGGERS, MUT
from .common import site, src, sum_lin, status_str
from . import c03

PROP = 'C18'
LEVEL = 'other'

STAMP_ATTRS_PREFIX = ('timestamp_',)
STAMP_ATTRS = {'conveyor_entry_time', 'conveyor_exit_time', 'fleet_entry_time', 'fleet_exit_time', 'conveyor_ready_item_entry_time', 'put_time'}


def run(p: Project, tier: str) -> Result:
    r = Result(PROP)
    r.explanation = ('The occupancy integral is maintained correctly iff the updater runs after every net change of the number of held items '
                     '(pairing rule), integrates the previous level and records Σ held; counters are paired with the transfers they count; '
                     'cycle time and timestamps come from env.now. Numerical equality with the true integral is not decided.')
    r.rule('C18.R1', 'level updater runs after every net occupancy change before the next suspension', 14)
    r.rule('C18.R2', 'recorded level = Σ held (stores and edges)', 10)
    r.rule('C18.R3', 'integral += previous level × (now − last change), before level and stamp are refreshed', 10)
    r.rule('C18.R4', 'counters paired with creations / pushes / receptions', 8)
    r.rule('C18.R5', 'Sink: total_cycle_time += now − timestamp_creation once per received item', 1)
    r.rule('C18.R6', 'item timestamps are assigned only from env.now', 8)
    r.not_decided = ['numerical equality with the time integral of the true occupancy', 'monotonicity of timestamps along a route',
                     'the filter store keeps no occupancy statistic (nothing to check)']
    ws = storewalk.walks(p, assume_inv=('I1',))
    for w in ws:
        r.ctx = ctx_of(w)
        r.paths += w.npaths
        if w.store.has_level:
            check_level_pairing(p, w, r)
            check_updater(p, w.store.methods[LEVEL_UPDATER], 'self', w.store.holders, r, 'self.env.now')
    for ci in tables.edge_classes(p):
        attr, skeys = tables.edge_store_attr(p, ci)
        st = [w.store for w in ws if w.store.ci.key == skeys[0]][0]
        for name, fi in ci.methods.items():
            if name.startswith('update_final_') and name.endswith('_avg_content'):
                par = [a.arg for a in fi.node.args.args if a.arg != 'self']
                check_updater(p, fi, f'self.{attr}', st.holders, r, par[0] if par else '?')
    check_edge_publication(p, r)
    # R4
    sub = Result('C18')
    nws = nodewalk.walks(p)
    for w in nws:
        r.ctx = ctx_of(w)
        r.paths += w.npaths
        for root, ps in w.roots.items():
            c03.check_root(sub, w, root, w.root_funcs[root], ps, [], {})
    for o in sub.obligations:
        if o.rule == 'C03.R2':
            if o.ok:
                r.ok('C18.R4', o.construct, o.detail, o.file, o.line)
    for f in sub.findings:
        if f.rule == 'C03.R2':
            r.fail('C18.R4', f.construct, f.message, f.file, f.line, f.path)
    check_counter_instant(nws, r)
    check_counter_unit(p, nws, r)
    check_cycle_time(p, nws, r)
    check_item_stamps(p, r)
    check_timestamps(p, r)
    return r


COUNTED = {'num_item_processed': 'push', 'num_item_generated': 'create', 'num_item_received': 'receive'}
COUNTERS = ('num_item_processed', 'num_item_generated', 'num_item_received', 'num_item_discarded')


def check_item_stamps(p, r):
    """R10: the nodes report every pull / push of an item with `item.update_node_event(node, env, 'entry' | 'exit')` and rely on the stamp being the
    clock of that call: on every completing path of the 'entry' branch `timestamp_node_entry` is assigned the current clock, on every path of the
    'exit' branch `timestamp_node_exit` is.  A stamp that is skipped under a condition ("same node as last time") leaves an older entry time behind
    a newer exit time: the item's time stamps go backwards along its route."""
    r.rule('C18.R10', 'BaseFlowItem.update_node_event stamps entry / exit with the current clock on every path of the respective branch', 2)
    try:
        ci = p.cls('helper/baseflowitem.py', 'BaseFlowItem')
    except Exception:       # noqa: BLE001
        raise AnalysisError('anchor vanished: helper/baseflowitem.py::BaseFlowItem')
    fi = ci.methods.get('update_node_event')
    if fi is None:
        raise AnalysisError('anchor vanished: BaseFlowItem.update_node_event')
    r.analysed_functions.add(fi.key)
    ex = paths.Explorer(p, ci.key, tracked=set(), atomic=set(), unroll=1, interrupt_edges=False)
    ps = [pa for pa in ex.paths(fi) if not pa.raises]
    for kind, attr in (('entry', 'timestamp_node_entry'), ('exit', 'timestamp_node_exit')):
        key = f'{fi.key}::stamps-{kind}-with-the-clock'
        bad = None
        n = 0
        for pa in ps:
            sel = [e for e in pa.events if e.kind == 'cond' and e.d.get('operands') and e.operands[0] in ('Eq', 'NotEq')
                   and ('const', kind) in (e.operands[1], e.operands[2])]
            if not any((e.operands[0] == 'Eq') == bool(e.polarity) for e in sel):
                continue
            n += 1
            sets = [e for e in pa.events if e.kind == 'setattr' and e.attr == attr]
            if not sets or not (isinstance(sets[-1].value, tuple) and sets[-1].value and sets[-1].value[0] == 'now'):
                bad = pa
        if n == 0:
            r.fail('C18.R10', key, f'no path of update_node_event handles event_type == {kind!r}', src(fi.module), fi.node.lineno)
        elif bad is not None:
            r.fail('C18.R10', key, f'a path of the {kind!r} branch does not assign {attr} the current clock: the item keeps the stamp of an earlier visit and its '
                                   f'time stamps go backwards along its route', src(fi.module), fi.node.lineno, bad.describe())
        else:
            r.ok('C18.R10', key, f'{attr} = env.now on {n} path(s)', src(fi.module), fi.node.lineno)


def check_counter_unit(p, nws, r):
    """R9: a counter starts at zero and moves in steps of exactly one: every `num_item_*` key of the statistics a node creates in its constructor is the
    constant 0, every change of such a counter on any path is `+= 1` (a step of 0, 2 or -1 makes the counter differ from the number of items moved)."""
    r.rule('C18.R9', 'item counters start at 0 and change by exactly +1', 8)
    for w in nws:
        r.ctx = ctx_of(w)
        init = w.ci.methods.get('__init__')
        if init is not None:
            r.analysed_functions.add(init.key)
            for n in walk_no_nested(init.node):
                if isinstance(n, ast.Dict):
                    for k, v in zip(n.keys, n.values):
                        if isinstance(k, ast.Constant) and k.value in COUNTERS:
                            key = f'{init.key}::counter-initial:{k.value}'
                            if isinstance(v, ast.Constant) and v.value == 0 and not isinstance(v.value, bool):
                                r.ok('C18.R9', key, 'starts at 0', src(init.module), n.lineno)
                            else:
                                r.fail('C18.R9', key, f'`{k.value}` starts at {ast.unparse(v)}, not at 0: the counter is off by that amount for the whole run',
                                       src(init.module), v.lineno)
        sites = {}
        for root, ps in w.roots.items():
            for pa in ps:
                if pa.raises:
                    continue
                for e in pa.events:
                    if e.kind != 'setitem':
                        continue
                    cname = next((c for c in COUNTERS if c in e.target), None)
                    if cname is None:
                        continue
                    key = site(e.fi, e.node, f'counter-step:{cname}')
                    rec = sites.setdefault(key, {'ok': True, 'e': e, 'pa': pa, 'why': ''})
                    if e.aug != ('Add', ('const', 1)) and rec['ok']:
                        what = f'`{e.aug[0]} {e.aug[1][1] if e.aug[1] and e.aug[1][0] == "const" else "?"}`' if e.aug else 'a plain assignment'
                        rec.update(ok=False, pa=pa, why=f'`{cname}` is changed by {what}, not by `+= 1`: it no longer equals the number of items it counts')
        for key, rec in sorted(sites.items()):
            e = rec['e']
            if rec['ok']:
                r.ok('C18.R9', key, '+= 1', src(e.fi.module), e.line)
            else:
                r.fail('C18.R9', key, rec['why'], src(e.fi.module), e.line, rec['pa'].describe())


def check_counter_instant(nws, r):
    """R8: a counter changes in the same uninterrupted stretch as the event it counts.  On every path the k-th increment of a counter and the k-th counted
    event (creation of the item / put or completion of the push process / get by the sink) are not separated by any other suspension point: otherwise the
    counter is ahead of (or behind) the items actually moved for as long as that wait lasts - e.g. for the whole time a blocking machine waits for room."""
    r.rule('C18.R8', 'no suspension point between a counter increment and the event it counts', 6)
    sites = {}
    for w in nws:
        r.ctx = ctx_of(w)
        for root, ps in w.roots.items():
            fi = w.root_funcs[root]
            for pa in ps:
                if pa.raises or pa.status == 'loopcut':
                    continue
                evs = pa.events
                counted = {'push': [], 'create': [], 'receive': []}
                incs = {}
                for i, e in enumerate(evs):
                    if e.kind == 'pcall' and e.name == 'put':
                        counted['push'].append((i, i))
                    elif e.kind == 'yield' and e.d.get('cls') == 'process' and i > 0 and evs[i - 1].kind == 'spawn' and evs[i - 1].func == 'self._push_item':
                        counted['push'].append((i, i))           # the wait for the push process *is* the hand-over
                    elif c03.is_item_source(e) == 'constructor':
                        counted['create'].append((i, i))
                    elif e.kind == 'pcall' and e.name == 'get' and w.ci.name == 'Sink':
                        counted['receive'].append((i, i))
                    elif e.kind == 'setitem' and e.aug and e.aug[0] == 'Add':
                        for cname, what in COUNTED.items():
                            if cname in e.target:
                                incs.setdefault((cname, what), []).append(i)
                for (cname, what), idxs in incs.items():
                    if len(idxs) != len(counted[what]):
                        continue                              # mis-pairing is R4's finding
                    for k, (i_inc, (i_ev, _)) in enumerate(zip(idxs, counted[what])):
                        lo, hi = sorted((i_inc, i_ev))
                        res = evs[i_ev].d.get('result')
                        # a wait on the very object the counted call returned (the legacy `yield item` when get hands out a process) is part of that event
                        between = [x for x in evs[lo + 1:hi] if x.kind == 'yield' and not (res is not None and x.d.get('value') == res)]
                        e_inc = evs[i_inc]
                        key = site(e_inc.fi, e_inc.node, f'counter-instant:{cname}')
                        rec = sites.setdefault(key, {'ok': True, 'pa': pa, 'why': '', 'e': e_inc, 'n': 0})
                        rec['n'] += 1
                        if between and rec['ok']:
                            y = between[0]
                            order = 'before' if i_inc < i_ev else 'after'
                            rec.update(ok=False, pa=pa, why=f'`{cname}` is incremented {order} the {what} it counts with a suspension point in between '
                                                              f'(`yield {y.text}` at line {y.line}): while the process waits there the counter does not equal the '
                                                              f'number of items actually {"pushed downstream" if what == "push" else "created" if what == "create" else "received"}')
    for key, rec in sorted(sites.items()):
        e = rec['e']
        if rec['ok']:
            r.ok('C18.R8', key, f'adjacent to the counted event on {rec["n"]} path(s)', src(e.fi.module), e.line)
        else:
            r.fail('C18.R8', key, rec['why'], src(e.fi.module), e.line, rec['pa'].describe())


def check_level_pairing(p, w, r):
    s = w.store
    H = set(s.holders)
    sites = {}
    for root, ps in w.roots.items():
        if root in TRIGGERS:
            continue
        for pa in ps:
            if pa.raises:
                continue
            acc = 0
            pending = []

            def close(where):
                nonlocal acc, pending
                for e in pending:
                    key = site(e.fi, e.node, f'level:{e.list}.{e.op}') + f'@{root}'
                    rec = sites.setdefault(key, {'ok': True, 'e': e, 'pa': pa, 'why': ''})
                    if acc != 0 and rec['ok']:
                        rec.update(ok=False, pa=pa, why=f'the number of held items changes by {acc:+d} and {LEVEL_UPDATER}() does not run before {where}: '
                                                          f'the time-averaged occupancy integrates a stale level')
                acc = 0
                pending = []
            for e in pa.events:
                if e.kind == 'op' and e.list in H:
                    acc += MUT[e.op]
                    pending.append(e)
                elif e.kind == 'call' and e.name == LEVEL_UPDATER:
                    # everything so far is accounted for
                    for x in pending:
                        key = site(x.fi, x.node, f'level:{x.list}.{x.op}') + f'@{root}'
                        sites.setdefault(key, {'ok': True, 'e': x, 'pa': pa, 'why': ''})
                    acc = 0
                    pending = []
                elif e.kind == 'yield':
                    close(f'the yield at line {e.line}')
            close(f'the end of {root}')
    for key, rec in sorted(sites.items()):
        e = rec['e']
        if rec['ok']:
            r.ok('C18.R1', key, 'level updated (or net change zero) before the segment ends', src(e.fi.module), e.line)
        else:
            r.fail('C18.R1', key, rec['why'], src(e.fi.module), e.line, rec['pa'].describe())


# ---- a tiny polynomial evaluator (atoms: pre-state statistic fields, the clock, list lengths, opaque texts)
def _padd(a, b, k=1):
    out = dict(a)
    for m, c in b.items():
        out[m] = out.get(m, 0) + k * c
        if out[m] == 0:
            del out[m]
    return out


def _pmul(a, b):
    out = {}
    for m1, c1 in a.items():
        for m2, c2 in b.items():
            m = tuple(sorted(m1 + m2))
            out[m] = out.get(m, 0) + c1 * c2
            if out[m] == 0:
                del out[m]
    return out


def _atom(x):
    return {(x,): 1}


def _pshow(pl):
    if not pl:
        return '0'
    return ' + '.join((f'{c}·' if c != 1 or not m else '') + '·'.join(m) for m, c in sorted(pl.items()))


def _peval(n, env, state, recv, now_expr):
    """polynomial value of an expression: locals are substituted, statistic fields are read from the symbolic state"""
    if isinstance(n, ast.Constant) and isinstance(n.value, (int, float)) and not isinstance(n.value, bool):
        return {(): n.value} if n.value != 0 else {}
    t = ast.unparse(n)
    if isinstance(n, ast.Name):
        if n.id in env:
            return env[n.id]
        if t == now_expr:
            return _atom('NOW')
        return _atom(t)
    if t == now_expr:
        return _atom('NOW')
    if isinstance(n, ast.Attribute):
        if t.startswith(recv + '.') and t[len(recv) + 1:] in state:
            return state[t[len(recv) + 1:]]
        return _atom(t)
    if isinstance(n, ast.BinOp) and isinstance(n.op, (ast.Add, ast.Sub, ast.Mult)):
        l = _peval(n.left, env, state, recv, now_expr)
        rr = _peval(n.right, env, state, recv, now_expr)
        if isinstance(n.op, ast.Add):
            return _padd(l, rr)
        if isinstance(n.op, ast.Sub):
            return _padd(l, rr, -1)
        return _pmul(l, rr)
    if isinstance(n, ast.UnaryOp) and isinstance(n.op, ast.USub):
        return _padd({}, _peval(n.operand, env, state, recv, now_expr), -1)
    if isinstance(n, ast.Call) and isinstance(n.func, ast.Name) and n.func.id == 'len' and len(n.args) == 1:
        a = ast.unparse(n.args[0])
        if a.startswith(recv + '.'):
            return _atom('|' + a[len(recv) + 1:] + '|')
        return _atom(t)
    return _atom(t)


FIELDS = ('_weighted_sum', '_last_num_items', '_last_level_change_time')


def check_updater(p, fi, recv, holders, r, now_expr):
    """An occupancy-integral update on the statistic fields of `recv`, decided on the symbolic effect of the (straight-line) body:
       _weighted_sum' = _weighted_sum + _last_num_items·(now − _last_level_change_time); stamp' = now; level' = Σ held."""
    r.analysed_functions.add(fi.key)
    k2 = f'{fi.key}::level=Σheld'
    k3 = f'{fi.key}::integrate-previous-level'
    state = {'_weighted_sum': _atom('W0'), '_last_num_items': _atom('N0'), '_last_level_change_time': _atom('T0')}
    env = {}
    assigned = set()
    conditional = None
    published = {'seen': False, 'ok': False}

    def quotient_ok(v):
        """the published average is <current integral> / <now> (possibly inside `… if now > 0 else 0.0`)"""
        for x in ast.walk(v):
            if isinstance(x, ast.BinOp) and isinstance(x.op, ast.Div):
                if _peval(x.left, env, state, recv, now_expr) == state['_weighted_sum'] and _peval(x.right, env, state, recv, now_expr) == _atom('NOW'):
                    return True
        return False

    def walk(stmts, top):
        nonlocal conditional
        for n in stmts:
            if isinstance(n, (ast.Assign, ast.AugAssign, ast.AnnAssign)):
                tg = n.targets[0] if isinstance(n, ast.Assign) else n.target
                if isinstance(n, ast.Assign) and len(n.targets) != 1:
                    continue
                if n.value is None:
                    continue
                t = ast.unparse(tg)
                if t == f'{recv}.time_averaged_num_of_items_in_store' and isinstance(n, ast.Assign):
                    published['seen'] = True
                    if not (isinstance(n.value, ast.Constant) and n.value.value in (0, 0.0)):      # (`… = 0.0` on the `now == 0` branch is neutral)
                        published['ok'] = quotient_ok(n.value) and '_weighted_sum' in assigned
                val = _peval(n.value, env, state, recv, now_expr)
                if isinstance(n, ast.AugAssign):
                    cur = _peval(tg, env, state, recv, now_expr)
                    if isinstance(n.op, ast.Add):
                        val = _padd(cur, val)
                    elif isinstance(n.op, ast.Sub):
                        val = _padd(cur, val, -1)
                    elif isinstance(n.op, ast.Mult):
                        val = _pmul(cur, val)
                    else:
                        val = _atom(ast.unparse(n))
                if isinstance(tg, ast.Name):
                    env[tg.id] = val
                elif t.startswith(recv + '.') and t[len(recv) + 1:] in FIELDS:
                    f = t[len(recv) + 1:]
                    if not top:
                        conditional = f
                    state[f] = val
                    assigned.add(f)
            elif isinstance(n, ast.If):
                walk(n.body, False)
                walk(n.orelse, False)
            elif isinstance(n, (ast.For, ast.While, ast.Try, ast.With)):
                for x in ast.walk(n):
                    if isinstance(x, ast.Attribute) and isinstance(x.ctx, ast.Store) and x.attr in FIELDS:
                        conditional = x.attr

    walk(fi.node.body, True)
    if '_last_num_items' not in assigned:
        r.fail('C18.R2', k2, f'no assignment to {recv}._last_num_items', src(fi.module), fi.node.lineno)
    else:
        want = {}
        for h in holders:
            want = _padd(want, _atom(f'|{h}|'))
        got = state['_last_num_items']
        if got == want and conditional != '_last_num_items':
            r.ok('C18.R2', k2, f'= {_pshow(want)}', src(fi.module), fi.node.lineno)
        else:
            r.fail('C18.R2', k2, f'records {_pshow(got)} as the level, the store holds {_pshow(want)}', src(fi.module), fi.node.lineno)
    why = None
    if '_weighted_sum' not in assigned:
        why = 'the occupancy integral (_weighted_sum) is not advanced'
    else:
        wantw = _padd(_atom('W0'), _padd(_pmul(_atom('N0'), _atom('NOW')), _pmul(_atom('N0'), _atom('T0')), -1))
        gotw = state['_weighted_sum']
        if gotw != wantw:
            why = (f'the integral becomes {_pshow(gotw)}; expected W0 + N0·(NOW − T0), i.e. the previous level (N0) integrated over '
                   f'[last change (T0), now]')
    if why is None:
        if '_last_level_change_time' not in assigned or state['_last_level_change_time'] != _atom('NOW'):
            why = f'the last-change stamp becomes {_pshow(state["_last_level_change_time"])}, expected now (`{now_expr}`)'
        elif conditional in ('_weighted_sum', '_last_level_change_time'):
            why = f'{conditional} is updated only conditionally'
    if why is None and not (published['seen'] and published['ok']):
        why = ('the published average (time_averaged_num_of_items_in_store) is not refreshed as <integral after this update> / now: the reported statistic '
               'stays behind the accumulator' if not published['seen'] else
               'the published average is not the integral (after this update) divided by now')
    if why:
        r.fail('C18.R3', k3, why, src(fi.module), fi.node.lineno)
    else:
        r.ok('C18.R3', k3, "W' = W + previous level × (now − last change); stamp' = now; average' = W' / now", src(fi.module), fi.node.lineno)


def check_edge_publication(p, r):
    """R7: an edge reports its store's time-averaged occupancy in its own stats; after every put / get that it forwards to the store it copies the
    store's current average (its stats collector) - otherwise the reported number lags one operation behind until the final update."""
    r.rule('C18.R7', 'every Edge.put / Edge.get republishes the store average into the edge statistics after the store operation', 6)
    for ci in tables.edge_classes(p):
        attr, skeys = tables.edge_store_attr(p, ci)
        has_stat = any('time_averaged' in ast.unparse(n) for n in ast.walk(ci.node) if isinstance(n, ast.Constant) and isinstance(n.value, str))
        if not has_stat:
            continue
        for op in ('put', 'get'):
            fi = ci.methods.get(op)
            if fi is None:
                continue
            r.analysed_functions.add(fi.key)
            key = f'{fi.key}::republishes-average'
            ex = paths.Explorer(p, ci.key, tracked=set(), proto={'put', 'get'}, unroll=1, interrupt_edges=False)
            bad = None
            n = 0
            for pa in ex.paths(fi):
                if pa.raises:
                    continue
                evs = pa.events
                ops = [i for i, e in enumerate(evs) if e.kind == 'pcall' and e.name == op and e.recv == f'self.{attr}']
                if not ops:
                    continue
                n += 1
                after = evs[ops[-1] + 1:]
                pub = any((e.kind == 'setitem' and 'time_averaged' in e.target and e.base == 'self.stats') or
                          (e.kind == 'call' and e.name.endswith('stats_collector')) for e in after)
                if not pub:
                    bad = pa
            if n == 0:
                continue
            if bad is not None:
                r.fail('C18.R7', key, f'{op}() forwards to the store but does not copy the store\'s time-averaged occupancy into the edge statistics afterwards: the reported '
                                      f'average lags behind', src(fi.module), fi.node.lineno, bad.describe())
            else:
                r.ok('C18.R7', key, 'average republished after the store operation on every path', src(fi.module), fi.node.lineno)


def check_cycle_time(p, nws, r):
    for w in nws:
        r.ctx = ctx_of(w)
        if w.ci.name != 'Sink':
            continue
        fi = w.root_funcs['behaviour']
        key = f'{fi.key}::cycle-time'
        bad = None
        n = 0
        for pa in w.roots['behaviour']:
            if pa.raises:
                continue
            gets = [e for e in pa.events if e.kind == 'pcall' and e.name == 'get']
            adds = [e for e in pa.events if e.kind == 'setitem' and 'total_cycle_time' in e.target]
            if not gets and not adds:
                continue
            n += 1
            if len(gets) != len(adds):
                bad = (pa, f'{len(gets)} item(s) received but total_cycle_time updated {len(adds)} time(s)')
                continue
            for g, a in zip(gets, adds):
                if not (a.aug and a.aug[0] == 'Add'):
                    bad = (pa, 'total_cycle_time is overwritten, not accumulated')
                    continue
                node = a.d.get('node')
                val = node.value if isinstance(node, ast.AugAssign) else None
                okv = isinstance(val, ast.BinOp) and isinstance(val.op, ast.Sub) and ast.unparse(val.left).endswith('env.now') \
                    and isinstance(val.right, ast.Attribute) and val.right.attr == 'timestamp_creation'
                if not okv:
                    bad = (pa, f'cycle time operand is `{ast.unparse(val) if val is not None else "?"}`, expected env.now − <item>.timestamp_creation')
                    continue
                # the item whose creation stamp is read is the item just received
                holder = val.right.value
                hv = None
                if self_attr(holder):
                    hv = pa.st.env.get('self.' + holder.attr)
                # value at that time: find the setattr that stored the get result
                stored = [e for e in pa.events if e.kind == 'setattr' and e.target == ast.unparse(holder) and e.value == g.result]
                local = isinstance(holder, ast.Name)
                if not stored and not local:
                    bad = (pa, f'`{ast.unparse(holder)}` does not hold the item returned by the get of this iteration')
        if n == 0:
            r.fail('C18.R5', key, 'no reception path found in Sink.behaviour', src(fi.module), fi.node.lineno)
        elif bad:
            r.fail('C18.R5', key, bad[1], src(fi.module), fi.node.lineno, bad[0].describe())
        else:
            r.ok('C18.R5', key, 'once per received item, now − timestamp_creation of that item', src(fi.module), fi.node.lineno)


def check_timestamps(p, r):
    for fi in p.all_functions():
        for n in walk_no_nested(fi.node):
            if not isinstance(n, (ast.Assign, ast.AugAssign)):
                continue
            for t in (n.targets if isinstance(n, ast.Assign) else [n.target]):
                if isinstance(t, ast.Attribute) and (t.attr.startswith(STAMP_ATTRS_PREFIX) or t.attr in STAMP_ATTRS):
                    key = site(fi, n, f'stamp:{t.attr}', same=lambda x, a=t.attr: isinstance(x, (ast.Assign, ast.AugAssign)) and any(
                        isinstance(tt, ast.Attribute) and tt.attr == a for tt in (x.targets if isinstance(x, ast.Assign) else [x.target])))
                    v = n.value
                    txt = ast.unparse(v)
                    ok = isinstance(n, ast.Assign) and ((isinstance(v, ast.Attribute) and v.attr == 'now') or (isinstance(v, ast.Constant) and v.value is None))
                    if ok:
                        r.ok('C18.R6', key, f'= {txt}', src(fi.module), n.lineno)
                    else:
                        r.fail('C18.R6', key, f'timestamp `{ast.unparse(t)}` is assigned `{txt}`, not the simulation clock env.now', src(fi.module), n.lineno)
