"""C19 - simulations are reproducible and time is monotone (partial: absence of the constructs that break it).

Forbidden-construct / taint rules over the whole package, each with a canary that must be reported on every run:
  R1 no iteration over (or arbitrary element taken from) set-typed values;
  R2 results of id() / hash() / default object repr never reach an ordering sink (sort key, <, min/max);
  R3 entropy only from the module-level `random` functions (seedable with random.seed);
  R4 no wall clock / real-time environment;
  R5 no write to the kernel clock or event queue, no heap operations on kernel state;
  R7 the time a node records at a state change is the simulation clock read at that call (monotone component clocks);
  R6 no state outlives an instance: module-level / class-level mutable objects are neither mutated at run time nor aliased or shallow-copied into
     instance attributes that are mutated in place ("twice in one interpreter" must start from the same state both times).
"""
from __future__ import annotations

import ast
from typing import Dict, List

from ..model import AnalysisError, Project
from ..report import Result
from .common import src

PROP = 'C19'
LEVEL = 'other'

ORDER_FUNCS = {'sorted', 'min', 'max'}
ENTROPY_BAD = {'SystemRandom', 'Random', 'urandom', 'getrandbits'}
WALL = {('time', 'time'), ('time', 'perf_counter'), ('time', 'monotonic'), ('time', 'time_ns'), ('time', 'sleep'), ('time', 'process_time'),
        ('datetime', 'now'), ('datetime', 'utcnow'), ('datetime', 'today'), ('date', 'today')}
KERNEL_ATTRS = {'_now', '_queue', '_eid', '_active_proc'}

CANARY = {
    'R1': "def f(s):\n    ready = set()\n    ready.add(s)\n    for x in ready:\n        print(x)\n    y = {1, 2}.pop()\n",
    'R2': "def f(items, ev, env):\n    items.sort(key=lambda e: id(e))\n    ev.rank = (0, str(env.active_process))\n    items.sort(key=lambda e: e.rank)\n    return min(items, key=hash)\n",
    'R3': "import random, os\nimport numpy as np\ndef f():\n    r = random.Random()\n    return r.random() + np.random.rand() + os.urandom(1)[0]\n",
    'R4': "import time\nimport simpy.rt\ndef f(env):\n    return time.time() - env.now\n",
    'R5': "import heapq\ndef f(env):\n    env._now = 0\n    heapq.heappush(env._queue, (0, 0, 0, None))\n",
}


def run(p: Project, tier: str) -> Result:
    r = Result(PROP)
    r.explanation = ('Whole-package scan for the constructs that make two runs differ: identity/hash-ordered iteration, unseedable entropy, wall '
                     'clock, writes to the kernel clock/queue. Run-to-run equality itself and monotone time are the kernel\'s guarantees given these.')
    r.rule('C19.R1', 'no iteration over set-typed values', 1)
    r.rule('C19.R2', 'id()/hash() never reach an ordering sink', 1)
    r.rule('C19.R3', 'entropy only from module-level random.*', 1)
    r.rule('C19.R4', 'no wall clock, no real-time environment', 1)
    r.rule('C19.R5', 'kernel clock and queue are never written', 1)
    r.rule('C19.R6', 'no state shared between instances or carried from one run to the next (module / class level objects mutated or leaking into instance state)', 1)
    r.not_decided = ['equality of two runs (needs execution)', 'monotone time is SimPy\'s guarantee given R5 and non-negative delays (C20.R4)']
    r.assumptions = ['dict iteration order is insertion order (language guarantee); simpy schedules events deterministically (time, priority, id)']
    trees = {rel: m.tree for rel, m in p.modules.items()}
    for rule, fn in (('R1', scan_sets), ('R2', scan_identity_order), ('R3', scan_entropy), ('R4', scan_clock), ('R5', scan_kernel)):
        n_sites = 0
        for rel, tree in sorted(trees.items()):
            r.analysed_functions.add(rel)
            hits, sites = fn(tree)
            n_sites += sites
            for line, what in hits:
                r.fail(f'C19.{rule}', f'{rel}::{what}', what_msg(rule, what), src(rel), line)
        r.ok(f'C19.{rule}', f'package::{rule}-scan', f'{len(trees)} modules, {n_sites} candidate site(s) examined', '', 0)
        r.stats[f'{rule}_sites'] = n_sites
        # canary
        chits, _ = fn(ast.parse(CANARY[rule]))
        r.canaries[f'C19.{rule}'] = bool(chits)
    # R6 works on the source as written: constant propagation would turn `dict(self._DEFAULTS)` into a fresh literal
    from .. import sharedstate
    raw = p.raw()
    hits, n_sites = sharedstate.scan({rel: m.tree for rel, m in raw.modules.items()})
    for rel, line, construct, msg in hits:
        r.fail('C19.R6', construct, msg, src(rel), line)
    r.ok('C19.R6', 'package::R6-scan', f'{len(raw.modules)} modules, {n_sites} module-/class-level mutable object(s) and run-time writes examined', '', 0)
    r.stats['R6_sites'] = n_sites
    # R7: the clock a component records is the kernel's clock at that moment (path rule shared with C17.R12)
    from .. import nodewalk
    from . import c17
    r.rule('C19.R7', 'every state-change stamp a node records is the current simulation clock (the component never sees time go backwards)', 8)
    sub = Result('C19')
    for w in nodewalk.walks(p):
        sub.ctx = r.ctx = w.ci.label
        c17.check_stamp_is_clock(w, sub)
        r.paths += w.npaths
    r.ctx = ''
    for o in sub.obligations:
        if o.rule == 'C17.R12' and o.ok:
            r.ok('C19.R7', o.construct, o.detail, o.file, o.line)
    for f in sub.findings:
        if f.rule == 'C17.R12':
            r.fail('C19.R7', f.construct, f.message, f.file, f.line, f.path)
    chits, _ = sharedstate.scan({'canary.py': ast.parse(sharedstate.CANARY)})
    kinds = {c.split('::')[-1].split('(')[0] for _, _, c, _ in chits}
    r.canaries['C19.R6'] = {'shared', 'mutates-shared', 'class-attribute-write'} <= kinds
    return r


def what_msg(rule, what):
    return {
        'R1': f'{what}: set iteration order depends on hashes / memory addresses, which differ between interpreter runs',
        'R2': f'{what}: an ordering decided by id()/hash() differs between interpreter runs',
        'R3': f'{what}: entropy that random.seed() does not control',
        'R4': f'{what}: wall-clock time leaks into the simulation',
        'R5': f'{what}: the kernel clock / event queue is manipulated directly',
    }[rule]


# ------------------------------------------------------------------------------------------- R1
def is_set_expr(n, setnames):
    if isinstance(n, (ast.Set, ast.SetComp)):
        return True
    if isinstance(n, ast.Call) and isinstance(n.func, ast.Name) and n.func.id in ('set', 'frozenset'):
        return True
    if isinstance(n, ast.Name) and n.id in setnames:
        return True
    if isinstance(n, ast.Attribute) and ast.unparse(n) in setnames:
        return True
    if isinstance(n, ast.BinOp) and isinstance(n.op, (ast.BitOr, ast.BitAnd, ast.Sub, ast.BitXor)) and (is_set_expr(n.left, setnames) or is_set_expr(n.right, setnames)):
        return True

    def is_view(v):      # dict views take part in set algebra and the result is a plain set (seed C19-g: `tokens.keys() & condition.events`)
        return isinstance(v, ast.Call) and isinstance(v.func, ast.Attribute) and v.func.attr in ('keys', 'items') and not v.args and not v.keywords
    if isinstance(n, ast.BinOp) and isinstance(n.op, (ast.BitOr, ast.BitAnd, ast.Sub, ast.BitXor)) and (is_view(n.left) or is_view(n.right)):
        return True
    if isinstance(n, ast.Call) and isinstance(n.func, ast.Attribute) and n.func.attr in ('union', 'intersection', 'difference', 'symmetric_difference') \
            and is_set_expr(n.func.value, setnames):
        return True
    return False


def scan_sets(tree):
    hits = []
    sites = 0
    setnames = set()
    for _ in range(2):
        for n in ast.walk(tree):
            if isinstance(n, ast.Assign) and is_set_expr(n.value, setnames):
                for t in n.targets:
                    setnames.add(ast.unparse(t))
            if isinstance(n, ast.AnnAssign) and n.value is not None and is_set_expr(n.value, setnames):
                setnames.add(ast.unparse(n.target))
    for n in ast.walk(tree):
        its = []
        if isinstance(n, (ast.For, ast.AsyncFor)):
            its.append(n.iter)
        if isinstance(n, (ast.ListComp, ast.GeneratorExp, ast.SetComp, ast.DictComp)):
            its += [g.iter for g in n.generators]
        if isinstance(n, ast.Call) and isinstance(n.func, ast.Name) and n.func.id in ('list', 'tuple', 'next', 'iter', 'enumerate', 'zip') and n.args:
            its += list(n.args)
        for it in its:
            sites += 1
            inner = it
            if isinstance(inner, ast.Call) and isinstance(inner.func, ast.Name) and inner.func.id in ('iter', 'enumerate', 'reversed', 'list') and inner.args:
                inner = inner.args[0]
            if is_set_expr(inner, setnames):
                hits.append((it.lineno, f'iteration over the set `{ast.unparse(inner)[:40]}`'))
        if isinstance(n, ast.Call) and isinstance(n.func, ast.Attribute) and n.func.attr == 'pop' and not n.args and is_set_expr(n.func.value, setnames):
            hits.append((n.lineno, f'arbitrary element popped from the set `{ast.unparse(n.func.value)[:40]}`'))
    return hits, sites


# ------------------------------------------------------------------------------------------- R2
ADDRESS_REPR = {'requesting_process', 'active_process', 'resourcename', 'env', '_env', 'process', 'self'}   # objects printed as `<... object at 0x...>`
TAINTED_ATTRS: set = set()       # attributes that somewhere receive a value derived from id() / hash() / an address-bearing repr (package-wide pre-pass)


def _address_object(e) -> bool:
    """an expression denoting a process / event / environment / store / component object: its str() and repr() contain the memory address"""
    if isinstance(e, ast.Name):
        return e.id in ADDRESS_REPR
    if isinstance(e, ast.Attribute):
        return e.attr in ADDRESS_REPR
    if isinstance(e, ast.Call) and isinstance(e.func, ast.Attribute) and e.func.attr in ('process', 'event', 'timeout') and 'env' in ast.unparse(e.func.value):
        return True
    return False


def identity_calls(n):
    for x in ast.walk(n):
        if isinstance(x, ast.Call) and isinstance(x.func, ast.Name) and x.func.id in ('id', 'hash'):
            yield x
        if isinstance(x, ast.Name) and x.id in ('id', 'hash') and isinstance(x.ctx, ast.Load):
            yield x
        # str(obj) / repr(obj) / format(obj) / f"{obj}" of an object without a repr of its own: the text contains the address
        if isinstance(x, ast.Call) and isinstance(x.func, ast.Name) and x.func.id in ('str', 'repr', 'format', 'ascii') and x.args and _address_object(x.args[0]):
            yield x
        if isinstance(x, ast.FormattedValue) and _address_object(x.value):
            yield x
        if isinstance(x, ast.Attribute) and x.attr in TAINTED_ATTRS and isinstance(x.ctx, ast.Load):
            yield x


def collect_tainted_attrs(trees):
    """attributes assigned (anywhere in the package) a value derived from id() / hash() / an address-bearing repr: reading them in an ordering
    sink orders by memory address just as well"""
    TAINTED_ATTRS.clear()
    for _ in range(2):
        for tree in trees:
            for n in ast.walk(tree):
                if isinstance(n, (ast.Assign, ast.AnnAssign, ast.AugAssign)) and getattr(n, 'value', None) is not None and any(True for _ in identity_calls(n.value)):
                    for t in (n.targets if isinstance(n, ast.Assign) else [n.target]):
                        if isinstance(t, ast.Attribute):
                            TAINTED_ATTRS.add(t.attr)


def scan_identity_order(tree):
    collect_tainted_attrs([tree])            # per module: the attribute is written and read by the same store / node class
    hits = []
    sites = 0
    parents = {}
    for n in ast.walk(tree):
        for c in ast.iter_child_nodes(n):
            parents[c] = n
    tainted = set()
    for n in ast.walk(tree):
        if isinstance(n, ast.Assign) and any(True for _ in identity_calls(n.value)):
            # str(id(x)) used as a dictionary key is fine; remember the name to check its uses
            for t in n.targets:
                if isinstance(t, ast.Name):
                    tainted.add(t.id)
    for n in ast.walk(tree):
        # sort / sorted / min / max with a key that uses id/hash, or applied to tainted values
        if isinstance(n, ast.Call):
            fname = n.func.id if isinstance(n.func, ast.Name) else (n.func.attr if isinstance(n.func, ast.Attribute) else None)
            if fname in ORDER_FUNCS or fname == 'sort':
                sites += 1
                for k in n.keywords:
                    if k.arg == 'key':
                        if any(True for _ in identity_calls(k.value)):
                            via = [x.attr for x in ast.walk(k.value) if isinstance(x, ast.Attribute) and x.attr in TAINTED_ATTRS]
                            hits.append((n.lineno, f'`{fname}` ordered by id()/hash()' + (f' / an address-bearing repr (through `.{via[0]}`)' if via else '')))
                        if any(isinstance(x, ast.Name) and x.id in tainted for x in ast.walk(k.value)):
                            hits.append((n.lineno, f'`{fname}` ordered by a value derived from id()/hash()'))
                if fname in ORDER_FUNCS and not n.keywords:
                    for a in n.args:
                        if any(True for _ in identity_calls(a)):
                            hits.append((n.lineno, f'`{fname}` over id()/hash() values'))
        if isinstance(n, ast.Compare) and any(isinstance(o, (ast.Lt, ast.Gt, ast.LtE, ast.GtE)) for o in n.ops):
            sites += 1
            operands = [n.left] + list(n.comparators)
            for o in operands:
                if any(True for _ in identity_calls(o)) or (isinstance(o, ast.Name) and o.id in tainted):
                    hits.append((n.lineno, 'ordering comparison on an id()/hash() value'))
    return hits, sites


# ------------------------------------------------------------------------------------------- R3
def scan_entropy(tree):
    hits = []
    sites = 0
    np_aliases = set()
    for n in ast.walk(tree):
        if isinstance(n, ast.Import):
            for a in n.names:
                if a.name == 'numpy':
                    np_aliases.add(a.asname or 'numpy')
                if a.name in ('secrets', 'uuid'):
                    hits.append((n.lineno, f'import {a.name}'))
        if isinstance(n, ast.ImportFrom) and n.module in ('secrets', 'uuid', 'numpy.random'):
            hits.append((n.lineno, f'from {n.module} import ...'))
        if isinstance(n, ast.ImportFrom) and n.module == 'random':
            for a in n.names:
                if a.name in ENTROPY_BAD:
                    hits.append((n.lineno, f'from random import {a.name}'))
    for n in ast.walk(tree):
        if isinstance(n, ast.Attribute):
            txt = ast.unparse(n)
            if txt.startswith('random.'):
                sites += 1
                if n.attr in ENTROPY_BAD:
                    hits.append((n.lineno, f'`{txt}` (a private / system generator)'))
            for al in np_aliases:
                if txt.startswith(f'{al}.random'):
                    sites += 1
                    hits.append((n.lineno, f'`{txt}` (numpy generator, not seeded by random.seed)'))
            if txt in ('os.urandom', 'os.getrandom'):
                hits.append((n.lineno, f'`{txt}`'))
    # de-duplicate by line
    seen = set()
    out = []
    for h in hits:
        if h not in seen:
            seen.add(h)
            out.append(h)
    return out, sites


# ------------------------------------------------------------------------------------------- R4
def scan_clock(tree):
    hits = []
    sites = 0
    for n in ast.walk(tree):
        if isinstance(n, ast.Import):
            for a in n.names:
                if a.name.startswith('simpy.rt'):
                    hits.append((n.lineno, 'import simpy.rt'))
        if isinstance(n, ast.ImportFrom) and (n.module or '').startswith('simpy.rt'):
            hits.append((n.lineno, 'from simpy.rt import ...'))
        if isinstance(n, ast.ImportFrom) and n.module == 'time':
            for a in n.names:
                if ('time', a.name) in WALL:
                    hits.append((n.lineno, f'from time import {a.name}'))
        if isinstance(n, ast.Attribute):
            sites += 1
            base = n.value
            bname = base.id if isinstance(base, ast.Name) else (base.attr if isinstance(base, ast.Attribute) else None)
            if (bname, n.attr) in WALL:
                hits.append((n.lineno, f'`{ast.unparse(n)}`'))
            if n.attr == 'RealtimeEnvironment':
                hits.append((n.lineno, '`RealtimeEnvironment`'))
    return hits, sites


# ------------------------------------------------------------------------------------------- R5
def scan_kernel(tree):
    hits = []
    sites = 0
    for n in ast.walk(tree):
        if isinstance(n, (ast.Assign, ast.AugAssign, ast.Delete)):
            for t in (n.targets if isinstance(n, (ast.Assign, ast.Delete)) else [n.target]):
                sites += 1
                base = t.value if isinstance(t, ast.Subscript) else t
                if isinstance(base, ast.Attribute) and base.attr in KERNEL_ATTRS:
                    hits.append((n.lineno, f'write to `{ast.unparse(base)}`'))
        if isinstance(n, ast.Attribute) and ast.unparse(n).startswith('heapq.'):
            hits.append((n.lineno, f'`{ast.unparse(n)}`'))
        if isinstance(n, ast.Call) and isinstance(n.func, ast.Attribute) and isinstance(n.func.value, ast.Attribute) and n.func.value.attr in ('_queue',) \
                and n.func.attr in ('append', 'pop', 'remove', 'insert', 'clear', 'sort'):
            hits.append((n.lineno, f'`{ast.unparse(n.func)}` on the kernel queue'))
    seen = set()
    out = []
    for h in hits:
        if h not in seen:
            seen.add(h)
            out.append(h)
    return out, sites
