from ..model import AnalysisError
PROP = 'C19'
LEVEL = 'other'


def run(p, tier):
    raise AnalysisError('rule module for C19 not implemented yet (fail closed)')
