"""C20 - every valid model runs to completion: no crash, no zero-time livelock (partial).

  R1 attribute existence: every `self.X` read in a reachable method exists in the class hierarchy; every
     attribute read on an element of self.in_edges / self.out_edges exists on *every* Edge subclass unless the
     access is guarded by a class-name dispatch;
  R2 interface / dispatch exhaustiveness: every Edge subclass overrides every abstract Edge method that library
     code calls; every raising `__class__.__name__` dispatch accepts every Edge subclass;
  R3 progress: every function handed to env.process is a generator and every iteration of its process loop
     suspends; every other loop of reachable code is a `for` or a `while` with a recognised variant;
  R4 the documented validations are present (capacity, buffer mode, non-negative delays, non-blocking source
     with zero inter-arrival time, node without its edges, constant edge index in range);
  R5 one-shot events: `.succeed()` on an attribute-held event reachable from put/get is guarded or fresh
     (frozen table, one line of reason per entry);
  R6 every yielded value is an event;
  R7 no attribute access on a value that is None on the first iteration of a node process.
"""
from __future__ import annotations

import ast

from .. import nodewalk, paths, tables
from ..model import AnalysisError, Project, reachable, self_attr, walk_no_nested
from ..report import Result, ctx_of
from .common import site, src, guard_rejects

PROP = 'C20'
LEVEL = 'other'

EDGE_CALLED_BY_LIBRARY = ('reserve_put', 'reserve_get', 'put', 'get', 'can_put')
EXTERNAL_OK = {'env', '_env', 'items', 'capacity', 'put_queue', 'get_queue', 'callbacks', 'proc', 'resource'}

# R5: the conveyor-level wake-up events (store-level ones are judged by C01.O8)
ONE_SHOT_TABLE = {
    ('edges/continuous_conveyor.py', 'ConveyorBelt', 'put', 'self.item_arrival_event'):
        ('advisory', 'guarded by `len(belt.items) == 1 and state == IDLE`, re-armed by behaviour before the next arrival can see IDLE; reviewed, no witness'),
    ('edges/continuous_conveyor.py', 'ConveyorBelt', 'put', 'self.put_events_available'):
        ('violation', 'D12: two puts in one instant (Machine with work_capacity > 1 finishing together) succeed() the same event twice'),
    ('edges/continuous_conveyor.py', 'ConveyorBelt', 'get', 'self.get_events_available'):
        ('advisory', 'a conveyor has one destination and every consumer yields between two gets, so behaviour re-arms in between; reviewed, no witness'),
}


def run(p: Project, tier: str) -> Result:
    r = Result(PROP)
    r.explanation = ('Structural crash / livelock freedom: attribute existence over the reachable code, interface and dispatch exhaustiveness over '
                     'the Edge subclasses, a yield in every process-loop iteration, presence of the documented validations, one-shot event '
                     'discipline. Absence of all run-time exceptions (D15) and zero-delay livelock (D16) depend on run-time values: not decided.')
    r.rule('C20.R1', 'attributes read in reachable code exist (self.* and elements of the edge lists)', 200)
    r.rule('C20.R2', 'abstract Edge methods called by the library are implemented; raising class-name dispatches list every Edge subclass', 20)
    r.rule('C20.R3', 'process roots are generators whose loop iterations suspend; other loops have a variant', 20)
    r.rule('C20.R4', 'documented input validations are present', 12)
    r.rule('C20.R5', 'one-shot conveyor events are succeeded at most once per arming', 3)
    r.rule('C20.R6', 'yielded values are events', 40)
    r.rule('C20.R7', 'no attribute access on None on the first iteration of a node process', 4)
    r.rule('C20.R8', 'a wake-up event found triggered is re-armed before the process waits again', 5)
    r.not_decided = ['D15: _get_belt_pattern raises RuntimeError for some valid real-valued timings (run-time values)',
                     'D16: timer loops with delay 0 (fleet delay, slotted belt delay, blocking source) spin in zero time (run-time values)',
                     'exceptions raised inside SimPy itself']
    reach = reachable(p)
    r.stats['reachable_functions'] = len(reach)
    r.stats['unreachable_functions'] = sorted(f.key for f in p.all_functions() if f.key not in reach)
    check_attributes(p, reach, r)
    check_initialised_before_read(p, reach, r)
    check_interface(p, reach, r)
    check_progress(p, reach, r)
    check_validations(p, r)
    check_one_shot(p, r)
    check_rearm(p, r)
    check_yields(p, reach, r)
    check_none_deref(p, r)
    return r


# ------------------------------------------------------------------------------------------- R1
def class_dispatch_guards(fn):
    """line ranges (first, last) of statements guarded by a test on `X.__class__.__name__`"""
    out = []
    for n in walk_no_nested(fn):
        if isinstance(n, ast.If) and '__class__.__name__' in ast.unparse(n.test):
            for blk in (n.body, n.orelse):
                if blk:
                    out.append((blk[0].lineno, max(getattr(x, 'end_lineno', x.lineno) for x in blk)))
    return out


def check_initialised_before_read(p, reach, r):
    """R1b: an attribute that no constructor (nor reset) of a concrete class initialises, and that a method of the class reads before it assigns it,
    does not exist at the first call of that method (AttributeError) - e.g. an accumulator whose initialisation was dropped from __init__."""
    n_ok = 0
    for ci in p.classes.values():
        if p.subclasses(ci.key):
            continue
        init_attrs = set()
        for c in p.mro(ci.key):
            for mname in ('__init__', 'reset'):
                m = c.methods.get(mname)
                if m:
                    for n in ast.walk(m.node):
                        if isinstance(n, ast.Attribute) and isinstance(n.ctx, ast.Store) and isinstance(n.value, ast.Name) and n.value.id == 'self':
                            init_attrs.add(n.attr)
        sites = p.self_attr_sites(ci.key)
        meths = p.methods(ci.key)
        used = {n.attr for f in meths.values() for n in walk_no_nested(f.node)
                if isinstance(n, ast.Attribute) and isinstance(n.value, ast.Name) and n.value.id == 'self' and n.attr in meths}
        for name, fi in meths.items():
            if fi.key not in reach or name == '__init__' or name not in used:
                continue
            first = {}
            for n in walk_no_nested(fi.node):
                if isinstance(n, ast.Attribute) and isinstance(n.value, ast.Name) and n.value.id == 'self':
                    kind = 'w' if isinstance(n.ctx, ast.Store) else 'r'
                    k = (n.lineno, 1 if kind == 'w' else 0)
                    if n.attr not in first or k < first[n.attr][0]:
                        first[n.attr] = (k, kind, n.lineno)
            for a, (k, kind, line) in sorted(first.items()):
                if a in init_attrs or a not in sites or any(a in c.methods or a in c.class_attrs for c in p.mro(ci.key)):
                    continue
                key = f'{ci.label}.{name}::initialised-before-read(self.{a})'
                if kind == 'r':
                    r.fail('C20.R1', key, f'`self.{a}` is read here before anything assigned it: no constructor of {ci.name} initialises it and this method only assigns it '
                                          f'afterwards - AttributeError at the first call', src(fi.module), line)
                else:
                    n_ok += 1
    r.stats['attributes_assigned_before_read_outside_constructors'] = n_ok


def check_attributes(p, reach, r):
    edges = tables.edge_classes(p)
    nodes = {c.key for c in tables.node_classes(p)}
    n_self = 0
    for fi in p.all_functions():
        if fi.key not in reach or fi.cls is None:
            continue
        key_cls = (fi.module, fi.cls)
        r.analysed_functions.add(fi.key)
        seen = set()
        for n in walk_no_nested(fi.node):
            a = self_attr(n)
            if a is None or not isinstance(n.ctx, ast.Load) or a in seen:
                continue
            seen.add(a)
            n_self += 1
            ok = p.has_member(key_cls, a) or a in EXTERNAL_OK
            if not ok:
                # subclasses may define it (template-method style); accept if every concrete subclass does
                subs = p.subclasses(key_cls)
                ok = bool(subs) and all(p.has_member(s_.key, a) for s_ in subs)
            key = f'{fi.key}::self.{a}'
            if ok:
                r.ok('C20.R1', key, 'defined in the class hierarchy', src(fi.module), n.lineno)
            else:
                r.fail('C20.R1', key, f'`self.{a}` is read but never assigned anywhere in {fi.cls} or its bases: AttributeError when this code runs',
                       src(fi.module), n.lineno)
    r.stats['self_attribute_reads'] = n_self
    # attributes read through a typed attribute: self.<a>.<X> where self.<a> is constructed from a package class
    n_typed = 0
    for fi in p.all_functions():
        if fi.key not in reach or fi.cls is None:
            continue
        key_cls = (fi.module, fi.cls)
        seen2 = set()
        for n in walk_no_nested(fi.node):
            if isinstance(n, ast.Attribute) and isinstance(n.value, ast.Attribute) and self_attr(n.value) and isinstance(n.ctx, ast.Load):
                a, x = n.value.attr, n.attr
                if (a, x) in seen2:
                    continue
                targets = p.attr_class(key_cls, a)
                if not targets:
                    continue
                seen2.add((a, x))
                n_typed += 1
                missing = [k for k in targets if not (p.has_member(k, x) or x in EXTERNAL_OK)]
                key = f'{fi.key}::self.{a}.{x}'
                if missing:
                    r.fail('C20.R1', key, f'`self.{a}.{x}` is read, but `self.{a}` is a {missing[0][1]} ({missing[0][0]}) which has no attribute `{x}`: AttributeError',
                           src(fi.module), n.lineno)
                else:
                    r.ok('C20.R1', key, f'exists on {", ".join(k[1] for k in targets)}', src(fi.module), n.lineno)
    r.stats['typed_attribute_reads'] = n_typed
    # methods called on `<token>.resourcename` (the issuing store): must exist on every store class
    stores = tables.discover_stores(p)
    for fi in p.all_functions():
        if fi.key not in reach:
            continue
        for n in walk_no_nested(fi.node):
            if isinstance(n, ast.Attribute) and isinstance(n.value, ast.Attribute) and n.value.attr == 'resourcename' and isinstance(n.ctx, ast.Load):
                missing = [s_.ci.label for s_ in stores if n.attr not in s_.methods and not p.has_member(s_.ci.key, n.attr)]
                key = f'{fi.key}::<token>.resourcename.{n.attr}'
                if missing:
                    r.fail('C20.R1', key, f'`{ast.unparse(n)}` is used on the store that issued a token, but {missing[:3]} define no `{n.attr}`', src(fi.module), n.lineno)
                else:
                    r.ok('C20.R1', key, 'defined by every store class', src(fi.module), n.lineno)
    # attributes read on elements of the node's edge lists
    for fi in p.all_functions():
        if fi.key not in reach or fi.cls is None or (fi.module, fi.cls) not in nodes:
            continue
        guards = class_dispatch_guards(fi.node)
        edge_vars = {}
        for n in ast.walk(fi.node):
            gens = []
            if isinstance(n, (ast.ListComp, ast.GeneratorExp)):
                gens = n.generators
            for g in gens:
                if isinstance(g.target, ast.Name) and ast.unparse(g.iter) in ('self.in_edges', 'self.out_edges'):
                    edge_vars[g.target.id] = (n, ast.unparse(g.iter))
            if isinstance(n, ast.For) and isinstance(n.target, ast.Name) and ast.unparse(n.iter) in ('self.in_edges', 'self.out_edges'):
                edge_vars[n.target.id + f'@{n.lineno}'] = (n, ast.unparse(n.iter))
        for var, (comp, lst) in edge_vars.items():
            var = var.split('@')[0]
            for x in ast.walk(comp):
                if isinstance(x, ast.Attribute) and isinstance(x.value, ast.Name) and x.value.id == var and isinstance(x.ctx, ast.Load):
                    if any(a <= x.lineno <= b for a, b in guards):
                        continue
                    missing = [e.name + '@' + e.module for e in edges if not (p.has_member(e.key, x.attr))]
                    key = f'{fi.key}::<{lst} element>.{x.attr}'
                    if missing:
                        r.fail('C20.R1', key, f'`{var}.{x.attr}` is read for every element of {lst}, but {missing} have no attribute `{x.attr}`: '
                                              f'AttributeError as soon as such an edge is connected', src(fi.module), x.lineno)
                    else:
                        r.ok('C20.R1', key, 'exists on every Edge subclass', src(fi.module), x.lineno)


# ------------------------------------------------------------------------------------------- R2
def check_interface(p, reach, r):
    base = tables.find_base(p, 'Edge', 'edges/edge.py')
    abstract = [name for name, fi in base.methods.items() if any(isinstance(x, ast.Raise) and 'NotImplementedError' in ast.unparse(x) for x in fi.node.body)]
    edges = tables.edge_classes(p)
    names = sorted({e.name for e in edges})
    for e in edges:
        for m in abstract:
            own = any(m in c.methods for c in p.mro(e.key) if c.key != base.key)
            key = f'{e.label}.{m}::implemented'
            if own:
                r.ok('C20.R2', key, 'overridden', src(e.module), e.node.lineno)
            elif m in EDGE_CALLED_BY_LIBRARY:
                r.fail('C20.R2', key, f'{e.name} does not override Edge.{m}, which node code calls: NotImplementedError at run time', src(e.module), e.node.lineno)
            else:
                r.advisories.append(f'C20.R2 {key}: not overridden (no library caller; e.g. Fleet implements get_occupancy instead of occupancy)')
    # raising class-name dispatches
    for fi in p.all_functions():
        if fi.key not in reach:
            continue
        for n in walk_no_nested(fi.node):
            if not (isinstance(n, ast.If) and '__class__.__name__' in ast.unparse(n.test)):
                continue
            # only heads of chains
            parent_is_elif = False
            for m in walk_no_nested(fi.node):
                if isinstance(m, ast.If) and len(m.orelse) == 1 and m.orelse[0] is n:
                    parent_is_elif = True
            if parent_is_elif:
                continue
            accepted = set()
            subject = None
            cur = n
            final_else = None
            while True:
                t = cur.test
                subj, acc = dispatch_names(t)
                if subj is None:
                    break
                subject = subject or subj
                accepted |= acc
                if len(cur.orelse) == 1 and isinstance(cur.orelse[0], ast.If) and '__class__.__name__' in ast.unparse(cur.orelse[0].test):
                    cur = cur.orelse[0]
                    continue
                final_else = cur.orelse
                break
            if subject is None or not final_else:
                continue
            if not any(isinstance(x, ast.Raise) for s_ in final_else for x in ast.walk(s_)):
                continue
            # (keyed by what the dispatch accepts and its position among the dispatches of the function, not by the name of a local)
            key = site(fi, n, f'edge-type-dispatch[accepts {"+".join(sorted(accepted))}]', same=lambda x: isinstance(x, ast.If) and '__class__.__name__' in ast.unparse(x.test))
            missing = [nm for nm in names if nm not in accepted]
            if missing:
                r.fail('C20.R2', key, f'dispatch on `{subject}.__class__.__name__` accepts {sorted(accepted)} and raises otherwise: '
                                      f'{missing} edge(s) connected here crash the node with "Unsupported edge type"', src(fi.module), n.lineno)
            else:
                r.ok('C20.R2', key, f'accepts {sorted(accepted)}', src(fi.module), n.lineno)


def dispatch_names(t):
    """(subject text, accepted class names) of a test on X.__class__.__name__ (==, in [..], or-chains)"""
    if isinstance(t, ast.BoolOp) and isinstance(t.op, ast.Or):
        subj = None
        acc = set()
        for v in t.values:
            s_, a = dispatch_names(v)
            if s_ is None:
                return None, set()
            subj = subj or s_
            acc |= a
        return subj, acc
    if isinstance(t, ast.Compare) and len(t.ops) == 1 and isinstance(t.left, ast.Attribute) and t.left.attr == '__name__':
        subj = ast.unparse(t.left.value.value) if isinstance(t.left.value, ast.Attribute) else None
        c = t.comparators[0]
        if isinstance(t.ops[0], ast.Eq) and isinstance(c, ast.Constant):
            return subj, {c.value}
        if isinstance(t.ops[0], ast.In) and isinstance(c, (ast.List, ast.Tuple, ast.Set)):
            return subj, {e.value for e in c.elts if isinstance(e, ast.Constant)}
    return None, set()


# ------------------------------------------------------------------------------------------- R3
def spawned_targets(p, reach):
    """(spawner FuncInfo, Call node, target FuncInfo|None) for every env.process(<call>) in reachable code"""
    out = []
    for fi in p.all_functions():
        if fi.key not in reach:
            continue
        for n in walk_no_nested(fi.node):
            if isinstance(n, ast.Call) and isinstance(n.func, ast.Attribute) and n.func.attr == 'process' and n.args and isinstance(n.args[0], ast.Call):
                inner = n.args[0]
                tgt = None
                if self_attr(inner.func) and fi.cls:
                    tgt = p.method((fi.module, fi.cls), inner.func.attr)
                out.append((fi, n, tgt))
    return out


def loop_has_variant(fi, loop) -> (bool, str):
    """recognised termination arguments for a `while` loop in non-process code / inner loops"""
    t = loop.test
    tt = ast.unparse(t).replace(' ', '')
    body_txt = ast.unparse(ast.Module(body=loop.body, type_ignores=[])).replace(' ', '')
    # (a) idx < len(L): every iteration either increments idx, pops from L, or breaks  (service loops)
    if isinstance(t, ast.Compare) and isinstance(t.left, ast.Name) and tt.startswith(f'{t.left.id}<len('):
        v = t.left.id
        if f'{v}+=1' in body_txt and ('.pop(' in body_txt):
            return True, f'|queue| − {v} decreases (checked path-wise by C04.R3)'
    # (b) len(X) > 0 with X.pop in the body on every iteration
    truthy_list = isinstance(t, (ast.Name, ast.Attribute)) and f'{tt}.pop(' in body_txt     # `while X:` with X.pop(...) in the body
    if truthy_list or (tt.startswith('len(') and (tt.endswith(')>0') or tt.endswith(')!=0'))):
        x = tt if truthy_list else tt[4:tt.rindex(')')]
        first = loop.body[0] if loop.body else None
        if f'{x}.pop(' in body_txt:
            # the pop must not be conditional: every path through the body that reaches its end (no raise / return / break) executes it
            def pops(s_):
                return not isinstance(s_, (ast.If, ast.For, ast.While, ast.Try, ast.With)) and f'{x}.pop(' in ast.unparse(s_).replace(' ', '')

            def every_completing_path(stmts):
                for s_ in stmts:
                    if pops(s_):
                        return True
                    if isinstance(s_, ast.If) and s_.orelse and branch_ok(s_.body) and branch_ok(s_.orelse):
                        return True
                return False

            def branch_ok(stmts):
                return (bool(stmts) and isinstance(stmts[-1], (ast.Raise, ast.Return, ast.Break))) or every_completing_path(stmts)
            if every_completing_path(loop.body):
                return True, f'len({x}) decreases on every iteration'
    # (c) while <anything>: v -= 1; if v < 0: raise; ...      (a counter that strictly decreases and is bounded below by a raise)
    if True:
        decs = [s_ for s_ in loop.body if isinstance(s_, ast.AugAssign) and isinstance(s_.op, ast.Sub) and isinstance(s_.target, ast.Name)]
        for d in decs:
            v = d.target.id
            guard = any(isinstance(s_, ast.If) and ast.unparse(s_.test).replace(' ', '') == f'{v}<0' and any(isinstance(x, ast.Raise) for x in s_.body)
                        for s_ in loop.body)
            if guard:
                return True, f'{v} strictly decreases and the loop raises below 0'
    # (d) while remaining > 0: with the body assigning remaining = 0 / decreasing it on every path that continues
    if isinstance(t, ast.Compare) and isinstance(t.left, ast.Name) and tt == f'{t.left.id}>0':
        v = t.left.id
        if f'{v}=0' in body_txt or f'{v}-=' in body_txt:
            return True, f'{v} is reset to 0 or decreased by the elapsed time in every iteration (and each iteration suspends)'
    return False, f'`while {ast.unparse(t)}`: no recognised variant'


def check_progress(p, reach, r):
    # (a) spawned functions are generators
    for fi, call, tgt in spawned_targets(p, reach):
        key = site(fi, call, 'spawn')
        if tgt is None:
            r.ok('C20.R3', key, 'spawn of a non-self callable (not resolved; its own class is checked where defined)', src(fi.module), call.lineno)
            continue
        if tgt.is_generator:
            r.ok('C20.R3', key, f'{tgt.qual} is a generator', src(fi.module), call.lineno)
        else:
            r.fail('C20.R3', key, f'env.process() is given `{tgt.qual}(...)`, which is not a generator function: ValueError at run time '
                                  f'(or an endless plain loop inside the call)', src(fi.module), call.lineno)
    # (a') every node, and every edge with a state machine of its own (the conveyors), starts its behaviour process exactly once at construction
    starters = list(tables.node_classes(p)) + [ci for ci in tables.edge_classes(p) if ci.name == 'ConveyorBelt']
    for ci in starters:
        beh = p.method(ci.key, 'behaviour')
        if beh is None or not beh.is_generator:
            continue
        key = f'{ci.label}.__init__::starts-behaviour'
        n = 0
        line = ci.node.lineno
        for c in p.mro(ci.key):
            init = c.methods.get('__init__')
            if init is None:
                continue
            for x in walk_no_nested(init.node):
                if isinstance(x, ast.Call) and isinstance(x.func, ast.Attribute) and x.func.attr == 'process' and x.args \
                        and isinstance(x.args[0], ast.Call) and ast.unparse(x.args[0].func) == 'self.behaviour':
                    n += 1
                    line = x.lineno
        if n == 1:
            r.ok('C20.R3', key, 'env.process(self.behaviour()) once in the constructor', src(ci.module), line)
        else:
            r.fail('C20.R3', key, f'the constructor starts the behaviour process {n} time(s): ' +
                   ('the component is inert, items reaching it are never handled and the line stops' if n == 0 else 'two state machines fight over the same component'),
                   src(ci.module), line)
    # (b) every iteration of a process loop suspends: path based on all generator roots
    roots = []
    for w in nodewalk.walks(p):
        r.ctx = ctx_of(w)
        for root, ps in w.roots.items():
            roots.append((w.root_funcs[root], ps))
    from .. import storewalk
    for w in storewalk.walks(p, assume_inv=('I1',)):
        for root in w.store.process_roots:
            if w.root_funcs[root].is_generator:
                roots.append((w.root_funcs[root], w.roots[root]))
    for ci in tables.edge_classes(p):
        b = ci.methods.get('behaviour')
        if b is not None and b.is_generator and b.key in reach:
            ex = paths.Explorer(p, ci.key, tracked=set(), atomic=set(p.methods(ci.key)), unroll=1, track_attrs=True, interrupt_edges=False)
            roots.append((b, ex.paths(b)))
    seen_roots = set()
    for fi, ps in roots:
        if fi.key in seen_roots:
            continue
        seen_roots.add(fi.key)
        r.analysed_functions.add(fi.key)
        r.paths += len(ps)
        has_loop = any(pa.status == 'backedge' for pa in ps)
        if not has_loop:
            continue
        key = f'{fi.key}::process-loop-suspends'
        bad = None
        for pa in ps:
            if pa.status != 'backedge':
                continue
            evs = pa.events
            heads = [i for i, e in enumerate(evs) if e.kind == 'loophead' and e.fi.key == fi.key]
            start = heads[0] if heads else 0
            if not any(e.kind == 'yield' for e in evs[start:]):
                bad = pa
        if bad:
            r.fail('C20.R3', key, 'an iteration of the process loop reaches the back-edge without suspending: the process spins in zero simulated time '
                                  'and run(until=T) never returns', src(fi.module), fi.node.lineno, bad.describe())
        else:
            r.ok('C20.R3', key, 'every iteration suspends at least once', src(fi.module), fi.node.lineno)
    # (c) while loops of reachable code
    for fi in p.all_functions():
        if fi.key not in reach:
            continue
        for n in walk_no_nested(fi.node):
            if not isinstance(n, ast.While):
                continue
            is_proc_loop = isinstance(n.test, ast.Constant) and n.test.value is True and fi.is_generator \
                and any(isinstance(x, (ast.Yield, ast.YieldFrom)) for x in ast.walk(n)) and fi.key in seen_roots
            key = site(fi, n, 'while', same=lambda x: isinstance(x, ast.While))
            if is_proc_loop:
                continue
            if isinstance(n.test, ast.Constant) and n.test.value is True and fi.is_generator and any(isinstance(x, ast.Yield) for x in ast.walk(n)):
                # a generator with an infinite yielding loop that is not a simulation process (edge selectors): lazily consumed, fine
                r.ok('C20.R3', key, 'infinite generator consumed one value at a time', src(fi.module), n.lineno)
                continue
            ok, why = loop_has_variant(fi, n)
            if ok:
                r.ok('C20.R3', key, why, src(fi.module), n.lineno)
            else:
                r.fail('C20.R3', key, f'{why}: the loop can run for ever without suspending', src(fi.module), n.lineno)


# ------------------------------------------------------------------------------------------- R4
def _call_pred(pred, text, node):
    try:
        return pred(text, node)
    except TypeError:
        return pred(text)


def find_raise_under(fn, pred):
    """a `raise`/assert whose governing condition satisfies pred(text[, test node])"""
    for n in walk_no_nested(fn):
        if isinstance(n, ast.If) and any(isinstance(x, ast.Raise) for x in n.body) and _call_pred(pred, ast.unparse(n.test).replace(' ', ''), n.test):
            return n
        if isinstance(n, ast.Assert) and pred('assert:' + ast.unparse(n.test).replace(' ', '')):
            return n
    return None


def check_validations(p, r):
    def need(cls_rel, cls, meth, label, pred, what):
        ci = p.cls(cls_rel, cls)
        fi = ci.methods.get(meth)
        key = f'{cls_rel}::{cls}.{meth}::validates:{label}'
        if fi is None:
            r.fail('C20.R4', key, f'{meth} missing', src(cls_rel), ci.node.lineno)
            return
        r.analysed_functions.add(fi.key)
        hit = find_raise_under(fi.node, pred)
        if hit is None:
            # the check may live in a private helper that this method calls (transitively)
            meths = p.methods(ci.key)
            seen, work = {meth}, [fi]
            while work and hit is None:
                g = work.pop()
                for n in walk_no_nested(g.node):
                    if isinstance(n, ast.Call) and isinstance(n.func, ast.Attribute) and isinstance(n.func.value, ast.Name) and n.func.value.id == 'self' \
                            and n.func.attr in meths and n.func.attr.startswith('_') and n.func.attr not in seen:
                        seen.add(n.func.attr)
                        h = meths[n.func.attr]
                        hit = hit or find_raise_under(h.node, pred)
                        work.append(h)
        if hit is not None:
            r.ok('C20.R4', key, what, src(cls_rel), hit.lineno)
        else:
            r.fail('C20.R4', key, f'validation removed: {what} - the invalid configuration is silently simulated', src(cls_rel), fi.node.lineno)
    # capacity: the raise-guards of Edge.__init__ that mention the capacity, taken together, reject every non-int / non-positive value
    ci_e = p.cls('edges/edge.py', 'Edge')
    init_e = ci_e.methods.get('__init__')
    key_c = 'edges/edge.py::Edge.__init__::validates:capacity'
    if init_e is None:
        r.fail('C20.R4', key_c, '__init__ missing', src('edges/edge.py'), ci_e.node.lineno)
    else:
        from .common import guards_reject
        gs = [n.test for n in walk_no_nested(init_e.node) if isinstance(n, ast.If) and n.body and isinstance(n.body[-1], ast.Raise) and 'capacity' in ast.unparse(n.test)]
        gs.sort(key=lambda t: (t.lineno, t.col_offset))
        r.analysed_functions.add(init_e.key)
        if gs and guards_reject(gs, ('capacity', 'self.capacity'), bad=(0, -3, 2.5, None, '4'), good=(1, 7)):
            r.ok('C20.R4', key_c, 'capacity must be a positive int', src('edges/edge.py'), gs[0].lineno)
        else:
            r.fail('C20.R4', key_c, 'validation removed: capacity must be a positive int - the invalid configuration is silently simulated', src('edges/edge.py'), init_e.node.lineno)
    from .common import abstract_rejects

    def decide(cls_rel, cls, meth, label, bad, good, what):
        """the validation is judged by what it does to representative configurations, not by how it is spelled: every `bad` configuration is
        rejected (raise / failed assert that depends on the validated quantity), every `good` one passes"""
        ci = p.cls(cls_rel, cls)
        fi = ci.methods.get(meth)
        key = f'{cls_rel}::{cls}.{meth}::validates:{label}'
        if fi is None:
            r.fail('C20.R4', key, f'{meth} missing', src(cls_rel), ci.node.lineno)
            return
        r.analysed_functions.add(fi.key)
        missed = [e for e in bad if not abstract_rejects(p, ci, fi, e, must=False)]
        refused = [e for e in good if abstract_rejects(p, ci, fi, e, must=True)]
        if not missed and not refused:
            r.ok('C20.R4', key, f'{what} ({len(bad)} invalid / {len(good)} valid representative configurations evaluated)', src(cls_rel), fi.node.lineno)
        elif missed:
            shown = {k: v for k, v in missed[0].items() if not k.startswith('self.') or k[5:] not in missed[0]}
            r.fail('C20.R4', key, f'validation removed or weakened: {what} - the invalid configuration {shown} is silently simulated', src(cls_rel), fi.node.lineno)
        else:
            shown = {k: v for k, v in refused[0].items() if not k.startswith('self.') or k[5:] not in refused[0]}
            r.fail('C20.R4', key, f'{what}: the valid configuration {shown} is rejected', src(cls_rel), fi.node.lineno)

    def both(**kw):
        d = {}
        for k, v in kw.items():
            d[k] = v
            d['self.' + k] = v
        return d
    decide('edges/buffer.py', 'Buffer', '__init__', 'mode', [both(mode=m) for m in ('fifo', 'RANDOM', 'FILO', '', None, 3)], [both(mode='FIFO'), both(mode='LIFO')],
           'mode must be FIFO or LIFO')
    for rel, cls in (('edges/edge.py', 'Edge'), ('nodes/node.py', 'Node')):
        decide(rel, cls, 'get_delay', 'delay>=0', [{'delay': -1}, {'delay': -0.5}], [{'delay': 0}, {'delay': 0.0}, {'delay': 3}, {'delay': 2.5}],
               'drawn delay must be non-negative')
    decide('nodes/source.py', 'Source', '__init__', 'nonblocking-zero-interarrival',
           [both(inter_arrival_time=0, blocking=False), both(inter_arrival_time=0.0, blocking=False)],
           [both(inter_arrival_time=0, blocking=True), both(inter_arrival_time=1, blocking=False), both(inter_arrival_time=0.5, blocking=False),
            both(inter_arrival_time=2.5, blocking=True)],
           'a non-blocking source needs a non-zero inter-arrival time')
    E = ['e0', 'e1', 'e2']
    for cls_rel, cls, ins, outs in (('nodes/source.py', 'Source', 'none', 'some'), ('nodes/sink.py', 'Sink', 'some', 'none'),
                                    ('nodes/machine.py', 'Machine', 'some', 'some'), ('nodes/splitter.py', 'Splitter', 'some', 'some'),
                                    ('nodes/combiner.py', 'Combiner', 'some', 'some')):
        for side, want in (('in_edges', ins), ('out_edges', outs)):
            if want == 'some':
                decide(cls_rel, cls, 'behaviour', f'has-{side}', [{f'self.{side}': None}, {f'self.{side}': []}], [{f'self.{side}': ['e0']}, {f'self.{side}': E}],
                       f'the node must have at least one of its {side}')
            else:
                decide(cls_rel, cls, 'behaviour', f'no-{side}', [{f'self.{side}': ['e0']}], [{f'self.{side}': None}], f'the node must not have {side}')
    for cls_rel, cls, sides in (('nodes/source.py', 'Source', ('out',)), ('nodes/machine.py', 'Machine', ('in', 'out')),
                                ('nodes/splitter.py', 'Splitter', ('in', 'out')), ('nodes/combiner.py', 'Combiner', ('out',))):
        for sd in sides:
            decide(cls_rel, cls, 'reset', f'constant-{sd}-index',
                   [{f'self.{sd}_edge_selection': i, f'self.{sd}_edges': E} for i in (-1, 3, 8)],
                   [{f'self.{sd}_edge_selection': i, f'self.{sd}_edges': E} for i in (0, 1, 2)],
                   f'a constant {sd}_edge_selection must be a valid index')


# ------------------------------------------------------------------------------------------- R5
def check_one_shot(p, r):
    for ci in tables.edge_classes(p):
        if ci.name != 'ConveyorBelt':
            continue
        for mname in ('put', 'get'):
            fi = ci.methods.get(mname)
            if fi is None:
                continue
            r.analysed_functions.add(fi.key)
            ex = paths.Explorer(p, ci.key, tracked=set(), atomic=set(p.methods(ci.key)), proto={'put', 'get', 'handle_new_item_during_interruption'},
                                unroll=1, track_attrs=True)
            sites = {}
            for pa in ex.paths(fi):
                if pa.raises:
                    continue
                evs = pa.events
                for i, e in enumerate(evs):
                    if e.kind == 'succeed' and e.target.startswith('self.'):
                        guarded = False
                        for b in reversed(evs[:i]):
                            if b.kind == 'succeed' and b.target == e.target:
                                break           # an earlier succeed consumed the guard / the fresh event
                            if b.kind == 'cond' and not b.d.get('synthetic') and b.text == f'{e.target}.triggered' and b.polarity is False:
                                guarded = True
                                break
                            if b.kind == 'setattr' and b.target == e.target and b.value[0] == 'newevent':
                                guarded = True
                                break
                        rec = sites.setdefault(e.target, {'ok': True, 'e': e, 'pa': pa})
                        if not guarded:
                            rec.update(ok=False, pa=pa)
            for tgt, rec in sorted(sites.items()):
                e = rec['e']
                key = f'{fi.key}::succeed({tgt})'
                if rec['ok']:
                    r.ok('C20.R5', key, 'guarded by `not triggered` or fresh', src(fi.module), e.line)
                    continue
                entry = ONE_SHOT_TABLE.get((ci.module, ci.name, mname, tgt))
                if entry and entry[0] == 'advisory':
                    r.fail('C20.R5', key, f'unguarded `{tgt}.succeed()`: {entry[1]}', src(fi.module), e.line, advisory=True)
                else:
                    r.fail('C20.R5', key, f'`{tgt}.succeed()` is reachable twice before the event is re-armed (no `not {tgt}.triggered` guard, no fresh event): '
                                          f'two calls of {mname}() in one instant raise RuntimeError("already triggered")' + (f' [{entry[1]}]' if entry else ''),
                           src(fi.module), e.line, rec['pa'].describe())


# ------------------------------------------------------------------------------------------- R8
def value_path(v):
    """'self.a.b' for attribute-read values"""
    if v is None:
        return None
    if v[0] == 'self':
        return 'self.' + v[1]
    if v[0] == 'attr':
        b = value_path(v[1])
        return None if b is None else b + '.' + v[2]
    return None


def is_armed(p, fi, tgt):
    """`tgt` ('self.X' / 'self.a.X') is an event attribute: assigned env.event() in its owner's hierarchy or in function fi"""
    owner = (fi.module, fi.cls)
    parts = tgt.split('.')
    attr = parts[-1]
    if len(parts) == 3:
        ks = p.attr_class(owner, parts[1])
        owner = ks[0] if ks else None
    elif len(parts) != 2:
        return False
    armed = owner is not None and any(isinstance(v, ast.Call) and isinstance(v.func, ast.Attribute) and v.func.attr == 'event'
                                      for _, v, _ in p.self_attr_sites(owner).get(attr, []))
    return armed or any(isinstance(n, ast.Assign) and any(ast.unparse(t_) == tgt for t_ in n.targets) and isinstance(n.value, ast.Call)
                        and isinstance(n.value.func, ast.Attribute) and n.value.func.attr == 'event' for n in walk_no_nested(fi.node))


def identity_test(e):
    """(lhs text, rhs text) when the condition event establishes `lhs is rhs` on this path - `a is b` taken, or `a is not b` not taken - else None"""
    if e.kind != 'cond' or e.d.get('synthetic'):
        return None
    t = e.text
    if t.startswith('not'):
        return None
    if ' is not ' in t:
        if e.polarity is False:
            lhs, rhs = t.split(' is not ', 1)
            return lhs.strip(), rhs.strip()
        return None
    if ' is ' in t and e.polarity is True:
        lhs, rhs = t.split(' is ', 1)
        return lhs.strip(), rhs.strip()
    return None


def scenario_rearm(p, fi, ps, sites):
    """For every wait `yield any_of([... persistent armed events ...])` and every persistent element X of the wait set, consider the
    wake-up scenario "X is triggered, the other persistent elements are not": every path compatible with that scenario must install a
    fresh event in X before the back-edge, otherwise the next wait returns at once, for ever."""
    for pa in ps:
        if pa.raises or pa.status not in ('backedge',):
            continue
        evs = pa.events
        for yi, y in enumerate(evs):
            if y.kind != 'yield' or not (y.value and y.value[0] == 'callres' and y.value[1].endswith('any_of')):
                continue
            lst = None
            for x in evs[:yi]:
                if x.kind == 'xcall' and x.d.get('result') == y.value and x.args:
                    lst = x.args[0]
            elems = ()
            if lst is not None:
                mk = [m for m in evs[:yi] if m.kind == 'mklist' and m.value == lst]
                elems = mk[-1].elems if mk else (lst[1] if lst[0] == 'list' else ())
            persistent = [value_path(v) for v in elems if value_path(v) and is_armed(p, fi, value_path(v))]
            if not persistent:
                continue
            waitlist_names = {m.name for m in evs[:yi] if m.kind == 'mklist' and m.value == lst}
            after = evs[yi + 1:]
            for X in persistent:
                compatible = True
                denotes = {}          # lhs text -> attribute path it denotes in this scenario
                for e in after:
                    if e.kind == 'lookup' and (e.src in waitlist_names) and 'triggered' in e.pred:
                        if e.outcome != 'found':
                            compatible = False
                        else:
                            denotes[repr(e.value)] = X
                    if e.kind == 'setattr' and e.on_self:
                        vp = value_path(e.value)
                        if vp is not None and is_armed(p, fi, vp):
                            denotes[e.target] = vp
                        elif repr(e.value) in denotes:
                            denotes[e.target] = denotes[repr(e.value)]
                        elif e.value == ('const', None):
                            denotes[e.target] = None
                    if e.kind == 'cond' and not e.d.get('synthetic'):
                        t = e.text
                        if t.endswith('.triggered') and t[:-len('.triggered')] in persistent:
                            want = (t[:-len('.triggered')] == X)
                            if e.polarity != want:
                                compatible = False
                        elif (' is self.' in t or ' is not self.' in t) and not t.startswith('not'):
                            negated = ' is not self.' in t
                            lhs, T = [x_.strip() for x_ in (t.split(' is not ', 1) if negated else t.split(' is ', 1))]
                            if lhs in denotes and denotes[lhs] is not None:
                                if bool(e.polarity) != ((denotes[lhs] == T) != negated):
                                    compatible = False
                        elif t in denotes:
                            if e.polarity != (denotes[t] is not None):
                                compatible = False
                if not compatible:
                    continue
                key = f'{fi.key}::re-arms({X})'
                rec = sites.setdefault(key, {'ok': True, 'e': y, 'pa': pa})
                rearmed = any(x.kind == 'setattr' and x.target == X and x.value[0] == 'newevent' for x in after)
                if not rearmed and rec['ok']:
                    rec.update(ok=False, pa=pa, e=y)


def check_rearm(p, r):
    """A process that finds one of its wake-up events triggered re-arms it (fresh env.event()) before it waits again."""
    from .. import storewalk
    jobs = []
    for ci in tables.edge_classes(p):
        b = ci.methods.get('behaviour')
        if b is not None and b.is_generator:
            ex = paths.Explorer(p, ci.key, tracked=set(), atomic=set(p.methods(ci.key)), unroll=1, track_attrs=True, interrupt_edges=False)
            jobs.append((b, ex.paths(b)))
    for w in storewalk.walks(p, assume_inv=('I1',)):
        for root in w.store.process_roots:
            fi = w.root_funcs[root]
            if fi.is_generator and any(isinstance(n, ast.While) and isinstance(n.test, ast.Constant) for n in fi.node.body):
                jobs.append((fi, w.roots[root]))
    seen = set()
    for fi, ps in jobs:
        if fi.key in seen:
            continue
        seen.add(fi.key)
        sites = {}
        for pa in ps:
            if pa.raises:
                continue
            evs = pa.events
            # a path that takes `x is self.T` although x was just assigned another armed attribute is infeasible
            # (each armed attribute holds its own env.event() object)
            infeasible = False
            for i, e in enumerate(evs):
                # `x is not self.T` taken (or `x is self.T` not taken) although x was just assigned self.T itself: infeasible as well
                if e.kind == 'cond' and not e.d.get('synthetic') and not e.text.startswith('not') and \
                        ((' is not ' in e.text and e.polarity is True) or (' is ' in e.text and ' is not ' not in e.text and e.polarity is False)):
                    lhs_, rhs_ = [x.strip() for x in (e.text.split(' is not ', 1) if ' is not ' in e.text else e.text.split(' is ', 1))]
                    last_ = next((x for x in reversed(evs[:i]) if x.kind == 'setattr' and x.target == lhs_), None)
                    if last_ is not None and rhs_.startswith('self.') and value_path(last_.value) == rhs_:
                        infeasible = True
                idt = identity_test(e)
                if idt is not None and idt[1].startswith('self.'):
                    lhs, t_ = idt
                    last = next((x for x in reversed(evs[:i]) if x.kind == 'setattr' and x.target == lhs), None)
                    if last is not None and value_path(last.value) not in (None, t_):
                        infeasible = True
                # `if x:` is false although x was just assigned an event object (simpy events are always truthy)
                if e.kind == 'cond' and not e.d.get('synthetic') and e.polarity is False and e.text.startswith('self.') and '(' not in e.text and ' ' not in e.text:
                    last = next((x for x in reversed(evs[:i]) if x.kind == 'setattr' and x.target == e.text), None)
                    vp = value_path(last.value) if last is not None else None
                    if vp is not None and is_armed(p, fi, vp):
                        infeasible = True
            if infeasible:
                continue
            for i, e in enumerate(evs):
                tgt = None
                idt = identity_test(e)
                if e.kind == 'cond' and not e.d.get('synthetic') and (e.polarity is True or idt is not None):
                    t = e.text
                    if e.polarity is True and t.endswith('.triggered') and t.startswith('self.'):
                        tgt = t[:-len('.triggered')]
                    elif idt is not None and idt[1].startswith('self.'):
                        lhs, tgt = idt
                        # `chosen is T` is infeasible when chosen was just assigned another armed attribute (distinct env.event() objects)
                        last = next((x for x in reversed(evs[:i]) if x.kind == 'setattr' and x.target == lhs), None)
                        if last is not None and value_path(last.value) not in (None, tgt):
                            tgt = None
                elif e.kind == 'yield' and e.text.startswith('self.') and e.cls == 'event' and '(' not in e.text:
                    tgt = e.text
                if tgt is None or not tgt.startswith('self.'):
                    continue
                # only event attributes (armed with env.event() somewhere)
                if not is_armed(p, fi, tgt):
                    continue
                key = f'{fi.key}::re-arms({tgt})'
                rec = sites.setdefault(key, {'ok': True, 'e': e, 'pa': pa})
                rearmed = any(x.kind == 'setattr' and x.target == tgt and x.value[0] == 'newevent' for x in evs[i:])
                if not rearmed and rec['ok']:
                    rec.update(ok=False, pa=pa, e=e)
        scenario_rearm(p, fi, ps, sites)
        for key, rec in sorted(sites.items()):
            e = rec['e']
            r.analysed_functions.add(fi.key)
            if rec['ok']:
                r.ok('C20.R8', key, 're-armed with a fresh event on every path that saw it triggered', src(fi.module), e.line)
            else:
                r.fail('C20.R8', key, 'the process finds this wake-up event triggered but goes back to waiting without installing a fresh env.event(): '
                                      'the next wait returns at once for ever (zero-time loop) and the next succeed() raises "already triggered"',
                       src(fi.module), e.line, rec['pa'].describe())


# ------------------------------------------------------------------------------------------- R6
def check_yields(p, reach, r):
    for fi in p.all_functions():
        if fi.key not in reach or not fi.is_generator:
            continue
        if fi.cls is None:
            continue        # edge-selector generators yield integers to next(), they are not simulation processes
        for n in walk_no_nested(fi.node):
            if not isinstance(n, ast.Yield):
                continue
            key = site(fi, n, 'yield-value', same=lambda x: isinstance(x, ast.Yield))
            v = n.value
            ok, why = yield_value_is_event(fi, v)
            if ok:
                r.ok('C20.R6', key, why, src(fi.module), n.lineno)
            else:
                r.fail('C20.R6', key, f'`yield {ast.unparse(v) if v is not None else ""}`: {why}', src(fi.module), n.lineno)


EVENT_MAKERS = ('timeout', 'any_of', 'all_of', 'process', 'event', 'request', 'release', 'reserve_put', 'reserve_get')


def yield_value_is_event(fi, v):
    if v is None:
        return False, 'a bare yield hands None to the kernel (not an event)'
    if isinstance(v, ast.Call) and isinstance(v.func, ast.Attribute) and v.func.attr in EVENT_MAKERS:
        return True, f'{v.func.attr}(...) returns an event'
    if isinstance(v, ast.Call) and isinstance(v.func, ast.Attribute) and v.func.attr in ('put', 'get'):
        return False, 'the result of put()/get() is not an event'
    if isinstance(v, (ast.Name, ast.Attribute)):
        name = ast.unparse(v)
        # find what is assigned to this name in the function
        vals = []
        for n in walk_no_nested(fi.node):
            if isinstance(n, ast.Assign) and any(ast.unparse(t) == name for t in n.targets):
                vals.append(n.value)
        for val in vals:
            if isinstance(val, ast.Call) and isinstance(val.func, ast.Attribute) and val.func.attr in EVENT_MAKERS:
                continue
            if isinstance(val, ast.Call) and isinstance(val.func, ast.Attribute) and val.func.attr in ('put', 'get'):
                # `if isinstance(x, Process): yield x` - guarded legacy branch
                continue
            if isinstance(val, ast.Name):
                continue
            if isinstance(val, ast.Attribute) and self_attr(val) is not None:
                continue          # a local alias of an event held in an attribute (`ev = self.resume_event; yield ev`)
            if isinstance(val, ast.Constant) and val.value is None:
                continue          # resetting the holder after use
            return False, f'`{name}` is assigned `{ast.unparse(val)[:50]}`, which is not an event'
        if isinstance(v, ast.Attribute) and self_attr(v):
            return True, 'event held in an attribute'
        return True, 'event variable'
    return False, 'not an event expression'


# ------------------------------------------------------------------------------------------- R7
def check_none_deref(p, r):
    """First iteration of every node `behaviour`: attributes initialised to None in __init__ and not assigned on the path must not be dereferenced."""
    for w in nodewalk.walks(p):
        r.ctx = ctx_of(w)
        fi = w.root_funcs.get('behaviour')
        if fi is None:
            continue
        init = w.ci.methods.get('__init__')
        none_attrs = set()
        if init is not None:
            for n in walk_no_nested(init.node):
                if isinstance(n, ast.Assign) and isinstance(n.value, ast.Constant) and n.value.value is None:
                    for t in n.targets:
                        if self_attr(t):
                            none_attrs.add(self_attr(t))
        # attributes that the loop itself resets to None at the end of an iteration behave the same on later iterations
        if not none_attrs:
            continue
        key = f'{fi.key}::none-dereference'
        bad = None
        for pa in w.roots['behaviour']:
            if pa.raises or pa.status == 'loopcut':
                continue
            assigned = {}
            # walk the statements of the path in order: we only have events, so use setattr events + source lines
            for e in pa.events:
                if e.kind == 'setattr' and e.on_self:
                    assigned[e.attr] = e.value
            # find derefs in the source lines covered by this path: approximate by scanning f-strings / attribute chains in
            # statements whose line lies between two consecutive events of the path
        # static scan: deref of self.X.<attr> for X in none_attrs at a statement that is not dominated by an assignment to self.X
        # on some path (zero-trip loops).  Implemented on the AST with a small must-assign analysis.
        bad = must_assign_scan(fi, none_attrs, w.methods)
        if bad:
            attr, line, why = bad
            r.fail('C20.R7', key, f'`self.{attr}.…` is read at line {line} but `self.{attr}` is still None when {why}: AttributeError', src(fi.module), line)
        else:
            r.ok('C20.R7', key, f'attributes initialised to None ({", ".join(sorted(none_attrs))}) are assigned before every dereference', src(fi.module), fi.node.lineno)


def must_assign_scan(fi, none_attrs, methods=None):
    """Walk the body of the process loop; `assigned` = attributes definitely assigned a non-None value so far in this iteration.
    A `while`/`for` body contributes nothing (zero-trip); an `if` contributes the intersection of its branches (a raising branch is ignored)."""
    loops = [n for n in fi.node.body if isinstance(n, ast.While)]
    if not loops:
        return None

    def derefs(node):
        out = []
        for x in ast.walk(node):
            if isinstance(x, ast.Attribute) and isinstance(x.value, ast.Attribute) and self_attr(x.value) in none_attrs and isinstance(x.ctx, ast.Load):
                out.append((self_attr(x.value), x.lineno))
        return out

    def terminates(blk):
        """no path through the block reaches its end"""
        if not blk:
            return False
        last = blk[-1]
        if isinstance(last, (ast.Raise, ast.Return, ast.Continue, ast.Break)):
            return True
        if isinstance(last, ast.If) and last.orelse:
            return terminates(last.body) and terminates(last.orelse)
        return False

    methods = methods or {}

    def helper_call(s_):
        """FuncInfo of a private same-class helper that this simple statement runs to completion (plain call or `yield from`)"""
        v = s_.value if isinstance(s_, (ast.Expr, ast.Assign, ast.AnnAssign, ast.AugAssign)) else None
        if isinstance(v, ast.YieldFrom):
            v = v.value
        if isinstance(v, ast.Call) and isinstance(v.func, ast.Attribute) and isinstance(v.func.value, ast.Name) and v.func.value.id == 'self' \
                and v.func.attr.startswith('_') and v.func.attr in methods:
            return methods[v.func.attr]
        return None

    depth = {'n': 0}

    def walk(stmts, assigned, rets=None):
        for s_ in stmts:
            if isinstance(s_, ast.Return) and rets is not None:
                for a, ln in derefs(s_):
                    if a not in assigned:
                        return (a, ln, 'this statement runs on a path where no earlier statement of the iteration assigned it')
                rets.append(set(assigned))
                return None
            h = helper_call(s_) if not isinstance(s_, (ast.If, ast.While, ast.For, ast.Try)) else None
            if h is not None and depth['n'] < 4:
                depth['n'] += 1
                inner = set(assigned)
                rets_h = []
                res = walk(h.node.body, inner, rets_h)
                depth['n'] -= 1
                if res and isinstance(res, tuple):
                    return res
                exits = rets_h + ([inner] if not terminates(h.node.body) else [])
                if exits:
                    common = set.intersection(*exits)
                    assigned |= common
                continue
            if isinstance(s_, ast.If):
                # test may dereference
                for a, ln in derefs(s_.test):
                    if a not in assigned:
                        # `if self.X is not None:` style guards are comparisons, not dereferences
                        return (a, ln, 'the test is evaluated')
                # `if self.X is None: raise` establishes non-None afterwards
                t = ast.unparse(s_.test).replace(' ', '')
                a1 = set(assigned)
                a2 = set(assigned)
                for a in none_attrs:
                    if t == f'self.{a}isnotNone':
                        a1.add(a)
                    if t == f'self.{a}isNone':
                        a2.add(a)
                r1 = walk(s_.body, a1, rets)
                if r1 and isinstance(r1, tuple):
                    return r1
                r2 = walk(s_.orelse, a2, rets)
                if r2 and isinstance(r2, tuple):
                    return r2
                b1 = a1 if not terminates(s_.body) else None
                b2 = a2 if not terminates(s_.orelse) else None
                if b1 is not None and b2 is not None:
                    assigned &= (b1 & b2) | assigned
                    assigned |= (b1 & b2)
                elif b1 is not None:
                    assigned |= b1
                elif b2 is not None:
                    assigned |= b2
                continue
            if isinstance(s_, (ast.While, ast.For)):
                inner = set(assigned)
                res = walk(s_.body, inner, rets)
                if res and isinstance(res, tuple):
                    return res
                continue          # zero-trip: nothing is definitely assigned
            if isinstance(s_, ast.Try):
                res = walk(s_.body, assigned, rets)
                if res and isinstance(res, tuple):
                    return res
                continue
            for a, ln in derefs(s_):
                if a not in assigned:
                    return (a, ln, 'this statement runs on a path where no earlier statement of the iteration assigned it (a loop that may run zero times does not count)')
            if isinstance(s_, ast.Assign):
                for t in s_.targets:
                    a = self_attr(t)
                    if a in none_attrs:
                        if isinstance(s_.value, ast.Constant) and s_.value.value is None:
                            assigned.discard(a)
                        else:
                            assigned.add(a)
        return None
    res = walk(loops[0].body, set())
    return res
