from ..model import AnalysisError
PROP = 'C20'
LEVEL = 'other'


def run(p, tier):
    raise AnalysisError('rule module for C20 not implemented yet (fail closed)')
