"""Helpers shared by the rule modules."""
from __future__ import annotations

import ast
import re
from typing import Dict, List, Optional

from .. import lin, paths
from ..model import FuncInfo, Project, self_attr, walk_no_nested


def src(module: str) -> str:
    return f'src/factorysimpy/{module}'


_ORD_CACHE: Dict[tuple, Dict[tuple, int]] = {}


def site(fi: FuncInfo, node: ast.AST, label: str, same=None) -> str:
    """Line-free name of an AST site: '<module>::<Class>.<func>::<label>#k' where k numbers, in source
    order, the nodes of the function for which `same(node)` holds (default: same unparse of the callee)."""
    if same is None:
        if isinstance(node, ast.Call):
            txt = ast.unparse(node.func)
            same = lambda n: isinstance(n, ast.Call) and ast.unparse(n.func) == txt   # noqa: E731
            if txt not in label:
                label = f'{label}[{txt}]'
        else:
            ty = type(node)
            same = lambda n: isinstance(n, ty)   # noqa: E731
    key = (id(fi.node), label)
    tab = _ORD_CACHE.get(key)
    if tab is None or (id(node) not in tab[0] and (node.lineno, node.col_offset) not in tab[1]):
        order = {}

        def dfs(n):
            for c in ast.iter_child_nodes(n):
                order[id(c)] = len(order)
                if not isinstance(c, (ast.FunctionDef, ast.AsyncFunctionDef, ast.Lambda, ast.ClassDef)):
                    dfs(c)
        dfs(fi.node)
        nodes = [n for n in walk_no_nested(fi.node) if same(n)]
        # source order; code inlined from a helper keeps the helper's line numbers, so copies are told apart by their place in the tree
        nodes.sort(key=lambda n: (n.lineno, n.col_offset, order.get(id(n), 0)))
        by_pos = {}
        for i, n in enumerate(nodes):
            by_pos.setdefault((n.lineno, n.col_offset), i)
        tab = ({id(n): i for i, n in enumerate(nodes)}, by_pos)
        _ORD_CACHE[key] = tab
    k = tab[0].get(id(node), tab[1].get((node.lineno, node.col_offset), 0))
    return f'{fi.key}::{label}#{k}'


def events_atoms(events) -> List[lin.Atom]:
    out = []
    for e in events:
        if e.kind in ('cond', 'assert') and e.d.get('atoms'):
            out.extend(e.atoms)
    return out


def sum_lin(lists, g: Dict[str, int], dl: Dict[str, int]) -> lin.Lin:
    """Σ len(L) over `lists` in the variables of a snapshot (generation map g, delta map dl)."""
    e: lin.Lin = {}
    for L in lists:
        gen = g.get(L, 0)
        v = L if gen == 0 else f'{L}@{gen}'
        e = lin.ladd(e, {v: 1})
        if dl.get(L):
            e = lin.ladd(e, lin.lconst(dl[L]))
    return e


def status_str(status) -> str:
    return status if isinstance(status, str) else f'raise {status[1]}'


# ------------------------------------------------------------------------------------------------ guard evaluation
class NotEvaluable(Exception):
    pass


def eval_guard_value(n: ast.AST, binding):
    """value of a simple expression over a representative binding"""
    val = lambda x: eval_guard_value(x, binding)   # noqa: E731
    if isinstance(n, ast.Constant):
        return n.value
    t = ast.unparse(n)
    try:
        return binding(t)
    except KeyError:
        pass
    if isinstance(n, ast.Tuple):
        return tuple(val(e) for e in n.elts)
    if isinstance(n, (ast.List, ast.Set)):
        return [val(e) for e in n.elts]
    if isinstance(n, ast.Call) and isinstance(n.func, ast.Name) and not n.keywords:
        f = n.func.id
        try:
            if f == 'len' and len(n.args) == 1:
                return len(val(n.args[0]))
            if f == 'callable' and len(n.args) == 1:
                return callable(val(n.args[0]))
            if f == 'hasattr' and len(n.args) == 2 and isinstance(n.args[1], ast.Constant):
                return hasattr(val(n.args[0]), n.args[1].value)
            if f in ('bool', 'abs') and len(n.args) == 1:
                return {'bool': bool, 'abs': abs}[f](val(n.args[0]))
        except TypeError:
            raise NotEvaluable('comparison of incomparable values')
    if isinstance(n, ast.Call) and isinstance(n.func, ast.Attribute) and n.func.attr in ('upper', 'lower', 'strip', 'title', 'casefold') \
            and not n.args and not n.keywords:
        recv = val(n.func.value)
        if isinstance(recv, str):
            return getattr(recv, n.func.attr)()
        raise NotEvaluable('comparison of incomparable values')       # AttributeError for a non-string: the expression itself rejects the value
    if isinstance(n, ast.BinOp) and isinstance(n.op, (ast.Add, ast.Sub)):
        try:
            a, b = val(n.left), val(n.right)
            return a + b if isinstance(n.op, ast.Add) else a - b
        except TypeError:
            raise NotEvaluable('comparison of incomparable values')
    if isinstance(n, ast.IfExp):
        return val(n.body) if eval_guard(n.test, binding) else val(n.orelse)
    if isinstance(n, ast.Name) and n.id in ('int', 'float', 'str', 'bool', 'list', 'tuple'):
        return {'int': int, 'float': float, 'str': str, 'bool': bool, 'list': list, 'tuple': tuple}[n.id]
    if isinstance(n, ast.UnaryOp) and isinstance(n.op, ast.USub):
        return -val(n.operand)
    if isinstance(n, ast.Call) and isinstance(n.func, ast.Name) and n.func.id == 'type' and len(n.args) == 1:
        return type(val(n.args[0]))
    raise NotEvaluable(t)



def eval_guard(test: ast.AST, binding) -> bool:
    """Truth of a validation guard for one representative value: `binding(expr_text)` gives the value of the names / attribute chains it
    knows (raise KeyError otherwise).  Only isinstance, comparisons with literals, not / and / or are interpreted - enough to decide
    whether a guard rejects a class of values, whatever way it is spelled."""
    val = lambda x: eval_guard_value(x, binding)   # noqa: E731

    def ev(n):
        if isinstance(n, ast.BoolOp):
            if isinstance(n.op, ast.And):
                for v in n.values:
                    if not ev(v):
                        return False
                return True
            for v in n.values:
                if ev(v):
                    return True
            return False
        if isinstance(n, ast.UnaryOp) and isinstance(n.op, ast.Not):
            return not ev(n.operand)
        if isinstance(n, ast.Call) and isinstance(n.func, ast.Name) and n.func.id == 'isinstance' and len(n.args) == 2:
            return isinstance(val(n.args[0]), val(n.args[1]))
        if isinstance(n, ast.Compare):
            left = val(n.left)
            for op, c in zip(n.ops, n.comparators):
                right = val(c)
                try:
                    ok = {ast.Lt: lambda a, b: a < b, ast.LtE: lambda a, b: a <= b, ast.Gt: lambda a, b: a > b, ast.GtE: lambda a, b: a >= b,
                          ast.Eq: lambda a, b: a == b, ast.NotEq: lambda a, b: a != b, ast.Is: lambda a, b: a is b, ast.IsNot: lambda a, b: a is not b,
                          ast.In: lambda a, b: a in b, ast.NotIn: lambda a, b: a not in b}[type(op)](left, right)
                except TypeError:
                    raise NotEvaluable('comparison of incomparable values')
                if not ok:
                    return False
                left = right
            return True
        return bool(val(n))
    return ev(test)


def guard_rejects(test: ast.AST, names, bad, good) -> bool:
    """the guard is true for every value in `bad` and false for every value in `good` (values bound to each spelling in `names`)"""
    try:
        for v in bad:
            try:
                if not eval_guard(test, lambda t, v=v: v if t in names else (_ for _ in ()).throw(KeyError(t))):
                    return False
            except NotEvaluable as e:
                if 'incomparable' in str(e):
                    continue            # the guard itself raises TypeError for this value: rejected as well
                raise
        for v in good:
            if eval_guard(test, lambda t, v=v: v if t in names else (_ for _ in ()).throw(KeyError(t))):
                return False
        return True
    except NotEvaluable:
        return False


def guards_reject(tests, names, bad, good) -> bool:
    """a sequence of raise-guards (evaluated in order, the first true one raises) rejects every value in `bad` and lets every value in `good` pass"""
    def bind(v):
        return lambda t: v if t in names else (_ for _ in ()).throw(KeyError(t))
    try:
        for v in bad:
            hit = False
            for t in tests:
                try:
                    if eval_guard(t, bind(v)):
                        hit = True
                        break
                except NotEvaluable as e:
                    if 'incomparable' in str(e):
                        hit = True          # the guard itself raises TypeError for this value
                        break
                    raise
            if not hit:
                return False
        for v in good:
            for t in tests:
                if eval_guard(t, bind(v)):
                    return False
        return True
    except NotEvaluable:
        return False


def range_guard_ok(test, edges, accept: bool) -> bool:
    """`test` decides 0 <= idx < len(self.<edges>): as an acceptance test (assert / continue-if-true, accept=True) it holds exactly for the valid
    indices; as a rejection test (raise-if-true, accept=False) exactly for the invalid ones.  Evaluated for a list of 3 edges, whatever the spelling."""
    n = 3
    def bind(v):
        def b(t):
            if t.replace(' ', '') == f'len(self.{edges})':
                return n
            if t.isidentifier() and t not in ('int', 'float', 'str', 'bool', 'type', 'self', 'None', 'True', 'False'):
                return v
            raise KeyError(t)
        return b
    try:
        for v, valid in ((0, True), (n - 1, True), (-1, False), (n, False), (n + 5, False)):
            got = eval_guard(test, bind(v))
            if got != (valid if accept else not valid):
                return False
        return True
    except NotEvaluable:
        return False


# ------------------------------------------------------------------------------------------------ abstract run of a validation
def abstract_rejects(p: Project, ci, fi: FuncInfo, env: dict, must: bool, _depth=0, _seen=None) -> bool:
    """Abstractly run the statements of `fi` for ONE representative configuration `env` (expression text -> plain value): does the function reject
    it (raise, or fail an assert)?  Tests that can be evaluated over `env` choose their branch; a test that cannot be evaluated explores both branches
    (`must`: rejected only if both reject; otherwise: if either does).  A `raise` counts only under a test that mentions a key of `env` (an unrelated
    `raise ValueError("no edge available")` deeper in a process body is not a validation of this quantity); an `assert` counts when its own test mentions one.
    Nothing of the repository is executed: only literals, comparisons, isinstance/len/callable/hasattr on the representative values are interpreted."""
    env = dict(env)
    keys = set(env)
    meths = p.methods(ci.key) if ci is not None else {}
    seen = _seen if _seen is not None else {fi.name}

    def bind(t):
        if t in env:
            return env[t]
        raise KeyError(t)

    def mentions(n):
        t = ast.unparse(n)
        return any(re.search(r'(?<![\w.])' + re.escape(k) + r'(?![\w])', t) for k in keys)

    REJ, RET, FALL = 'reject', 'return', 'fall'

    def comb(a, b):
        if a == b:
            return a
        if must:
            return FALL if FALL in (a, b) else RET            # rejected only if both reject
        return REJ if REJ in (a, b) else FALL

    def walk(stmts, related):
        for s_ in stmts:
            if isinstance(s_, ast.If):
                # a guard clause (`if X: raise` followed by the rest, possibly moved into the else by normalisation) does not make the rest depend on X
                guard_clause = bool(s_.body) and isinstance(s_.body[-1], (ast.Raise, ast.Return, ast.Continue, ast.Break))
                try:
                    t = eval_guard(s_.test, bind)
                    out = walk(s_.body, True) if t else walk(s_.orelse, related if guard_clause else True)
                except NotEvaluable as e:
                    if 'incomparable' in str(e) and mentions(s_.test):
                        return REJ                                  # the test itself raises TypeError for this value
                    rel = related or mentions(s_.test)
                    if guard_clause and not rel and isinstance(s_.body[-1], ast.Raise):
                        # the validation of some OTHER argument (`if not isinstance(env, Environment): raise`): assume it passes
                        out = walk(s_.orelse, related)
                    else:
                        out = comb(walk(s_.body, rel), walk(s_.orelse, related if guard_clause else rel))
                if out != FALL:
                    return out
            elif isinstance(s_, ast.Assert):
                if mentions(s_.test):
                    try:
                        if not eval_guard(s_.test, bind):
                            return REJ
                    except NotEvaluable as e:
                        if 'incomparable' in str(e):
                            return REJ
            elif isinstance(s_, ast.Raise):
                return REJ if related else RET
            elif isinstance(s_, ast.Return):
                return RET
            elif isinstance(s_, (ast.Assign, ast.AnnAssign)) and getattr(s_, 'value', None) is not None:
                tgts = s_.targets if isinstance(s_, ast.Assign) else [s_.target]
                try:
                    v = eval_guard_value(s_.value, bind)
                    for t in tgts:
                        env[ast.unparse(t)] = v
                        keys.add(ast.unparse(t))
                except NotEvaluable:
                    for t in tgts:
                        env.pop(ast.unparse(t), None)                # overwritten by something unknown
            elif isinstance(s_, (ast.For, ast.While, ast.With)):
                out = walk(s_.body, related)
                if out == REJ:
                    return out
            elif isinstance(s_, ast.Try):
                out = walk(s_.body, related)
                if out == REJ:
                    return out
            elif isinstance(s_, ast.Expr) and isinstance(s_.value, ast.Call) and _depth < 3:
                c = s_.value
                if isinstance(c.func, ast.Attribute) and isinstance(c.func.value, ast.Name) and c.func.value.id == 'self' and c.func.attr in meths \
                        and c.func.attr not in seen and not c.args and not c.keywords:
                    seen.add(c.func.attr)
                    if abstract_rejects(p, ci, meths[c.func.attr], env, must, _depth + 1, seen):
                        return REJ
        return FALL

    return walk(fi.node.body, False) == REJ




def cond_establishes_equal(e, const) -> Optional[bool]:
    """What a (non-synthetic) condition event says about `<something> == const` on this path: True (known equal), False (known different),
    None (the test is not about that constant).  Spelling-independent: ==, !=, `not (a == b)`, swapped operands, `in (const,)`."""
    if e.kind != 'cond' or e.d.get('synthetic'):
        return None
    ops = e.d.get('operands')
    if ops and ops[0] in ('Eq', 'NotEq', 'Is', 'IsNot'):
        if ('const', const) in (ops[1], ops[2]):
            eq = ops[0] in ('Eq', 'Is')
            return eq == bool(e.polarity)
    if ops and ops[0] in ('In', 'NotIn'):
        c = ops[2]
        if c is not None and c[0] in ('tuple', 'list') and tuple(c[1]) == (('const', const),):
            return (ops[0] == 'In') == bool(e.polarity)
    return None


# ------------------------------------------------------------------------------------------------ identity equality of objects kept in lists
def value_equality_classes(p: Project):
    """Stores and the kernel locate 'this very object' with list.remove / list.index / `in` - all of which compare with ==.  That is sound only while
    the objects compare by identity.  Yields (rel, ClassDef, how) for every class of the package that changes what == means: a __eq__ / __ne__ of its
    own, or a @dataclass (eq=True is the default).  `how` is the construct."""
    for rel, m in sorted(p.raw().modules.items()):
        for c in [n for n in ast.walk(m.tree) if isinstance(n, ast.ClassDef)]:
            for f in c.body:
                if isinstance(f, ast.FunctionDef) and f.name in ('__eq__', '__ne__'):
                    yield rel, c, f'defines {f.name}', f.lineno
                if isinstance(f, ast.Assign) and any(isinstance(t, ast.Name) and t.id in ('__eq__', '__ne__') for t in f.targets):
                    yield rel, c, f'assigns {ast.unparse(f.targets[0])}', f.lineno
            for d in c.decorator_list:
                name = ast.unparse(d.func if isinstance(d, ast.Call) else d).split('.')[-1]
                if name == 'dataclass':
                    eq_false = isinstance(d, ast.Call) and any(k.arg == 'eq' and isinstance(k.value, ast.Constant) and k.value.value is False for k in d.keywords)
                    if not eq_false:
                        yield rel, c, '@dataclass generates __eq__ (field-wise)', c.lineno


def class_family(p: Project, rel: str, c: ast.ClassDef) -> set:
    """names of the class and of everything it (transitively, inside the package) derives from, plus the imported base names it mentions"""
    out = {c.name}
    todo = [c]
    defs = {n.name: n for m in p.raw().modules.values() for n in ast.walk(m.tree) if isinstance(n, ast.ClassDef)}
    while todo:
        x = todo.pop()
        for b in x.bases:
            nm = ast.unparse(b).split('.')[-1]
            if nm not in out:
                out.add(nm)
                if nm in defs:
                    todo.append(defs[nm])
    return out


# ------------------------------------------------------------------------------------------------ must-call helpers do their work on every path
def paths_skipping_loop(p: Project, cls_key, fi: FuncInfo, attr: str):
    """A function that other rules require to be *called* (a wake-up, a cancellation sweep) must also *do* its work whoever calls it: the completing
    paths of `fi` that never reach its loop over `self.<attr>` and whose conditions do not say that `self.<attr>` is empty.  Returns (loops, paths):
    the loop statements over the attribute, and the offending paths."""
    from .. import paths as _paths
    loops = []
    for n in walk_no_nested(fi.node):
        if isinstance(n, ast.For) and any(self_attr(a) == attr for a in ast.walk(n.iter)):
            loops.append(n)
        elif isinstance(n, ast.While) and any(self_attr(a) == attr for a in ast.walk(n.test)):
            loops.append(n)
    lines = {n.lineno for n in loops}
    if not loops:
        return [], []
    ex = _paths.Explorer(p, cls_key, tracked=set(), atomic={m for m in p.classes[cls_key].methods if m != fi.name} if cls_key in p.classes else set(),
                         unroll=1, interrupt_edges=False)
    bad = []
    empties_true = {f'notself.{attr}', f'len(self.{attr})==0', f'len(self.{attr})<1', f'len(self.{attr})<=0'}
    empties_false = {f'self.{attr}', f'len(self.{attr})', f'len(self.{attr})>0', f'len(self.{attr})!=0', f'len(self.{attr})>=1'}
    for pa in ex.paths(fi):
        if pa.raises or pa.status in ('loopcut', 'backedge'):
            continue
        if any(e.kind in ('foriter', 'loophead', 'loopexit', 'loopcut') and e.fi is not None and e.fi.key == fi.key
               and (getattr(e, 'loop_line', None) in lines or e.line in lines) for e in pa.events):
            continue
        says_empty = False
        for e in pa.events:
            if e.kind == 'cond' and not e.d.get('synthetic'):
                t = e.text.replace(' ', '').replace('(', '').replace(')', '') if False else e.text.replace(' ', '')
                if (e.polarity and t in empties_true) or (not e.polarity and t in empties_false):
                    says_empty = True
        if not says_empty:
            bad.append(pa)
    return loops, bad


# ------------------------------------------------------------------------------------------------ constructor wiring edge -> store
def ctor_wiring(p: Project, ci, attr: str):
    """How an Edge constructor parameterises its store: {store __init__ parameter: (expression as written, resolved expression text or None)}.
    The call `self.<attr> = <StoreClass>(...)` in `ci.__init__` is bound against the signature of the store class's own `__init__` (positional and
    keyword arguments alike); each argument is resolved through `self.X` attributes and locals that have exactly ONE unconditional assignment in
    the constructor before the call.  `None` = the value depends on a branch / a re-assignment (not the configured value on every path)."""
    init = ci.methods.get('__init__')
    if init is None:
        return None, {}
    # statements in execution order (pre-order through if / else / try / with bodies), up to the statement that builds the store
    order = []

    def flat(stmts):
        for st in stmts:
            order.append(st)
            for f in ('body', 'orelse', 'finalbody'):
                if isinstance(getattr(st, f, None), list) and not isinstance(st, (ast.FunctionDef, ast.ClassDef, ast.Lambda)):
                    flat(getattr(st, f))
            for h in getattr(st, 'handlers', []) or []:
                flat(h.body)
    flat(init.node.body)
    call = None
    call_idx = None
    for i, st in enumerate(order):
        if isinstance(st, ast.Assign) and len(st.targets) == 1 and self_attr(st.targets[0]) == attr and isinstance(st.value, ast.Call):
            call, call_idx = st.value, i
            break
    if call is None:
        return None, {}
    # signature of the store constructor
    skeys = [k for k in p.attr_class(ci.key, attr)]
    sig = None
    for k in skeys:
        for c in p.mro(k):
            f = c.methods.get('__init__')
            if f is not None:
                sig = [a.arg for a in f.node.args.args if a.arg != 'self']
                break
        if sig:
            break
    if not sig:
        return call, {}
    bound = {}
    for i, a in enumerate(call.args):
        if i < len(sig):
            bound[sig[i]] = a
    for k in call.keywords:
        if k.arg:
            bound[k.arg] = k.value
    # assignments that can reach the call (everything written before it, whatever branch it sits in)
    params = {a.arg for a in init.node.args.args}
    writes = {}
    for st in order[:call_idx]:
        if isinstance(st, (ast.Assign, ast.AugAssign, ast.AnnAssign)):
            tgts = st.targets if isinstance(st, ast.Assign) else [st.target]
            for t in tgts:
                for x in (t.elts if isinstance(t, (ast.Tuple, ast.List)) else [t]):
                    name = (self_attr(x) and f'self.{self_attr(x)}') or (x.id if isinstance(x, ast.Name) else None)
                    if name:
                        writes.setdefault(name, []).append(st.value if isinstance(st, ast.Assign) and not isinstance(t, (ast.Tuple, ast.List)) else None)
        elif isinstance(st, (ast.For, ast.With)):
            for x in ast.walk(st.target if isinstance(st, ast.For) else st):
                if isinstance(x, ast.Name) and isinstance(x.ctx, ast.Store):
                    writes.setdefault(x.id, []).append(None)
    for n in ast.walk(init.node):
        if isinstance(n, ast.NamedExpr) and isinstance(n.target, ast.Name):
            writes.setdefault(n.target.id, []).append(None)

    # attributes set by the base-class constructor: `super().__init__(a, b, k=c)` bound against the base signature, base body `self.X = <its parameter>`
    inherited = {}
    for st in order[:call_idx]:
        c = st.value if isinstance(st, ast.Expr) else None
        if isinstance(c, ast.Call) and isinstance(c.func, ast.Attribute) and c.func.attr == '__init__' and isinstance(c.func.value, ast.Call) \
                and isinstance(c.func.value.func, ast.Name) and c.func.value.func.id == 'super':
            for b in p.mro(ci.key)[1:]:
                bf = b.methods.get('__init__')
                if bf is None:
                    continue
                bsig = [a.arg for a in bf.node.args.args if a.arg != 'self']
                actual = {}
                for i, a in enumerate(c.args):
                    if i < len(bsig):
                        actual[bsig[i]] = a
                for k in c.keywords:
                    if k.arg:
                        actual[k.arg] = k.value
                bw = {}
                for n in ast.walk(bf.node):
                    if isinstance(n, ast.Assign) and len(n.targets) == 1 and self_attr(n.targets[0]):
                        bw.setdefault(self_attr(n.targets[0]), []).append(n.value)
                for a_, vs in bw.items():
                    if len(vs) == 1 and isinstance(vs[0], ast.Name) and vs[0].id in actual:
                        inherited[f'self.{a_}'] = actual[vs[0].id]
                break

    def resolve(e, depth=0):
        """the constructor parameter (or constant) this expression is on EVERY path to the call, or None"""
        t = ast.unparse(e)
        if depth > 6:
            return None
        name = e.id if isinstance(e, ast.Name) else (t if self_attr(e) else None)
        if name is not None:
            ws = writes.get(name, [])
            if not ws and name in inherited:
                return resolve(inherited[name], depth + 1)
            if not ws:
                return name if name in params else None
            if name in params:
                ws = ws + [ast.Name(id='\x00param:' + name, ctx=ast.Load())]
            vals = set()
            for w in ws:
                if w is None:
                    return None
                if isinstance(w, ast.Name) and w.id.startswith('\x00param:'):
                    vals.add(w.id[7:])
                else:
                    vals.add(resolve(w, depth + 1))
            return vals.pop() if len(vals) == 1 else None
        if isinstance(e, ast.Constant):
            return repr(e.value)
        return None
    return call, {k: (ast.unparse(v), resolve(v)) for k, v in bound.items()}


def check_ctor_wiring(p: Project, r, rule: str, ci, attr: str, want: dict, why: str):
    """`want`: store parameter -> constructor parameter of the edge that must reach it unchanged."""
    init = ci.methods.get('__init__')
    call, got = ctor_wiring(p, ci, attr)
    r.analysed_functions.add(init.key if init else ci.label)
    for sp, ep in want.items():
        key = f'{ci.label}.__init__::store-parameter({sp})'
        if call is None:
            r.fail(rule, key, f'no unconditional `self.{attr} = <store>(...)` in the constructor', src(ci.module), ci.node.lineno)
            continue
        if sp not in got:
            r.fail(rule, key, f'the store is built without `{sp}`: it runs with its own default instead of the configured `{ep}`; {why}', src(ci.module), call.lineno)
            continue
        written, res = got[sp]
        if res == ep:
            r.ok(rule, key, f'`{written}` is the constructor argument `{ep}`, unchanged', src(ci.module), call.lineno)
        else:
            r.fail(rule, key, f'the store parameter `{sp}` receives `{written}`' + (f' = `{res}`' if res else ' (a value that depends on a branch or is re-assigned)')
                   + f', not the configured `{ep}` unchanged; {why}', src(ci.module), call.lineno)
