"""Helpers shared by the rule modules."""
from __future__ import annotations

import ast
from typing import Dict, List, Optional

from .. import lin, paths
from ..model import FuncInfo, Project, self_attr, walk_no_nested


def src(module: str) -> str:
    return f'src/factorysimpy/{module}'


_ORD_CACHE: Dict[tuple, Dict[tuple, int]] = {}


def site(fi: FuncInfo, node: ast.AST, label: str, same=None) -> str:
    """Line-free name of an AST site: '<module>::<Class>.<func>::<label>#k' where k numbers, in source
    order, the nodes of the function for which `same(node)` holds (default: same unparse of the callee)."""
    if same is None:
        if isinstance(node, ast.Call):
            txt = ast.unparse(node.func)
            same = lambda n: isinstance(n, ast.Call) and ast.unparse(n.func) == txt   # noqa: E731
            if txt not in label:
                label = f'{label}[{txt}]'
        else:
            ty = type(node)
            same = lambda n: isinstance(n, ty)   # noqa: E731
    key = (id(fi.node), label)
    tab = _ORD_CACHE.get(key)
    if tab is None or (node.lineno, node.col_offset) not in tab:
        nodes = [n for n in walk_no_nested(fi.node) if same(n)]
        nodes.sort(key=lambda n: (n.lineno, n.col_offset))
        tab = {(n.lineno, n.col_offset): i for i, n in enumerate(nodes)}
        _ORD_CACHE[key] = tab
    k = tab.get((node.lineno, node.col_offset), 0)
    return f'{fi.key}::{label}#{k}'


def events_atoms(events) -> List[lin.Atom]:
    out = []
    for e in events:
        if e.kind in ('cond', 'assert') and e.d.get('atoms'):
            out.extend(e.atoms)
    return out


def sum_lin(lists, g: Dict[str, int], dl: Dict[str, int]) -> lin.Lin:
    """Σ len(L) over `lists` in the variables of a snapshot (generation map g, delta map dl)."""
    e: lin.Lin = {}
    for L in lists:
        gen = g.get(L, 0)
        v = L if gen == 0 else f'{L}@{gen}'
        e = lin.ladd(e, {v: 1})
        if dl.get(L):
            e = lin.ladd(e, lin.lconst(dl[L]))
    return e


def status_str(status) -> str:
    return status if isinstance(status, str) else f'raise {status[1]}'
