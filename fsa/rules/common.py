"""Helpers shared by the rule modules."""
from __future__ import annotations

import ast
from typing import Dict, List, Optional

from .. import lin, paths
from ..model import FuncInfo, Project, self_attr, walk_no_nested


def src(module: str) -> str:
    return f'src/factorysimpy/{module}'


_ORD_CACHE: Dict[tuple, Dict[tuple, int]] = {}


def site(fi: FuncInfo, node: ast.AST, label: str, same=None) -> str:
    """Line-free name of an AST site: '<module>::<Class>.<func>::<label>#k' where k numbers, in source
    order, the nodes of the function for which `same(node)` holds (default: same unparse of the callee)."""
    if same is None:
        if isinstance(node, ast.Call):
            txt = ast.unparse(node.func)
            same = lambda n: isinstance(n, ast.Call) and ast.unparse(n.func) == txt   # noqa: E731
            if txt not in label:
                label = f'{label}[{txt}]'
        else:
            ty = type(node)
            same = lambda n: isinstance(n, ty)   # noqa: E731
    key = (id(fi.node), label)
    tab = _ORD_CACHE.get(key)
    if tab is None or (id(node) not in tab[0] and (node.lineno, node.col_offset) not in tab[1]):
        order = {}

        def dfs(n):
            for c in ast.iter_child_nodes(n):
                order[id(c)] = len(order)
                if not isinstance(c, (ast.FunctionDef, ast.AsyncFunctionDef, ast.Lambda, ast.ClassDef)):
                    dfs(c)
        dfs(fi.node)
        nodes = [n for n in walk_no_nested(fi.node) if same(n)]
        # source order; code inlined from a helper keeps the helper's line numbers, so copies are told apart by their place in the tree
        nodes.sort(key=lambda n: (n.lineno, n.col_offset, order.get(id(n), 0)))
        by_pos = {}
        for i, n in enumerate(nodes):
            by_pos.setdefault((n.lineno, n.col_offset), i)
        tab = ({id(n): i for i, n in enumerate(nodes)}, by_pos)
        _ORD_CACHE[key] = tab
    k = tab[0].get(id(node), tab[1].get((node.lineno, node.col_offset), 0))
    return f'{fi.key}::{label}#{k}'


def events_atoms(events) -> List[lin.Atom]:
    out = []
    for e in events:
        if e.kind in ('cond', 'assert') and e.d.get('atoms'):
            out.extend(e.atoms)
    return out


def sum_lin(lists, g: Dict[str, int], dl: Dict[str, int]) -> lin.Lin:
    """Σ len(L) over `lists` in the variables of a snapshot (generation map g, delta map dl)."""
    e: lin.Lin = {}
    for L in lists:
        gen = g.get(L, 0)
        v = L if gen == 0 else f'{L}@{gen}'
        e = lin.ladd(e, {v: 1})
        if dl.get(L):
            e = lin.ladd(e, lin.lconst(dl[L]))
    return e


def status_str(status) -> str:
    return status if isinstance(status, str) else f'raise {status[1]}'


# ------------------------------------------------------------------------------------------------ guard evaluation
class NotEvaluable(Exception):
    pass


def eval_guard(test: ast.AST, binding) -> bool:
    """Truth of a validation guard for one representative value: `binding(expr_text)` gives the value of the names / attribute chains it
    knows (raise KeyError otherwise).  Only isinstance, comparisons with literals, not / and / or are interpreted - enough to decide
    whether a guard rejects a class of values, whatever way it is spelled."""
    def val(n):
        if isinstance(n, ast.Constant):
            return n.value
        t = ast.unparse(n)
        try:
            return binding(t)
        except KeyError:
            pass
        if isinstance(n, ast.Tuple):
            return tuple(val(e) for e in n.elts)
        if isinstance(n, ast.Name) and n.id in ('int', 'float', 'str', 'bool', 'list', 'tuple'):
            return {'int': int, 'float': float, 'str': str, 'bool': bool, 'list': list, 'tuple': tuple}[n.id]
        if isinstance(n, ast.UnaryOp) and isinstance(n.op, ast.USub):
            return -val(n.operand)
        if isinstance(n, ast.Call) and isinstance(n.func, ast.Name) and n.func.id == 'type' and len(n.args) == 1:
            return type(val(n.args[0]))
        raise NotEvaluable(t)

    def ev(n):
        if isinstance(n, ast.BoolOp):
            if isinstance(n.op, ast.And):
                for v in n.values:
                    if not ev(v):
                        return False
                return True
            for v in n.values:
                if ev(v):
                    return True
            return False
        if isinstance(n, ast.UnaryOp) and isinstance(n.op, ast.Not):
            return not ev(n.operand)
        if isinstance(n, ast.Call) and isinstance(n.func, ast.Name) and n.func.id == 'isinstance' and len(n.args) == 2:
            return isinstance(val(n.args[0]), val(n.args[1]))
        if isinstance(n, ast.Compare):
            left = val(n.left)
            for op, c in zip(n.ops, n.comparators):
                right = val(c)
                try:
                    ok = {ast.Lt: lambda a, b: a < b, ast.LtE: lambda a, b: a <= b, ast.Gt: lambda a, b: a > b, ast.GtE: lambda a, b: a >= b,
                          ast.Eq: lambda a, b: a == b, ast.NotEq: lambda a, b: a != b, ast.Is: lambda a, b: a is b, ast.IsNot: lambda a, b: a is not b,
                          ast.In: lambda a, b: a in b, ast.NotIn: lambda a, b: a not in b}[type(op)](left, right)
                except TypeError:
                    raise NotEvaluable('comparison of incomparable values')
                if not ok:
                    return False
                left = right
            return True
        return bool(val(n))
    return ev(test)


def guard_rejects(test: ast.AST, names, bad, good) -> bool:
    """the guard is true for every value in `bad` and false for every value in `good` (values bound to each spelling in `names`)"""
    try:
        for v in bad:
            try:
                if not eval_guard(test, lambda t, v=v: v if t in names else (_ for _ in ()).throw(KeyError(t))):
                    return False
            except NotEvaluable as e:
                if 'incomparable' in str(e):
                    continue            # the guard itself raises TypeError for this value: rejected as well
                raise
        for v in good:
            if eval_guard(test, lambda t, v=v: v if t in names else (_ for _ in ()).throw(KeyError(t))):
                return False
        return True
    except NotEvaluable:
        return False


def guards_reject(tests, names, bad, good) -> bool:
    """a sequence of raise-guards (evaluated in order, the first true one raises) rejects every value in `bad` and lets every value in `good` pass"""
    def bind(v):
        return lambda t: v if t in names else (_ for _ in ()).throw(KeyError(t))
    try:
        for v in bad:
            hit = False
            for t in tests:
                try:
                    if eval_guard(t, bind(v)):
                        hit = True
                        break
                except NotEvaluable as e:
                    if 'incomparable' in str(e):
                        hit = True          # the guard itself raises TypeError for this value
                        break
                    raise
            if not hit:
                return False
        for v in good:
            for t in tests:
                if eval_guard(t, bind(v)):
                    return False
        return True
    except NotEvaluable:
        return False


def range_guard_ok(test, edges, accept: bool) -> bool:
    """`test` decides 0 <= idx < len(self.<edges>): as an acceptance test (assert / continue-if-true, accept=True) it holds exactly for the valid
    indices; as a rejection test (raise-if-true, accept=False) exactly for the invalid ones.  Evaluated for a list of 3 edges, whatever the spelling."""
    n = 3
    def bind(v):
        def b(t):
            if t.replace(' ', '') == f'len(self.{edges})':
                return n
            if t.isidentifier() and t not in ('int', 'float', 'str', 'bool', 'type', 'self', 'None', 'True', 'False'):
                return v
            raise KeyError(t)
        return b
    try:
        for v, valid in ((0, True), (n - 1, True), (-1, False), (n, False), (n + 5, False)):
            got = eval_guard(test, bind(v))
            if got != (valid if accept else not valid):
                return False
        return True
    except NotEvaluable:
        return False
