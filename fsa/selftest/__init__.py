"""Self-test of the checkers (thorough tier): firing and silent variants, computed from the current
tree as in-memory overlays and run on up to 16 workers.

* a *firing* variant breaks one rule instance (release deleted, guard weakened, index off by one ...);
  the checker must report a new finding of the expected rule naming the expected construct;
* a *silent* variant is a behaviour-preserving rewrite (renaming, algebraically equal guard, added
  logging, early-return ↔ nested-if ...); the checker must report nothing new.
A firing variant that is not reported, or a silent one that is, means the checker is broken: the
property verdict is not believed (exit 2).  Variants whose anchor vanished are reported as stale.
"""
from __future__ import annotations

import multiprocessing as mp
import os
import random
import time
import traceback

from ..model import AnalysisError, Project


def _baseline_keys(res):
    return {(f.rule, f.construct) for f in res.findings if not f.advisory}


def _run_variant(args):
    prop, repo, idx = args
    from . import variants as V
    from .. import cli
    from .mutate import Stale
    v = V.for_prop(prop)[idx]
    t0 = time.time()
    try:
        base = Project(repo, normalise=False)     # variants are computed on the source as written
        overlay = v.build(base)
    except Stale as e:
        return idx, 'stale', str(e), []
    except Exception as e:      # a generator bug is a broken self-test, not a stale anchor
        return idx, 'error', f'variant generator failed: {e!r}', []
    try:
        mod = cli.load_rule(prop)
        res = mod.run(Project(repo, overlay), 'quick')
        found = sorted(_baseline_keys(res))
        return idx, 'ran', '', found
    except AnalysisError as e:
        return idx, 'analysis-error', str(e), []
    except Exception:
        return idx, 'error', traceback.format_exc()[-400:], []


def run(prop, repo, seed, res):
    from . import variants as V
    vs = V.for_prop(prop)
    base = _baseline_keys(res)
    order = list(range(len(vs)))
    random.Random(seed).shuffle(order)
    jobs = [(prop, repo, i) for i in order]
    t0 = time.time()
    if not jobs:
        res.selftest = {'variants': 0}
        return
    nproc = min(16, len(jobs), os.cpu_count() or 1)
    with mp.get_context('fork').Pool(nproc) as pool:
        out = pool.map(_run_variant, jobs, chunksize=1)
    killed = missed = silent_ok = false_alarm = stale = errors = 0
    details = []
    for idx, status, msg, found in out:
        v = vs[idx]
        new = [k for k in found if k not in base]
        rec = {'variant': v.name, 'kind': v.kind, 'status': status}
        if status == 'stale':
            stale += 1
            rec['note'] = msg
        elif status == 'error':
            errors += 1
            rec['note'] = msg
        elif v.kind == 'fire':
            if status == 'analysis-error':
                # fail-closed is an acceptable reaction to a broken tree only when the variant says so
                if v.accept_analysis_error:
                    killed += 1
                    rec['result'] = 'killed (analysis error, fail closed)'
                else:
                    missed += 1
                    rec['result'] = f'analysis error instead of a finding: {msg}'
            else:
                hits = [k for k in new if k[0].startswith(v.rule) and (v.where in k[1])]
                if hits:
                    killed += 1
                    rec['result'] = f'killed by {hits[0][0]} {hits[0][1]}'
                else:
                    missed += 1
                    rec['result'] = f'NOT reported (new findings: {new[:3]})'
        else:
            if status == 'analysis-error' or new:
                false_alarm += 1
                rec['result'] = f'FALSE ALARM on a behaviour-preserving rewrite: {msg or new[:3]}'
            else:
                silent_ok += 1
                rec['result'] = 'silent'
        details.append(rec)
    res.selftest = {'variants': len(vs), 'firing_killed': killed, 'firing_missed': missed, 'silent_ok': silent_ok,
                    'silent_false_alarm': false_alarm, 'stale': stale, 'errors': errors, 'wall_s': round(time.time() - t0, 2),
                    'details': sorted(details, key=lambda d: d['variant'])}
    bad = [d for d in details if d.get('result', '').startswith(('NOT reported', 'FALSE ALARM', 'analysis error')) or d['status'] == 'error']
    for d in details:
        if d['status'] == 'stale':
            print(f'SELFTEST {prop} {d["variant"]}: stale ({d.get("note")})')
    for d in bad:
        print(f'SELFTEST {prop} {d["variant"]}: {d.get("result") or d.get("note")}')
    print(f'SELFTEST {prop}: {len(vs)} variants: {killed} firing killed, {missed} missed, {silent_ok} silent ok, '
          f'{false_alarm} false alarms, {stale} stale, {errors} errors in {res.selftest["wall_s"]}s')
    if missed or false_alarm or errors:
        raise AnalysisError(f'self-test failed for {prop}: {missed} firing variant(s) not reported, {false_alarm} false alarm(s), {errors} error(s)')
