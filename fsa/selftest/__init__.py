"""Self-test of the checkers: firing and silent variants (filled in later)."""


def run(prop, repo, seed, res):
    res.selftest = {'status': 'not yet implemented'}
