"""AST-addressed source edits for the self-test variants.

A variant is computed from the *current* tree: a node is located inside a function by a predicate over
the AST (never by line number or surrounding text), and its exact source segment is replaced.  The
result is an in-memory overlay {relative path: new source}; nothing is written to disk.
"""
from __future__ import annotations

import ast
import textwrap
from typing import Callable, Dict, List, Optional, Union

from ..model import Project, walk_no_nested


class Stale(Exception):
    """The anchor of a variant no longer exists in the current tree (variant skipped, reported)."""


def _func(p: Project, rel: str, qual: str) -> ast.FunctionDef:
    m = p.modules.get(rel)
    if m is None:
        raise Stale(f'module {rel} missing')
    if '.' in qual:
        cls, name = qual.split('.', 1)
        found = None
        for n in m.tree.body:
            if isinstance(n, ast.ClassDef) and n.name == cls:
                for f in n.body:
                    if isinstance(f, ast.FunctionDef) and f.name == name:
                        found = f          # last definition wins, like Python
        if found is None:
            raise Stale(f'{rel}::{qual} missing')
        return found
    for n in m.tree.body:
        if isinstance(n, ast.FunctionDef) and n.name == qual:
            return n
    raise Stale(f'{rel}::{qual} missing')


def _nodes(fn: ast.FunctionDef, find: Callable[[ast.AST], bool]) -> List[ast.AST]:
    out = [n for n in walk_no_nested(fn) if hasattr(n, 'lineno') and _safe(find, n)]
    out.sort(key=lambda n: (n.lineno, n.col_offset))
    return out


def _safe(find, n):
    try:
        return bool(find(n))
    except Exception:
        return False


def _offsets(src: str):
    lines = src.splitlines(keepends=True)
    starts = [0]
    for ln in lines:
        starts.append(starts[-1] + len(ln))
    return lines, starts


def _pos(src: str, lineno: int, col: int) -> int:
    """absolute offset of (lineno, utf8 col)"""
    lines, starts = _offsets(src)
    line = lines[lineno - 1]
    return starts[lineno - 1] + len(line.encode('utf-8')[:col].decode('utf-8'))


def segment(src: str, n: ast.AST) -> (int, int):
    return _pos(src, n.lineno, n.col_offset), _pos(src, n.end_lineno, n.end_col_offset)


def replace_node(p: Project, rel: str, qual: str, find, new: Union[str, Callable[[str], str]], which: int = 0) -> Dict[str, str]:
    """Replace the source of the `which`-th node of function `qual` satisfying `find`."""
    src = p.modules[rel].src if rel in p.modules else None
    if src is None:
        raise Stale(f'module {rel} missing')
    fn = _func(p, rel, qual)
    nodes = _nodes(fn, find)
    if len(nodes) <= which:
        raise Stale(f'{rel}::{qual}: anchor #{which} not found')
    n = nodes[which]
    a, b = segment(src, n)
    old = src[a:b]
    if isinstance(n, ast.stmt):
        indent = ' ' * n.col_offset
        old_norm = textwrap.dedent(indent + old)
        text = new(old_norm) if callable(new) else new
        ls = textwrap.dedent(text).split('\n')
        text = ('\n' + indent).join(ls)
    else:
        text = new(old) if callable(new) else new
    out = src[:a] + text + src[b:]
    try:
        ast.parse(out)
    except SyntaxError as e:
        raise Stale(f'{rel}::{qual}: edit produces a syntax error: {e}')
    return {rel: out}


def delete_stmt(p, rel, qual, find, which=0):
    return replace_node(p, rel, qual, find, 'pass', which)


def insert_before(p, rel, qual, find, text, which=0):
    return replace_node(p, rel, qual, find, lambda old: textwrap.dedent(text) + '\n' + old, which)


def insert_after(p, rel, qual, find, text, which=0):
    return replace_node(p, rel, qual, find, lambda old: old + '\n' + textwrap.dedent(text), which)


def chain(p: Project, *edits) -> Dict[str, str]:
    """Apply several edits one after the other (each edit: Project -> overlay)."""
    overlay: Dict[str, str] = dict(p.overlay)
    cur = p
    for ed in edits:
        overlay.update(ed(cur))
        cur = Project(str(p.repo), overlay, normalise=False)
    return overlay


# ----------------------------------------------------------------------------- predicates
def is_call(name_suffix: str, arg_contains: Optional[str] = None):
    """Call whose callee text ends with name_suffix (e.g. '._trigger_reserve_put')."""
    def f(n):
        if isinstance(n, ast.Call):
            t = ast.unparse(n.func)
            if t.endswith(name_suffix) or t == name_suffix:
                return arg_contains is None or arg_contains in ast.unparse(n)
        return False
    return f


def stmt_calling(name_suffix: str, arg_contains: Optional[str] = None):
    """Expression/assignment statement whose value is a call to name_suffix."""
    c = is_call(name_suffix, arg_contains)

    def f(n):
        if isinstance(n, ast.Expr):
            return c(n.value)
        if isinstance(n, ast.Assign):
            return c(n.value)
        return False
    return f


def if_testing(fragment: str):
    def f(n):
        return isinstance(n, ast.If) and fragment in ast.unparse(n.test)
    return f


def compare_containing(fragment: str):
    def f(n):
        return isinstance(n, ast.Compare) and fragment in ast.unparse(n)
    return f


def assign_to(target: str):
    def f(n):
        if isinstance(n, ast.Assign):
            return any(ast.unparse(t) == target for t in n.targets)
        if isinstance(n, ast.AugAssign):
            return ast.unparse(n.target) == target
        return False
    return f


def stmt_containing(fragment: str, kind=None):
    def f(n):
        return isinstance(n, kind or ast.stmt) and not isinstance(n, (ast.FunctionDef, ast.ClassDef)) and fragment in ast.unparse(n) \
            and not isinstance(n, (ast.If, ast.For, ast.While, ast.Try, ast.With)) if kind is None else \
            isinstance(n, kind) and fragment in ast.unparse(n)
    return f


# ----------------------------------------------------------------------------- whole patches (the seeded changes under /verif/seeded)
def apply_patch(p: Project, patch_text: str) -> Dict[str, str]:
    """Apply a unified diff (paths `a/src/factorysimpy/<rel>`) to the current sources in memory.  Every hunk must match its context and
    removed lines exactly where it says, or within +-40 lines of it; otherwise the patch is stale for this tree."""
    import re
    out: Dict[str, str] = {}
    cur = None
    hunks: List[list] = []
    files = []
    for line in patch_text.splitlines():
        if line.startswith('+++ '):
            m = re.match(r'\+\+\+ b/src/factorysimpy/(\S+)', line)
            cur = m.group(1) if m else None
            hunks = []
            files.append((cur, hunks))
        elif line.startswith('--- ') or line.startswith('diff ') or line.startswith('index '):
            continue
        elif line.startswith('@@') and cur is not None:
            m = re.match(r'@@ -(\d+)(?:,\d+)? \+(\d+)', line)
            hunks.append([int(m.group(1)), []])
        elif cur is not None and hunks and (line[:1] in (' ', '+', '-') or line == ''):
            hunks[-1][1].append(line if line else ' ')
    for rel, hs in files:
        if rel is None:
            continue
        mod = p.modules.get(rel)
        if mod is None:
            raise Stale(f'module {rel} missing')
        lines = mod.src.split('\n')
        offset = 0
        for start, body in hs:
            old = [l[1:] for l in body if l[0] in (' ', '-')]
            new = [l[1:] for l in body if l[0] in (' ', '+')]
            at = None
            for d in sorted(range(-40, 41), key=abs):
                i = start - 1 + offset + d
                if 0 <= i and [x.rstrip() for x in lines[i:i + len(old)]] == [x.rstrip() for x in old]:
                    at = i
                    break
            if at is None:
                raise Stale(f'hunk at {rel}:{start} does not match the current tree')
            lines[at:at + len(old)] = new
            offset += len(new) - len(old)
        out[rel] = '\n'.join(lines)
        try:
            compile(out[rel], rel, 'exec')
        except SyntaxError as e:
            raise Stale(f'patched {rel} does not compile: {e}')
    if not out:
        raise Stale('empty patch')
    return out
